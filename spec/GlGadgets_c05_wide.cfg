CONSTANTS K = 2  R = 49547  PINV = 11434  QBITS = 12  XMAX = 2196  NBITS = 4
  Games = {"reduce"}
SPECIFICATION Spec
INVARIANTS UniqueReduce
