CONSTANTS NQ = 2  NSTEPS = 2  CAP = 4  KeyPinned = FALSE  EmitCases = FALSE
SPECIFICATION Spec
INVARIANTS Sound
