CONSTANTS K = 2  R = 49547  QBITS = 9  MaxLen = 1  EmitPrograms = FALSE
SPECIFICATION Spec
INVARIANT Canonical
