CONSTANTS RATE = 3  MaxOps = 5  Script <- NoScript  Emit = FALSE
SPECIFICATION Spec
INVARIANTS Binding Discard BufBounds PrefixStable NoReuse
