--------------------------------- MODULE Wrapper ---------------------------------
(* The fixed wrapper circuit (verifier.CircuitFixed): four public values, each packing four public-input limbs
   big-endian,   V_j = l_{4j} * 2^(3W) + l_{4j+1} * 2^(2W) + l_{4j+2} * 2^W + l_{4j+3}   (W = 32 in the code, K here),
   asserted in the native field (mod R).  The limbs are prover-supplied native field elements; the inner plonky2
   statement sees them only through the public-input hash, which REDUCES them modulo P first (poseidon HashNoPad), so it
   sees l_i mod P.  One group of four limbs is modelled (the four groups are independent); the prover changes one limb.

   LimbWidthCheck = TRUE  : every limb is range-checked to W bits (the intended design)
   LimbWidthCheck = FALSE : no width check (the shape of CircuitFixed.Define before the repair)
   Invariants (C03): Injective - an accepted limb vector for the inner statement `t` is `t` itself;
                     BelowWord - an accepted public value is below 2^(4W); Honest - the true limbs are accepted. *)
EXTENDS Integers, Sequences, TLC

CONSTANTS K, R, LimbWidthCheck, TrueLimbs   \* TrueLimbs: set of honest limb vectors explored

P == 2^(2*K) - 2^K + 1
SomeLimbs == {<<0, 0, 0, 0>>, <<1, 2, 3, 0>>, <<3, 3, 3, 3>>, <<0, 3, 0, 1>>, <<2, 0, 0, 3>>}
W == 2^K
Pack(l) == (l[4] + W * (l[3] + W * (l[2] + W * l[1]))) % R

VARIABLES t, l, pub, verdict
vars == <<t, l, pub, verdict>>

\* the prover replaces limb i by any native value with the same residue modulo P (otherwise the inner proof fails)
Init == /\ t \in TrueLimbs
        /\ \E i \in 1..4 : \E k \in 0..((R - 1) \div P) :
              /\ t[i] + k * P < R
              /\ l = [t EXCEPT ![i] = t[i] + k * P]
        /\ pub = Pack(l)          \* the prover publishes the packing of the limbs it uses
        /\ verdict = "none"
Verify == /\ verdict = "none"
          /\ verdict' = IF /\ pub = Pack(l)
                           /\ \A i \in 1..4 : l[i] % P = t[i] % P                 \* inner proof: public-input hash of the residues
                           /\ (LimbWidthCheck => \A i \in 1..4 : l[i] < W)
                        THEN "accept" ELSE "reject"
          /\ UNCHANGED <<t, l, pub>>
Next == Verify
Spec == Init /\ [][Next]_vars

Injective == verdict = "accept" => l = t
BelowWord == verdict = "accept" => pub < W * W * W * W
Honest == (verdict # "none" /\ l = t) => verdict = "accept"
================================================================================
