CONSTANTS Ops = {1, 2, 10, 13, 20}  Limbs = {1, 2, 32, 63}  Bases = {2, 3, 4}  Bits = {1, 2, 4, 5}  Copies = {1, 4}  PowerBits = {1, 9, 67}
          Coeffs = {1, 32, 43}  SubBits = {2, 3, 4}  Degrees = {2, 6}
INIT Init
NEXT Next
