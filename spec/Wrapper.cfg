CONSTANTS K = 2  R = 49547  LimbWidthCheck = TRUE  TrueLimbs <- SomeLimbs
SPECIFICATION Spec
INVARIANTS Injective BelowWord Honest
