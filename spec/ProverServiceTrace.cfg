CONSTANTS
  KeyPinned = FALSE
SPECIFICATION TraceSpec
INVARIANTS SafetyOnTrace HighWater
POSTCONDITION TraceAccepted
