CONSTANTS Width = 12  HalfFull = 4  Partial = 22  SboxDegree = 7
SPECIFICATION Spec
INVARIANTS ConstantsInOrder ShapeAtEnd LayerOrder Emit
