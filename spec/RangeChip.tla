------------------------------- MODULE RangeChip -------------------------------
(* The range-check chip of goldilocks/base.go as a request / collect / flush / deliver protocol.

   One action per critical section of the code:
     SelectMode   goldilocks.New: gnarkRangeCheckerSelector + the USE_BIT_DECOMPOSITION_RANGE_CHECK override,
                  registration of the deferred flush *before* gnark's own commit callback
     Request      Chip.rangeCheckerCheck (the dispatch on rangeCheckerType)
     EndDefine    the circuit's Define returns
     RunDeferred  the builder runs the deferred callbacks in registration order:
                    "flush"       Chip.checkCollected (optimal base width must be 16, every width aligned)
                    "gnarkcommit" gnark's commitChecker.commit (closes the checker)
   The deviation of the implementation that DESIGN.md section 6 names (the empty
   `case NATIVE_RANGE_CHECKER:` arm) is the constant NativeArmEmpty: with TRUE the model is the model
   of the defective implementation and TLC reports NoSilentDrop violated (RangeChip_bug.cfg).

   The optimal-base-width computation (range_checker_utils.go, ported from gnark) is modelled exactly,
   for both cost functions, because the chip's guard "nbBits == 16" and gnark's own choice are two
   separate computations: the chip's FrontendTyper assertion never succeeds on gnark's real builders
   (their FrontendType() returns gnark's internal type), so the chip always uses the R1CS cost, whereas
   gnark's commit checker uses the PLONK cost under scs.NewBuilder.  GnarkAligned states what must hold
   for the delivered checks to be sound under gnark <= 0.9.1 (advisory GHSA-rjjm-x32p-m3f7). *)
EXTENDS Integers, Sequences, FiniteSets, TLC, Json

CONSTANTS Widths,          \* request widths explored
          MaxReq,          \* maximal number of explicit requests in one circuit
          Pads,            \* numbers of additional honest 32-bit requests (circuit size classes)
          NativeArmEmpty,  \* TRUE = model of the defect
          EmitCases,       \* TRUE = collect terminal scenarios for replay (needs -workers 1)
          AllowLateRequest \* TRUE = other deferred callbacks may request checks after the flush (a hazard, see LateRequest)

VARIABLES builder, env, mode, phase, requested, delivered, collected, deferQ, pad, closed
vars == <<builder, env, mode, phase, requested, delivered, collected, deferQ, pad, closed>>

\* rc / commit: the builder implements frontend.Rangechecker / frontend.Committer.
\* real: one of gnark's own builders (r1cs.NewBuilder, scs.NewBuilder): a Committer whose FrontendType() is
\*       visible to gnark's commit checker but NOT to the chip (different interface type).
\* typer: a foreign builder (the harness proxy) that implements the chip's own FrontendTyper interface.
Builders == { b \in [rc : BOOLEAN, commit : BOOLEAN, ft : {"r1cs", "scs", "none"}, typer : BOOLEAN, real : BOOLEAN] :
                /\ b.real => (b.commit /\ ~b.rc /\ b.ft # "none" /\ ~b.typer)
                /\ (~b.real) => (b.typer <=> b.ft # "none") }

ExpectedMode(b, e) == IF e THEN "bitdecomp"
                      ELSE IF b.rc THEN "native"
                      ELSE IF b.commit THEN "commit" ELSE "bitdecomp"

(* ---- optimal base width: range_checker_utils.go ------------------------------------------------ *)
DecompSize(v, l) == (v + l - 1) \div l
RECURSIVE SumDecomp(_, _)
SumDecomp(ws, j) == IF ws = <<>> THEN 0 ELSE DecompSize(Head(ws), j) + SumDecomp(Tail(ws), j)
NbDecomposed(ws, p, j) == SumDecomp(ws, j) + p * DecompSize(32, j)
CostR1CS(ws, p, j)  == 2^j + NbDecomposed(ws, p, j) + (Len(ws) + p) + 1
CostPLONK(ws, p, j) == 3 * (2^j) + 3 * NbDecomposed(ws, p, j) + NbDecomposed(ws, p, j) + 1
\* first strict minimum over j = 2..17, as the loop in optimalWidth
RECURSIVE ArgMin(_, _, _, _, _, _)
ArgMin(cost(_, _, _), ws, p, j, best, bestJ) ==
    IF j > 17 THEN bestJ
    ELSE IF cost(ws, p, j) < best THEN ArgMin(cost, ws, p, j + 1, cost(ws, p, j), j)
         ELSE ArgMin(cost, ws, p, j + 1, best, bestJ)
Optimal(cost(_, _, _), ws, p) == ArgMin(cost, ws, p, 2, 2147483647, 0)

WidthsOf(idx) == [i \in 1..Len(idx) |-> requested[idx[i]]]
\* what the chip computes: its own FrontendTyper assertion fails on gnark's real builders
ChipBase  == IF builder.typer /\ builder.ft = "scs" THEN Optimal(CostPLONK, WidthsOf(collected), pad)
             ELSE Optimal(CostR1CS, WidthsOf(collected), pad)
\* what gnark's commit checker computes for the same collection (it sees the type of real builders only)
GnarkBase == IF builder.real /\ builder.ft = "scs" THEN Optimal(CostPLONK, WidthsOf(collected), pad)
             ELSE Optimal(CostR1CS, WidthsOf(collected), pad)

(* ---- the protocol ------------------------------------------------------------------------------ *)
Init == /\ builder \in Builders /\ env \in BOOLEAN /\ pad \in Pads
        /\ mode = "none" /\ phase = "new" /\ requested = <<>> /\ delivered = {} /\ collected = <<>>
        /\ deferQ = <<>> /\ closed = FALSE
        /\ (EmitCases => TLCSet(1, <<>>))

SelectMode == /\ phase = "new"
              /\ mode' = ExpectedMode(builder, env)
              /\ deferQ' = IF ExpectedMode(builder, env) = "commit" THEN <<"flush", "gnarkcommit">> ELSE <<>>
              /\ phase' = "define"
              /\ UNCHANGED <<builder, env, requested, delivered, collected, pad, closed>>

Request(w) == /\ phase = "define" /\ Len(requested) < MaxReq
              /\ requested' = Append(requested, w)
              /\ LET i == Len(requested) + 1 IN
                 CASE mode = "native"    -> /\ delivered' = IF NativeArmEmpty THEN delivered ELSE delivered \cup {i}
                                            /\ UNCHANGED collected
                   [] mode = "bitdecomp" -> delivered' = delivered \cup {i} /\ UNCHANGED collected
                   [] mode = "commit"    -> collected' = Append(collected, i) /\ UNCHANGED delivered
              /\ UNCHANGED <<builder, env, mode, phase, deferQ, pad, closed>>

EndDefine == /\ phase = "define" /\ phase' = "deferred"
             /\ UNCHANGED <<builder, env, mode, requested, delivered, collected, deferQ, pad, closed>>

Misaligned == \E i \in 1..Len(collected) : requested[collected[i]] % 16 # 0

RunDeferred ==
    /\ phase = "deferred"
    /\ IF deferQ = <<>>
       THEN phase' = "done" /\ UNCHANGED <<delivered, deferQ, closed>>
       ELSE /\ deferQ' = Tail(deferQ)
            /\ CASE Head(deferQ) = "flush" ->
                      IF ChipBase # 16 \/ Misaligned \/ closed
                      THEN phase' = "refused" /\ UNCHANGED <<delivered, closed>>
                      ELSE /\ delivered' = delivered \cup {collected[i] : i \in 1..Len(collected)}
                           /\ UNCHANGED <<phase, closed>>
                 [] Head(deferQ) = "gnarkcommit" -> closed' = TRUE /\ UNCHANGED <<phase, delivered>>
    /\ UNCHANGED <<builder, env, mode, requested, collected, pad>>

\* A usage hazard outside the listed property (observed by reading, reported by TLC with AllowLateRequest = TRUE in
\* RangeChip_late.cfg): a range check requested from ANOTHER deferred callback that runs after the chip's flush is collected
\* but never handed to gnark's checker - the commit mode drops it silently.  Nothing in the repository does that today.
LateRequest(w) == /\ AllowLateRequest /\ phase = "deferred" /\ mode = "commit" /\ Len(requested) < MaxReq
                  /\ (IF deferQ = <<>> THEN TRUE ELSE Head(deferQ) # "flush")
                  /\ requested' = Append(requested, w) /\ collected' = Append(collected, Len(requested) + 1)
                  /\ UNCHANGED <<builder, env, mode, phase, delivered, deferQ, pad, closed>>

Next == SelectMode \/ (\E w \in Widths : Request(w) \/ LateRequest(w)) \/ EndDefine \/ RunDeferred
Spec == Init /\ [][Next]_vars

(* ---- properties (C06 "no configuration silently turns range checks into no-ops") ---------------- *)
Terminal == phase \in {"done", "refused"}
TypeOK == /\ mode \in {"none", "native", "commit", "bitdecomp"}
          /\ phase \in {"new", "define", "deferred", "done", "refused"}
          /\ delivered \subseteq 1..Len(requested)
NoSilentDrop == phase = "done" => delivered = 1..Len(requested)
ModeMatches  == phase # "new" => mode = ExpectedMode(builder, env)
CommitDoneAligned == (phase = "done" /\ mode = "commit") => (~Misaligned /\ ChipBase = 16)
\* the delivered checks are aligned to the base width gnark itself will use
\* (stated for gnark's real builders and for foreign builders without the chip's FrontendTyper; a foreign
\* SCS-typed builder that gnark does not recognise makes the two computations disagree - TLC shows it with
\* pad = 50000 - and is outside what the repository supports)
GnarkAligned == (phase = "done" /\ mode = "commit" /\ (builder.real \/ ~builder.typer)) =>
                   \A i \in 1..Len(collected) : requested[collected[i]] % GnarkBase = 0
\* delivery never happens after gnark closed its checker
NoLateDelivery == [][(delivered' # delivered /\ mode = "commit") => ~closed]_vars

Case == [rc |-> builder.rc, commit |-> builder.commit, ft |-> builder.ft, typer |-> builder.typer,
         real |-> builder.real, env |-> env, pad |-> pad,
         widths |-> requested, mode |-> mode, outcome |-> phase,
         ndelivered |-> Cardinality(delivered), chipbase |-> IF mode = "commit" THEN ChipBase ELSE 0,
         gnarkbase |-> IF mode = "commit" THEN GnarkBase ELSE 0]
Emit == (EmitCases /\ Terminal) => TLCSet(1, Append(TLCGet(1), Case))
Post == EmitCases => JsonSerialize("rangechip_cases.json", TLCGet(1))
================================================================================
