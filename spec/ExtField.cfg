CONSTANTS MP = 13  QBITS = 9
INIT Init
NEXT Next
