-------------------------------- MODULE CompileArtifacts --------------------------------
(* Beyond the listed properties: the build artifacts of the wrapper circuit.  verifier/util.go:SaveVerifierCircuitGroth (and its
   Plonk twin) writes four files in a fixed order - r1cs.bin, pk.bin, vk.bin, the Solidity verifier - each by os.Create (which
   truncates an existing file) followed by one serialisation call whose error is ignored; LoadGroth16VerifierKey reads vk.bin,
   LoadGroth16ProverData reads r1cs.bin then pk.bin; cmd/web-api.go:runApi calls both loaders and ignores their errors.
   One action per file-system step of the code; a crash (or a reader in another process) may fall between any two of them.

     TornNeverLoads        a loader never returns an object read from a file whose write did not complete
     RoundTrip             after a completed save of generation g both loaders return generation g
     FreshConsistent       in a fresh directory every successful load returns the one generation ever written
     LoadedSameGeneration  the objects a service start obtains belong to one generation.  This does NOT hold when a directory is
                           re-saved (MaxGen >= 2): a crash between two files leaves r1cs.bin of the new build next to pk.bin / vk.bin
                           of the old one and both loaders succeed - CompileArtifacts_resave.cfg makes TLC exhibit it (a hazard on
                           record, not one of the listed properties).

   Bound by the `artifacts` driver: every behaviour of CompileArtifacts_emit.cfg (loads only while the saver is idle) is executed on a
   real directory with the real Save / Load functions and tiny circuits of distinguishable generations; a crash at a given step is
   realised by handing Save an object whose serialisation method stops there (panics), which is the code's own write path. *)
EXTENDS Integers, Sequences, SequencesExt, FiniteSets, TLC, Json

CONSTANTS MaxGen,            \* number of successive builds saved into the same directory
          MaxLoads,          \* bound on loader calls per behaviour
          LoadsOnlyWhenIdle, \* TRUE: loaders run only between saver runs (what the replay driver can realise)
          EmitCases

NF == 4                      \* 1 r1cs.bin, 2 pk.bin, 3 vk.bin, 4 the Solidity verifier
Absent == [gen |-> 0, st |-> "absent"]

VARIABLES disk,    \* file -> [gen, st]   st: absent | empty (created, nothing written) | partial | ok
          saver,   \* [gen, file, sub]    sub: idle | create (about to os.Create file) | write (created, about to write) | mid (part written)
          lastGen, \* generations started so far
          done,    \* generations whose save completed
          loads,   \* number of loader calls so far
          last,    \* result of the most recent loader call: [op, ok, g1, g2]
          hist     \* observation log for emission (hidden from the exhaustive run by VIEW)
vars == <<disk, saver, lastGen, done, loads, last, hist>>
view == <<disk, saver, lastGen, done, loads, last>>

Idle == [gen |-> 0, file |-> 0, sub |-> "idle"]
NoLoad == [op |-> "none", ok |-> FALSE, g1 |-> 0, g2 |-> 0]

Init == /\ disk = [f \in 1..NF |-> Absent] /\ saver = Idle /\ lastGen = 0 /\ done = {} /\ loads = 0 /\ last = NoLoad /\ hist = <<>>
        /\ (EmitCases => TLCSet(1, {}))

\* what an observer of the directory sees: per file "<generation><state>"
Snap(d) == [f \in 1..NF |-> ToString(d[f].gen) \o d[f].st]
\* compile: MkdirAll, then the first os.Create
BeginSave == /\ saver.sub = "idle" /\ lastGen < MaxGen
             /\ lastGen' = lastGen + 1
             /\ saver' = [gen |-> lastGen + 1, file |-> 1, sub |-> "create"]
             /\ hist' = Append(hist, [op |-> "save", gen |-> lastGen + 1, file |-> 0, sub |-> "", disk |-> Snap(disk)])
             /\ UNCHANGED <<disk, done, loads, last>>
\* os.Create: the old content is gone from this moment
CreateFile == /\ saver.sub = "create"
              /\ disk' = [disk EXCEPT ![saver.file] = [gen |-> saver.gen, st |-> "empty"]]
              /\ saver' = [saver EXCEPT !.sub = "write"]
              /\ UNCHANGED <<lastGen, done, loads, last, hist>>
\* the serialisation call, interruptible in the middle
WriteSome == /\ saver.sub = "write"
             /\ disk' = [disk EXCEPT ![saver.file] = [gen |-> saver.gen, st |-> "partial"]]
             /\ saver' = [saver EXCEPT !.sub = "mid"]
             /\ UNCHANGED <<lastGen, done, loads, last, hist>>
FinishFile == /\ saver.sub \in {"write", "mid"}
              /\ disk' = [disk EXCEPT ![saver.file] = [gen |-> saver.gen, st |-> "ok"]]
              /\ IF saver.file = NF
                 THEN /\ saver' = Idle /\ done' = done \cup {saver.gen}
                      /\ hist' = Append(hist, [op |-> "complete", gen |-> saver.gen, file |-> NF, sub |-> "", disk |-> Snap(disk')])
                 ELSE /\ saver' = [saver EXCEPT !.file = saver.file + 1, !.sub = "create"] /\ UNCHANGED <<done, hist>>
              /\ UNCHANGED <<lastGen, loads, last>>
\* the process dies (or Save returns early on an os.Create error): whatever is on disk stays
Crash == /\ saver.sub # "idle"
         /\ saver' = Idle
         /\ hist' = Append(hist, [op |-> "crash", gen |-> saver.gen, file |-> saver.file, sub |-> saver.sub, disk |-> Snap(disk)])
         /\ UNCHANGED <<disk, lastGen, done, loads, last>>

Readable(f) == disk[f].st = "ok"
CanLoad == loads < MaxLoads /\ (LoadsOnlyWhenIdle => saver.sub = "idle")
LoadVerifierKey ==
  /\ CanLoad /\ loads' = loads + 1
  /\ last' = IF Readable(3) THEN [op |-> "loadvk", ok |-> TRUE, g1 |-> disk[3].gen, g2 |-> 0] ELSE [op |-> "loadvk", ok |-> FALSE, g1 |-> 0, g2 |-> 0]
  /\ hist' = Append(hist, [op |-> "loadvk", gen |-> last'.g1, file |-> IF last'.ok THEN 1 ELSE 0, sub |-> "", disk |-> Snap(disk)])
  /\ UNCHANGED <<disk, saver, lastGen, done>>
LoadProverData ==
  /\ CanLoad /\ loads' = loads + 1
  /\ last' = IF Readable(1) /\ Readable(2) THEN [op |-> "loadpk", ok |-> TRUE, g1 |-> disk[1].gen, g2 |-> disk[2].gen]
                                           ELSE [op |-> "loadpk", ok |-> FALSE, g1 |-> 0, g2 |-> 0]
  /\ hist' = Append(hist, [op |-> "loadpk", gen |-> last'.g1, file |-> IF last'.ok THEN 1 ELSE 0, sub |-> ToString(last'.g2), disk |-> Snap(disk)])
  /\ UNCHANGED <<disk, saver, lastGen, done>>

Next == BeginSave \/ CreateFile \/ WriteSome \/ FinishFile \/ Crash \/ LoadVerifierKey \/ LoadProverData
Spec == Init /\ [][Next]_vars

TypeOK == /\ \A f \in 1..NF : disk[f].gen \in 0..MaxGen /\ disk[f].st \in {"absent", "empty", "partial", "ok"}
          /\ saver.sub \in {"idle", "create", "write", "mid"} /\ loads \in 0..MaxLoads

IsLoad == loads' = loads + 1
TornNeverLoads == [][(IsLoad /\ last'.ok) => IF last'.op = "loadvk" THEN disk[3].st = "ok" ELSE (disk[1].st = "ok" /\ disk[2].st = "ok")]_vars
RoundTrip == [][(IsLoad /\ saver.sub = "idle" /\ lastGen \in done)
                  => (last'.ok /\ last'.g1 = lastGen /\ (last'.op = "loadpk" => last'.g2 = lastGen))]_vars
FreshConsistent == (MaxGen = 1 /\ last.ok) => (last.g1 = 1 /\ (last.op = "loadpk" => last.g2 = 1))
\* a service start = LoadVerifierKey and LoadProverData on the same disk state: all three objects of one generation
LoadedSameGeneration == (Readable(1) /\ Readable(2) /\ Readable(3) /\ saver.sub = "idle") => (disk[1].gen = disk[2].gen /\ disk[2].gen = disk[3].gen)

\* ---- emission: one case per behaviour that ends idle with all loads spent ----
Terminal == saver.sub = "idle" /\ loads = MaxLoads /\ lastGen >= 1
Emit == (EmitCases /\ Terminal /\ hist[Len(hist)].op \in {"loadvk", "loadpk"}) => TLCSet(1, TLCGet(1) \cup {hist})
Post == EmitCases => JsonSerialize("artifact_cases.json", SetToSeq(TLCGet(1)))
================================================================================
