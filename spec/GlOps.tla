--------------------------------- MODULE GlOps ---------------------------------
(* The base-field gadget *algorithms* of goldilocks/base.go, in the shape of the code, checked against the
   field-theoretic definitions on the scaled field, and short *programs* of gadget calls (outputs fed back
   as inputs) generated for replay on the real gadgets.

   Every reducing gadget of the code is an instance of MulAdd:
       Add(a,b) = MulAdd(a, 1, b)      Sub(a,b) = MulAdd(b, NegOne, a)      Mul(a,b) = MulAdd(a, b, 0)
   and MulAdd's only accepted result is (a*b+c) mod P (GlGadgets!UniqueMulAdd).  The NoReduce variants are
   native-field expressions; Reduce accepts any value up to 2^QBITS * P.  A register holds a native value and a
   flag telling whether it is canonical (only canonical values may enter the reducing gadgets: MulAddHint
   refuses others). *)
EXTENDS Integers, Sequences, SequencesExt, FiniteSets, TLC, Json

CONSTANTS K, R, QBITS, MaxLen, EmitPrograms

P   == 2^(2*K) - 2^K + 1
NegOne == P - 1

MulAdd(a, b, c) == (a * b + c) % P
Add(a, b) == MulAdd(a, 1, b)
Sub(a, b) == MulAdd(b, NegOne, a)
Mul(a, b) == MulAdd(a, b, 0)
AddNR(a, b) == (a + b) % R
SubNR(a, b) == (a + b * NegOne) % R
MulNR(a, b) == (a * b) % R
MulAddNR(a, b, c) == (c + a * b) % R
Reduce(x) == x % P
InvOf(x) == IF x = 0 THEN 0 ELSE CHOOSE i \in 1..(P-1) : (i * x) % P = 1
HasInv(x) == IF x = 0 THEN 0 ELSE 1

(* field-theoretic definitions *)
FAdd(a, b) == (a + b) % P
FSub(a, b) == (a - b) % P
FMul(a, b) == (a * b) % P

F == 0..(P-1)
ASSUME \A a \in F, b \in F : Add(a, b) = FAdd(a, b) /\ Sub(a, b) = FSub(a, b) /\ Mul(a, b) = FMul(a, b)
ASSUME \A a \in F, b \in F : AddNR(a, b) % P = FAdd(a, b) /\ SubNR(a, b) % P = FSub(a, b) /\ MulNR(a, b) % P = FMul(a, b)
ASSUME \A a \in F, b \in F, c \in F : MulAddNR(a, b, c) % P = FAdd(FMul(a, b), c) /\ MulAdd(a, b, c) = FAdd(FMul(a, b), c)
ASSUME \A x \in F : (x # 0 => FMul(InvOf(x), x) = 1) /\ (x = 0 => HasInv(x) = 0)
\* the no-reduce results of canonical operands never wrap the native field and stay within what Reduce accepts
ASSUME \A a \in F, b \in F, c \in F : a * b + c < R /\ a + b * NegOne < R /\ (a * b + c) \div P < 2^QBITS

(* ---- programs ------------------------------------------------------------------------------------ *)
Ops3 == {"muladd", "muladdnr"}
Ops2 == {"add", "sub", "mul", "addnr", "subnr", "mulnr"}
Ops1 == {"inverse", "reduce"}
Reducing == {"add", "sub", "mul", "muladd", "inverse"}

VARIABLES regs, refs, canon, prog
vars == <<regs, refs, canon, prog>>
\* three input registers with arbitrary canonical values
Init == /\ regs \in [1..3 -> F] /\ refs = regs /\ canon = [i \in 1..3 |-> TRUE] /\ prog = <<>>
        /\ (EmitPrograms => TLCSet(1, {}))

Apply(op, i, j, k) ==
  CASE op = "add"      -> Add(regs[i], regs[j])
    [] op = "sub"      -> Sub(regs[i], regs[j])
    [] op = "mul"      -> Mul(regs[i], regs[j])
    [] op = "muladd"   -> MulAdd(regs[i], regs[j], regs[k])
    [] op = "addnr"    -> AddNR(regs[i], regs[j])
    [] op = "subnr"    -> SubNR(regs[i], regs[j])
    [] op = "mulnr"    -> MulNR(regs[i], regs[j])
    [] op = "muladdnr" -> MulAddNR(regs[i], regs[j], regs[k])
    [] op = "inverse"  -> InvOf(regs[i])
    [] op = "reduce"   -> Reduce(regs[i])

Ref(op, i, j, k) ==
  LET a == refs[i]  b == refs[j]  c == refs[k] IN
  CASE op \in {"add", "addnr"}       -> FAdd(a, b)
    [] op \in {"sub", "subnr"}       -> FSub(a, b)
    [] op \in {"mul", "mulnr"}       -> FMul(a, b)
    [] op \in {"muladd", "muladdnr"} -> FAdd(FMul(a, b), c)
    [] op = "inverse"                -> InvOf(a)
    [] op = "reduce"                 -> a

Step(op, i, j, k) ==
  /\ Len(prog) < MaxLen
  /\ (op \in Reducing) => (canon[i] /\ (op \in Ops1 \/ canon[j]) /\ (op \notin Ops3 \/ canon[k]))
  \* non-canonical registers may only be reduced (their bound is known to fit) - the code's own discipline
  /\ (op \notin Reducing /\ op # "reduce") => (canon[i] /\ canon[j] /\ (op \notin Ops3 \/ canon[k]))
  /\ regs' = Append(regs, Apply(op, i, j, k))
  /\ refs' = Append(refs, Ref(op, i, j, k))
  /\ canon' = Append(canon, op \in Reducing \/ op = "reduce")
  /\ prog' = Append(prog, <<op, i, j, k>>)

Next == \E op \in Ops3 \cup Ops2 \cup Ops1 :
          \E i \in 1..Len(regs), j \in 1..Len(regs), k \in 1..Len(regs) :
             /\ (op \in Ops1 => (j = 1 /\ k = 1))
             /\ (op \in Ops2 => k = 1)
             /\ Step(op, i, j, k)
Spec == Init /\ [][Next]_vars

\* every register holds a value congruent to what the field-theoretic program computes (shadow registers refs),
\* canonical where flagged
Canonical == \A i \in 1..Len(regs) : (canon[i] => regs[i] < P) /\ regs[i] % P = refs[i]

Emit == (EmitPrograms /\ Len(prog) = MaxLen) => TLCSet(1, TLCGet(1) \cup {prog})
Post == EmitPrograms => JsonSerialize("glops_programs.json", SetToSeq(TLCGet(1)))
================================================================================
