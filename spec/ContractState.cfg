CONSTANTS Word = 2  Users = {1, 2}  Owner = 1  CircuitBoundsWords = TRUE
SPECIFICATION Spec
INVARIANTS OnlyProven NoCollision
PROPERTIES Monotone PausedBlocks
