CONSTANTS NRounds = 3  Arities <- Arities44  LdeBits = 15  CapH = 4  LeafLens <- LeafLensA  PowBits = 16  NChallengesBefore = 13
SPECIFICATION Spec
INVARIANTS AllChecksDone PathLengths
