CONSTANTS
  KeyPinned = TRUE
SPECIFICATION Spec
INVARIANTS TypeOK OnlyAfterVerify InputsArePacking NoProofForInvalid StatusOnlyAtEnd
PROPERTIES AlwaysResponds
