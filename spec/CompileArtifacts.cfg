CONSTANTS
  MaxGen = 1
  MaxLoads = 2
  LoadsOnlyWhenIdle = FALSE
  EmitCases = FALSE
SPECIFICATION Spec
VIEW view
INVARIANTS TypeOK FreshConsistent LoadedSameGeneration
PROPERTIES TornNeverLoads RoundTrip
CHECK_DEADLOCK FALSE
