CONSTANTS
  MaxGen = 2
  MaxLoads = 3
  LoadsOnlyWhenIdle = TRUE
  EmitCases = TRUE
SPECIFICATION Spec
INVARIANTS TypeOK Emit
POSTCONDITION Post
CHECK_DEADLOCK FALSE
