CONSTANTS
  Widths = {3, 16, 32, 48, 144}
  MaxReq = 3
  Pads = {0, 1500, 50000, 70000}
  NativeArmEmpty = FALSE
  AllowLateRequest = FALSE
  EmitCases = FALSE
SPECIFICATION Spec
INVARIANTS TypeOK NoSilentDrop ModeMatches CommitDoneAligned GnarkAligned
PROPERTIES NoLateDelivery
