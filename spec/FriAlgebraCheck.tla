----------------------------- MODULE FriAlgebraCheck -----------------------------
(* Drives the checks of FriAlgebra over sampled polynomials / betas (TLC -simulate or exhaustive over a small set) and
   writes the terms for the real parameters out. *)
EXTENDS FriAlgebra

(* FoldCorrect is linear in the coefficients of the polynomial and, for fixed coefficients, an identity between two
   polynomials in beta of degree < Arity: checking it on a basis of the coefficient space (the monomials times 1 and X)
   and on more than Arity values of beta (all coset points - the lookup branch of the code - and three others, one of
   them outside the base field) therefore covers every polynomial and every beta of the scaled field. *)
VARIABLES cf, idx, beta, done
vars == <<cf, idx, beta, done>>
UnitPoly(k, v) == [i \in 1..Arity |-> IF i = k THEN v ELSE <<0, 0>>]
Basis == {UnitPoly(k, <<1, 0>>) : k \in 1..Arity} \cup {UnitPoly(k, <<0, 1>>) : k \in 1..Arity}
         \cup {[i \in 1..Arity |-> <<3 * i, 200 - i>>]}
Init == /\ cf \in Basis /\ idx \in 0..(2^NLog - 1)
        /\ beta \in ({CosetOf(idx, j) : j \in 0..(Arity - 1)} \cup {<<0, 0>>, <<5, 0>>, <<17, 99>>}) /\ done = FALSE
Next == ~done /\ done' = TRUE /\ UNCHANGED <<cf, idx, beta>>
Spec == Init /\ [][Next]_vars
FoldIsInterpolant == FoldCorrect(cf, idx, beta)
HornerIsPoly == Eval(FinalPoly(Arity), [x |-> beta] @@ [nm \in {"c_" \o ToString(t) : t \in 0..(Arity - 1)} |->
                      cf[1 + (CHOOSE u \in 0..(Arity - 1) : nm = "c_" \o ToString(u))]]) = PolyEval(cf, beta)
================================================================================
