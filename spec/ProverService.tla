-------------------------------- MODULE ProverService --------------------------------
(* Beyond the listed properties: the request life cycle of cmd/web-api.go:generateProof, the handler that turns a plonky2 proof into
   the Groth16 proof and the four public values that go on chain.  One action per step of the handler, in the order of the code:

     Bind        c.ShouldBindJSON             malformed body                        -> 400
     Parse       Read...FromRequest, Deserialize...   panic on undecodable proof / key bytes (gin's recovery -> 500)
     Pack        the first sixteen public inputs, low 32 bits each, big-endian, four per value (panics when fewer than 16)
     Witness     frontend.NewWitness          malformed leaf (nil hash)             -> 500
     Prove       groth16.Prove                the wrapper circuit rejects           -> 500
     SelfVerify  groth16.Verify               (cannot fail after a successful Prove with matching keys) -> 500
     Respond     200 {inputs, proof}

   The request is abstract: body (ok | malformed), proofBytes (ok | garbage), npis (number of public inputs), pisFit (all sixteen
   below 2^32), innerValid (the plonky2 proof verifies against reqKey), reqKey (the verifier key carried by the request: "build" =
   the key the wrapper was built from, "alt_sel" / "alt_unsel" = the build key with one commitment entry changed that is / is not
   selected by a FRI query of this proof, "other" = another circuit's key).  circuitAccepts is the verdict of the wrapper circuit
   (C01-C20 are about that verdict); KeyPinned says whether the circuit itself fixes the key (C04).

     OnlyAfterVerify     a 200 response is produced only after Prove and SelfVerify succeeded
     InputsArePacking    the `inputs` of a 200 response are the packing of the request's public inputs
     NoProofForInvalid   no 200 response for an invalid inner proof, a truncated public input or a key other than the build key -
                         the last part holds only with KeyPinned (ProverService_unpinned.cfg must be rejected by TLC: finding F4 seen
                         from the service: the prover service itself signs a statement checked against a key of the caller's choosing)
     AlwaysResponds      every request gets exactly one response (status 200, 400 or 500)

   Bound by the `service` driver: the real handler (exported under the build tag) behind gin's recovery middleware, driven with
   net/http/httptest; the recorded (request class, status, inputs, proof verdict) records are validated as behaviours of this module
   (ProverServiceTrace.tla).  The cheap classes need no keys; the classes that reach Prove run in the thorough tier with a real
   Groth16 setup of the wrapper built from the one-round restriction of the test circuit. *)
EXTENDS Integers, Sequences, FiniteSets, TLC

CONSTANTS KeyPinned

Bodies == {"ok", "malformed"}
Keys == {"build", "alt_sel", "alt_unsel", "other"}
Requests == [body : Bodies, proofBytes : {"ok", "garbage"}, keyBytes : {"ok", "garbage"}, npis : {4, 16, 97}, pisFit : BOOLEAN,
             innerValid : BOOLEAN, leafOk : BOOLEAN, reqKey : Keys]

VARIABLES req, pc, status, proved, verified, inputsOk
vars == <<req, pc, status, proved, verified, inputsOk>>

\* the wrapper circuit's verdict on (proof, limbs, key): what C01-C04 are about
KeyAccepted(k) == IF KeyPinned THEN k = "build" ELSE k \in {"build", "alt_unsel"}
CircuitAccepts(r) == r.innerValid /\ r.pisFit /\ r.npis = 16 /\ KeyAccepted(r.reqKey)

Init == /\ req \in Requests /\ pc = "bind" /\ status = 0 /\ proved = FALSE /\ verified = FALSE /\ inputsOk = FALSE

Respond(code) == pc' = "done" /\ status' = code
Bind == /\ pc = "bind"
        /\ IF req.body = "malformed" THEN Respond(400) ELSE pc' = "parse" /\ status' = status
        /\ UNCHANGED <<req, proved, verified, inputsOk>>
Parse == /\ pc = "parse"
         /\ IF req.proofBytes = "garbage" \/ req.keyBytes = "garbage" THEN Respond(500) ELSE pc' = "pack" /\ status' = status
         /\ UNCHANGED <<req, proved, verified, inputsOk>>
Pack == /\ pc = "pack"
        /\ IF req.npis < 16 THEN Respond(500) /\ UNCHANGED inputsOk
           ELSE pc' = "witness" /\ status' = status /\ inputsOk' = req.pisFit   \* low 32 bits only: exact iff every input fits
        /\ UNCHANGED <<req, proved, verified>>
Witness == /\ pc = "witness"
           /\ IF ~req.leafOk THEN Respond(500) ELSE pc' = "prove" /\ status' = status
           /\ UNCHANGED <<req, proved, verified, inputsOk>>
Prove == /\ pc = "prove"
         /\ IF CircuitAccepts(req) THEN pc' = "selfverify" /\ proved' = TRUE /\ status' = status
            ELSE Respond(500) /\ UNCHANGED proved
         /\ UNCHANGED <<req, verified, inputsOk>>
SelfVerify == /\ pc = "selfverify" /\ verified' = TRUE /\ pc' = "respond"
              /\ UNCHANGED <<req, status, proved, inputsOk>>
Ok200 == /\ pc = "respond" /\ Respond(200) /\ UNCHANGED <<req, proved, verified, inputsOk>>

Next == Bind \/ Parse \/ Pack \/ Witness \/ Prove \/ SelfVerify \/ Ok200
Spec == Init /\ [][Next]_vars /\ WF_vars(Next)

TypeOK == pc \in {"bind", "parse", "pack", "witness", "prove", "selfverify", "respond", "done"} /\ status \in {0, 200, 400, 500}
OnlyAfterVerify == status = 200 => (proved /\ verified)
InputsArePacking == status = 200 => inputsOk
NoProofForInvalid == status = 200 => (req.innerValid /\ req.pisFit /\ req.npis = 16 /\ req.reqKey = "build")
StatusOnlyAtEnd == (status # 0) <=> (pc = "done")
AlwaysResponds == <>(pc = "done" /\ status \in {200, 400, 500})
================================================================================
