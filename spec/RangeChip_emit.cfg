CONSTANTS
  Widths = {3, 32, 48}
  MaxReq = 2
  Pads = {0, 1500, 40000, 70000}
  NativeArmEmpty = FALSE
  AllowLateRequest = FALSE
  EmitCases = TRUE
SPECIFICATION Spec
INVARIANTS NoSilentDrop Emit
POSTCONDITION Post
