CONSTANTS RATE = 8  MaxOps = 40  Script <- NoScript  Emit = TRUE
SPECIFICATION Spec
INVARIANTS Binding Discard BufBounds NoReuse Collect
POSTCONDITION Post
