CONSTANTS Ops <- OpsAll  Limbs <- LimbsAll  Bases <- BasesAll  Bits <- BitsAll  Copies <- CopiesAll  PowerBits <- PowerBitsAll
          Coeffs <- CoeffsAll  SubBits <- SubBitsAll  Degrees <- DegreesAll
INIT Init
NEXT Next
