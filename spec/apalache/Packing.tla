-------------------------------- MODULE Packing --------------------------------
(* Real-size injectivity facts used by C10 (hash/field conversions) and C03 (on-chain packing), each as
   "no violating state exists" for Apalache (--init=... --inv=... --length=0). *)
EXTENDS Integers
P == 18446744069414584321
R == 21888242871839275222246405745257275088548364400416034343698204186575808495617
T32 == 4294967296
T56 == 72057594037927936
T64 == 18446744073709551616
T128 == 340282366920938463463374607431768211456
T30 == 1073741824
VARIABLES
  \* @type: Int;
  a0,
  \* @type: Int;
  a1,
  \* @type: Int;
  a2,
  \* @type: Int;
  a3,
  \* @type: Int;
  a4,
  \* @type: Int;
  b0,
  \* @type: Int;
  b1,
  \* @type: Int;
  b2,
  \* @type: Int;
  b3,
  \* @type: Int;
  b4,
  \* @type: Int;
  k

Dom(x, t) == x \in Nat /\ x < t

\* C10: three canonical Goldilocks elements packed as a0 + a1*2^64 + a2*2^128 (mod R): injective, no wrap
InitPack3 ==
  /\ Dom(a0, P) /\ Dom(a1, P) /\ Dom(a2, P) /\ Dom(b0, P) /\ Dom(b1, P) /\ Dom(b2, P)
  /\ a3 = 0 /\ a4 = 0 /\ b3 = 0 /\ b4 = 0 /\ k \in Int
  /\ a0 + a1 * T64 + a2 * T128 = b0 + b1 * T64 + b2 * T128 + k * R
InvPack3 == a0 = b0 /\ a1 = b1 /\ a2 = b2 /\ k = 0

\* C10: 56-bit chunks of a value below R determine it.  Stated as the one-step digit lemma
\*     c0 + 2^56 * h = d0 + 2^56 * g,  c0, d0 < 2^56,  h, g < 2^198   ==>   c0 = d0 /\ h = g
\* (the five-chunk statement follows by applying it to the successive quotients; the direct five-digit formulation
\* makes Z3 time out), together with: every 56-bit chunk is a canonical Goldilocks value.
T198 == 401734511064747568885490523085290650630550748445698208825344
InitChunks ==
  /\ Dom(a0, T56) /\ Dom(b0, T56) /\ Dom(a1, T198) /\ Dom(b1, T198)
  /\ a2 = 0 /\ a3 = 0 /\ a4 = 0 /\ b2 = 0 /\ b3 = 0 /\ b4 = 0 /\ k = 0
  /\ a0 + a1 * T56 = b0 + b1 * T56
InvChunks == a0 = b0 /\ a1 = b1 /\ a0 < P

\* 64-bit chunks (8 bytes) WOULD collide modulo P: 2^64 - 1 and 2^32 - 2 are the same Goldilocks element
InitChunks64 ==
  /\ Dom(a0, T64) /\ Dom(b0, T64) /\ a0 # b0 /\ k \in Nat /\ a0 = b0 + k * P
  /\ a1 = 0 /\ a2 = 0 /\ a3 = 0 /\ a4 = 0 /\ b1 = 0 /\ b2 = 0 /\ b3 = 0 /\ b4 = 0
InvChunks64 == FALSE

\* C03: four 32-bit limbs packed big-endian into one value: injective, below 2^128, no wrap modulo R
InitLimbs32 ==
  /\ Dom(a0, T32) /\ Dom(a1, T32) /\ Dom(a2, T32) /\ Dom(a3, T32)
  /\ Dom(b0, T32) /\ Dom(b1, T32) /\ Dom(b2, T32) /\ Dom(b3, T32)
  /\ a4 = 0 /\ b4 = 0 /\ k \in Int
  /\ a3 + T32 * (a2 + T32 * (a1 + T32 * a0)) = b3 + T32 * (b2 + T32 * (b1 + T32 * b0)) + k * R
InvLimbs32 == a0 = b0 /\ a1 = b1 /\ a2 = b2 /\ a3 = b3 /\ k = 0 /\ a3 + T32 * (a2 + T32 * (a1 + T32 * a0)) < T128

\* C03 without a width check on the limbs: limbs are arbitrary native values, the inner statement sees limb mod P.
\* A second limb vector with the same residues and the same packed value exists (Apalache must find it).
InitLimbsFree ==
  /\ Dom(a0, R) /\ Dom(a1, R) /\ Dom(a2, R) /\ Dom(a3, R)
  /\ Dom(b0, T32) /\ Dom(b1, T32) /\ Dom(b2, T32) /\ Dom(b3, T32)
  /\ a4 \in Nat /\ b4 = 0 /\ k \in Int
  /\ a3 = b3 + a4 * P                      \* same residue modulo P, different limb
  /\ a4 > 0
  /\ a0 = b0 /\ a1 = b1 /\ a2 = b2
InvLimbsFree == FALSE

Next == UNCHANGED <<a0, a1, a2, a3, a4, b0, b1, b2, b3, b4, k>>
================================================================================
