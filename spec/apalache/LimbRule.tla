------------------------------- MODULE LimbRule -------------------------------
(* Real-size soundness of the canonical range check (goldilocks/base.go RangeCheck) and of the n-bit check,
   for ALL values, as "no violating state exists" (apalache-mc check --init=... --inv=... --length=0).
   P, R, 2^32, 2^64 are literals.  Every witness is a state variable. *)
EXTENDS Integers
P == 18446744069414584321
R == 21888242871839275222246405745257275088548364400416034343698204186575808495617
T32 == 4294967296
T64 == 18446744073709551616
T253 == 14474011154664524427946373126085988481658748083205070504932198000989141204992
VARIABLES
  \* @type: Int;
  x,
  \* @type: Int;
  hi,
  \* @type: Int;
  lo,
  \* @type: Int;
  k

\* the constraints of RangeCheck over the native field: recomposition modulo R, two 32-bit checks, top-limb rule
InitRange ==
  /\ x \in Nat /\ x < R
  /\ hi \in Nat /\ hi < T32
  /\ lo \in Nat /\ lo < T32
  /\ k \in Nat
  /\ hi * T32 + lo = x + k * R
  /\ (hi = T32 - 1 => lo = 0)
InvRange == x < P /\ k = 0

\* without the top-limb rule the check is only a 64-bit check: Apalache must find a counterexample
InitRangeNoRule ==
  /\ x \in Nat /\ x < R
  /\ hi \in Nat /\ hi < T32
  /\ lo \in Nat /\ lo < T32
  /\ k \in Nat
  /\ hi * T32 + lo = x + k * R

\* completeness: every x < P has limbs that satisfy the constraints (the honest ones)
InitComplete ==
  /\ x \in Nat /\ x < P
  /\ hi \in Nat /\ lo \in Nat /\ lo < T32
  /\ hi * T32 + lo = x
  /\ k = 0
InvComplete == hi < T32 /\ (hi = T32 - 1 => lo = 0)

\* an n-bit decomposition (digits recompose modulo R to x, value of the digits below 2^n <= 2^253) implies x < 2^n:
\* here for the extreme n = 253: v is the integer value of the digit vector
InitBits ==
  /\ x \in Nat /\ x < R
  /\ hi \in Nat /\ hi < T253      \* hi plays the role of the digit-vector value
  /\ lo = 0
  /\ k \in Nat
  /\ hi = x + k * R
InvBits == x < T253 /\ k = 0

Next == UNCHANGED <<x, hi, lo, k>>
================================================================================
