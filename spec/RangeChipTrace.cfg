CONSTANTS
  Widths = {32}
  MaxReq = 100000
  Pads = {0}
  NativeArmEmpty = FALSE
  AllowLateRequest = FALSE
  EmitCases = FALSE
SPECIFICATION TraceSpec
INVARIANTS TypeOK NoSilentDrop ModeMatches CommitDoneAligned HighWater
POSTCONDITION TraceAccepted
