----------------------------- MODULE ProverServiceTrace -----------------------------
(* Trace validation for ProverService: the records written by the `service` driver - one "request" record (the abstract class of the
   request that was sent to the real handler) followed by one "response" record (status, whether `inputs` equal the packing of the
   request's public inputs, whether the returned proof coordinates are curve points) - are accepted only if each request/response
   pair is a behaviour of ProverService's own actions: the handler steps between the two records are not logged, they are taken
   silently (at most the seven steps of one request), and the response must be the one the specification reaches.
   Every record carries every field.  Acceptance: the high-water mark of consumed lines equals the length of the trace. *)
EXTENDS ProverService, Json

Trace == ndJsonDeserialize("service_trace.ndjson")
VARIABLE l
tvars == <<vars, l>>
Cur == Trace[l]

ReqOf(t) == [body |-> t.body, proofBytes |-> t.proofBytes, keyBytes |-> t.keyBytes, npis |-> t.npis, pisFit |-> t.pisFit,
             innerValid |-> t.innerValid, leafOk |-> t.leafOk, reqKey |-> t.reqKey]

TraceInit == /\ l = 2 /\ Trace[1].ev = "request" /\ TLCSet(2, 2)
             /\ req = ReqOf(Trace[1]) /\ req \in Requests
             /\ pc = "bind" /\ status = 0 /\ proved = FALSE /\ verified = FALSE /\ inputsOk = FALSE

\* the handler's own steps, not logged
Silent == pc # "done" /\ Next /\ UNCHANGED l
\* the response the client saw
TResp == /\ l <= Len(Trace) /\ Cur.ev = "response" /\ pc = "done"
         /\ Cur.status = status
         /\ (status = 200 => (Cur.inputsOk = inputsOk /\ Cur.proofOk))
         /\ l' = l + 1 /\ pc' = "idle" /\ UNCHANGED <<req, status, proved, verified, inputsOk>>
\* the next request starts a fresh handler
TReq == /\ l <= Len(Trace) /\ Cur.ev = "request" /\ pc = "idle"
        /\ req' = ReqOf(Cur) /\ req' \in Requests
        /\ pc' = "bind" /\ status' = 0 /\ proved' = FALSE /\ verified' = FALSE /\ inputsOk' = FALSE
        /\ l' = l + 1

TraceNext == Silent \/ TResp \/ TReq
TraceSpec == TraceInit /\ [][TraceNext]_tvars

HighWater == TLCSet(2, IF l > TLCGet(2) THEN l ELSE TLCGet(2))
TraceAccepted == TLCGet(2) = Len(Trace) + 1
SafetyOnTrace == OnlyAfterVerify /\ InputsArePacking
================================================================================
