CONSTANTS Heights = {4, 5, 6, 7}  CapH = 4  EmitCases = FALSE
SPECIFICATION Spec
INVARIANTS Exact FoldLength
