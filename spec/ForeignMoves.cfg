CONSTANTS R = 40961  NDig = 4  KLo = 4  MHi = 8  EmitTable = TRUE
INIT Init
NEXT Next
