CONSTANTS R = 46337  NDig = 4  KLo = 4  MHi = 8  EmitTable = TRUE  WR = 4  NRad = 3
INIT Init
NEXT Next
