-------------------------------- MODULE ContractState --------------------------------
(* Beyond the listed properties, UNBOUND (no EVM toolchain offline): the on-chain side, contracts/foundry/verifier/src/
   NearBlockVerification.sol.  Public inputs are four words; the contract asks the Groth16 verifier contract, then marks
   secondHash(input) = (uint128(input[2]), uint128(input[3])) as proven.  The truncation to 128 bits is lossless only because the
   circuit guarantees every public value is below 2^128 (C03, BelowWord) - the constant CircuitBoundsWords models whether that
   guarantee holds; without it two different statements collide on chain (TLC exhibits it in ContractState_unbounded.cfg).
     OnlyProven       a hash is marked only if the verifier accepted an input whose truncated second half is that hash
     NoCollision      two accepted inputs with different second halves are marked under different hashes
     Monotone         marks are never removed;  PausedBlocks: nothing is marked while paused;  OwnerOnly: pause/unpause/setVerifier *)
EXTENDS Integers, FiniteSets, TLC

CONSTANTS Word,              \* scaled word: values 0..Word*Word-1 stand for uint256, truncation is "mod Word" (uint128)
          Users, Owner, CircuitBoundsWords

Vals == 0..(Word * Word - 1)
Trunc(v) == v % Word
VARIABLES paused, verifierOk, proven, accepted
vars == <<paused, verifierOk, proven, accepted>>
\* accepted: the set of second halves <<input[2], input[3]>> the verifier accepted so far (history variable)
Init == paused = FALSE /\ verifierOk = TRUE /\ proven = {} /\ accepted = {}

\* the verifier contract accepts exactly the statements the circuit can prove: with the circuit bound, only words below Word
Provable(a, b) == IF CircuitBoundsWords THEN a < Word /\ b < Word ELSE TRUE
VerifyAndSave(u, a, b) == /\ ~paused /\ verifierOk /\ Provable(a, b)
                          /\ proven' = proven \cup {<<Trunc(a), Trunc(b)>>}
                          /\ accepted' = accepted \cup {<<a, b>>}
                          /\ UNCHANGED <<paused, verifierOk>>
Pause(u) == u = Owner /\ ~paused /\ paused' = TRUE /\ UNCHANGED <<verifierOk, proven, accepted>>
Unpause(u) == u = Owner /\ paused /\ paused' = FALSE /\ UNCHANGED <<verifierOk, proven, accepted>>
SetVerifier(u, ok) == u = Owner /\ verifierOk' = ok /\ UNCHANGED <<paused, proven, accepted>>
Next == \E u \in Users : \/ (\E a \in Vals, b \in Vals : VerifyAndSave(u, a, b)) \/ Pause(u) \/ Unpause(u)
                         \/ (\E ok \in BOOLEAN : SetVerifier(u, ok))
Spec == Init /\ [][Next]_vars

OnlyProven == \A h \in proven : \E s \in accepted : <<Trunc(s[1]), Trunc(s[2])>> = h
NoCollision == \A s \in accepted, t \in accepted : (s # t) => <<Trunc(s[1]), Trunc(s[2])>> # <<Trunc(t[1]), Trunc(t[2])>>
Monotone == [][proven \subseteq proven']_vars
PausedBlocks == [][paused => proven' = proven]_vars
================================================================================
