------------------------------- MODULE Challenger -------------------------------
(* plonky2's duplex-sponge Challenger (observe_element / get_challenge / duplexing) - which challenger/challenger.go
   transcribes - with the permutation uninterpreted.

   Sponge states are entries of the table `states`: states[1] is the all-zero initial state, a duplexing appends
   [prev |-> id of the previous state, ib |-> the absorbed symbols] (overwrite the first Len(ib) elements, then
   permute).  A squeezed element is [st |-> state id, i |-> position].  The compound operations of the code
   (ObserveHash, ObserveBN254Hash, ObserveCap, ObserveExtensionElement, GetNChallenges, GetExtensionChallenge,
   GetHash) are sequences of the two primitive steps, exactly as in the code.

   Modes:  free   - TLC chooses operations (exhaustive for small bounds, -simulate for long histories)
           script - the operations are the constant Script (Transcript.tla builds the verifier's transcript)
   In both modes `hist` records the operations with the symbols observed and the elements squeezed; histories and
   the state table are written out for replay on the real challenger.Chip. *)
EXTENDS Integers, Sequences, FiniteSets, TLC, Json

CONSTANTS RATE,        \* 8 in the code; smaller values for exhaustive exploration
          MaxOps,      \* bound on compound operations in free mode
          Script,      \* <<>> = free mode
          Emit         \* collect terminal histories (needs -workers 1)

VARIABLES states, sponge, inBuf, outBuf, hist, nsym, observed
vars == <<states, sponge, inBuf, outBuf, hist, nsym, observed>>

Sym(prefix, k) == prefix \o ToString(k)
NoScript == <<>>

(* ---- primitive steps as operators on a record ------------------------------------------------------ *)
Cfg == [states |-> states, sponge |-> sponge, inBuf |-> inBuf, outBuf |-> outBuf]

Duplex(c) == LET ns == Append(c.states, [prev |-> c.sponge, ib |-> c.inBuf])
                 id == Len(ns)
             IN [states |-> ns, sponge |-> id, inBuf |-> <<>>, outBuf |-> [i \in 1..RATE |-> [st |-> id, i |-> i]]]

\* ObserveElement: clear the outputs, append, absorb when RATE elements are buffered
Obs1(c, e) == LET c1 == [c EXCEPT !.outBuf = <<>>, !.inBuf = Append(c.inBuf, e)]
              IN IF Len(c1.inBuf) = RATE THEN Duplex(c1) ELSE c1
RECURSIVE ObsMany(_, _)
ObsMany(c, es) == IF es = <<>> THEN c ELSE ObsMany(Obs1(c, Head(es)), Tail(es))

\* GetChallenge: duplex iff inputs are pending or no output is left; pop the LAST output
Sq1(c) == LET c1 == IF Len(c.inBuf) # 0 \/ Len(c.outBuf) = 0 THEN Duplex(c) ELSE c
          IN [cfg |-> [c1 EXCEPT !.outBuf = SubSeq(c1.outBuf, 1, Len(c1.outBuf) - 1)], out |-> c1.outBuf[Len(c1.outBuf)]]
RECURSIVE SqMany(_, _)
SqMany(c, k) == IF k = 0 THEN [cfg |-> c, outs |-> <<>>]
                ELSE LET r == Sq1(c) r2 == SqMany(r.cfg, k - 1) IN [cfg |-> r2.cfg, outs |-> <<r.out>> \o r2.outs]

Install(c) == /\ states' = c.states /\ sponge' = c.sponge /\ inBuf' = c.inBuf /\ outBuf' = c.outBuf

(* ---- compound operations ---------------------------------------------------------------------------- *)
Rec(op, label, syms, outs) == [op |-> op, label |-> label, syms |-> syms, outs |-> outs]

DoObserve(op, label, syms) ==
    /\ Install(ObsMany(Cfg, syms))
    /\ hist' = Append(hist, Rec(op, label, syms, <<>>))
    /\ observed' = observed \cup {syms[i] : i \in 1..Len(syms)}

DoSqueeze(op, label, k) ==
    LET r == SqMany(Cfg, k) IN
    /\ Install(r.cfg)
    /\ hist' = Append(hist, Rec(op, label, <<>>, r.outs))
    /\ UNCHANGED observed

\* the five 56-bit chunks of a BN254 hash h (poseidon.BN254Chip.ToVec)
Chunks(h) == [j \in 1..5 |-> h \o "#chunk@" \o ToString(56 * (j - 1))]

Init == /\ states = <<[prev |-> 0, ib |-> <<>>]>> /\ sponge = 1 /\ inBuf = <<>> /\ outBuf = <<>>
        /\ hist = <<>> /\ nsym = 0 /\ observed = {}
        /\ (Emit => TLCSet(1, <<>>))

Free == /\ Script = <<>> /\ Len(hist) < MaxOps
        /\ \/ DoObserve("element", "", <<Sym("s", nsym)>>) /\ nsym' = nsym + 1
           \/ DoObserve("ext", "", <<Sym("s", nsym), Sym("s", nsym + 1)>>) /\ nsym' = nsym + 2
           \/ DoObserve("hash", "", [j \in 1..4 |-> Sym("s", nsym + j - 1)]) /\ nsym' = nsym + 4
           \/ DoObserve("bnhash", Sym("h", nsym), Chunks(Sym("h", nsym))) /\ nsym' = nsym + 1
           \* a list observation (ObserveElements / ObserveCap / ObserveExtensionElements); the EMPTY list observes nothing and, as in
           \* plonky2 (only observe_element clears the outputs), leaves the pending outputs alone
           \/ \E n \in {0, 3} : DoObserve("elements", "", [j \in 1..n |-> Sym("s", nsym + j - 1)]) /\ nsym' = nsym + n
           \* a list of n extension elements (ObserveExtensionElements / ObserveOpenings): 2n limbs in order - five of them cross a
           \* block of the sponge (RATE = 8) and end inside the next one, so a permutation happens in the middle of the list
           \/ \E n \in {2, 5} : DoObserve("extelements", "", [j \in 1..(2 * n) |-> Sym("s", nsym + j - 1)]) /\ nsym' = nsym + 2 * n
           \/ \E k \in 1..3 : DoSqueeze("challenges", "", k) /\ nsym' = nsym
           \/ DoSqueeze("extchallenge", "", 2) /\ nsym' = nsym
           \/ DoSqueeze("gethash", "", 4) /\ nsym' = nsym

Scripted == /\ Script # <<>> /\ Len(hist) < Len(Script)
            /\ LET s == Script[Len(hist) + 1] IN
               IF s.k = 0 THEN DoObserve(s.op, s.label, s.syms) ELSE DoSqueeze(s.op, s.label, s.k)
            /\ nsym' = nsym

Next == Free \/ Scripted
Spec == Init /\ [][Next]_vars

(* ---- properties (C11) ---------------------------------------------------------------------------------- *)
RECURSIVE SymsOfState(_)
SymsOfState(id) == IF id = 0 THEN {} ELSE
                   LET e == states[id] IN {e.ib[i] : i \in 1..Len(e.ib)} \cup SymsOfState(e.prev)
\* every symbol observed before a squeeze occurs in every element that squeeze returns
Binding == \A h \in 1..Len(hist) : \A o \in 1..Len(hist[h].outs) :
              LET before == UNION {{hist[g].syms[i] : i \in 1..Len(hist[g].syms)} : g \in 1..(h - 1)}
              IN before \subseteq SymsOfState(hist[h].outs[o].st)
\* buffered outputs always belong to the current sponge state: observing discards the unused ones
Discard == \A i \in 1..Len(outBuf) : outBuf[i].st = sponge
BufBounds == Len(inBuf) < RATE /\ Len(outBuf) <= RATE
\* a stream of consecutive squeezes is prefix-stable: its first n elements do not depend on how many are drawn
PrefixStable == \A n \in 1..3 : \A m \in n..4 : SqMany(Cfg, n).outs = SubSeq(SqMany(Cfg, m).outs, 1, n)
\* no element is ever returned twice
RECURSIVE AllOuts(_)
AllOuts(h) == IF h = 0 THEN <<>> ELSE AllOuts(h - 1) \o hist[h].outs
NoReuse == LET a == AllOuts(Len(hist)) IN \A i \in 1..Len(a) : \A j \in 1..Len(a) : (a[i] = a[j]) => i = j

Terminal == IF Script = <<>> THEN Len(hist) = MaxOps ELSE Len(hist) = Len(Script)
Collect == (Emit /\ Terminal) => TLCSet(1, Append(TLCGet(1), [states |-> states, hist |-> hist]))
Post == Emit => JsonSerialize("challenger_histories.json", TLCGet(1))
================================================================================
