CONSTANTS MP = 241  MRoots <- Roots241
INIT Init
NEXT Next
