CONSTANTS Threads = {1, 2}  ReqPerThread = 1  WithMutex = FALSE
SPECIFICATION Spec
INVARIANTS AtMostOneChip OneFlush NoLostRequest
