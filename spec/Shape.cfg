INIT Init
NEXT Next
