CONSTANTS K = 2  R = 49547  PINV = 11434  QBITS = 9  XMAX = 2196  NBITS = 4
  Games = {"rangecheck", "nbits"}
SPECIFICATION Spec
INVARIANTS SoundRange SoundNBits
