--------------------------------- MODULE Terms ---------------------------------
(* A small term language over GF(P^2) = GF(P)[X]/(X^2 - 7), used by the modules that specify *formulas* (FRI algebra,
   extension-field algorithms, gate polynomials, the PLONK vanishing combination).  A specification operator returns a
   term; TLC (i) evaluates it on the scaled field to check it against its mathematical definition, and (ii) writes it
   out with JsonSerialize; the Go evaluator harness/terms computes the same term at the real field.  So the formula has
   one source: the TLA+ operator.

   Terms (tuples, serialised as JSON arrays):
     <<"var", name>>      a GF(P^2) variable of the environment         <<"nat", k>>   the integer k
     <<"gen">>            the multiplicative generator 7               <<"root", n>>  the primitive 2^n-th root of unity
     <<"x">>              the extension generator X (X^2 = 7)          <<"big", s>>   decimal constant (real field only)
     <<"add", a, b>> <<"sub", a, b>> <<"mul", a, b>> <<"inv", a>> <<"exp", a, k>> (k a natural number)
     <<"c0", a>> <<"c1", a>>  coordinates of a, embedded in the base field *)
EXTENDS Integers, Sequences, FiniteSets, TLC

CONSTANTS MP,       \* the scaled prime (241: 2-adicity 4; 13: 2-adicity 2)
          MRoots    \* MRoots[n+1] = primitive 2^n-th root of unity modulo MP, consistent: MRoots[n+1]^2 = MRoots[n]

Roots241 == <<1, 240, 64, 8, 44>>
Roots13 == <<1, 12, 5>>

Var(n) == <<"var", n>>
NatT(k) == <<"nat", k>>
Gen == <<"gen">>
Root(n) == <<"root", n>>
XGen == <<"x">>
Add(a, b) == <<"add", a, b>>
Sub(a, b) == <<"sub", a, b>>
Mul(a, b) == <<"mul", a, b>>
Inv(a) == <<"inv", a>>
Exp(a, k) == <<"exp", a, k>>
C0(a) == <<"c0", a>>
C1(a) == <<"c1", a>>
Zero == NatT(0)
One == NatT(1)

RECURSIVE SumT(_)
SumT(ts) == IF ts = <<>> THEN Zero ELSE IF Len(ts) = 1 THEN ts[1] ELSE Add(SumT(SubSeq(ts, 1, Len(ts) - 1)), ts[Len(ts)])
RECURSIVE ProdT(_)
ProdT(ts) == IF ts = <<>> THEN One ELSE IF Len(ts) = 1 THEN ts[1] ELSE Mul(ProdT(SubSeq(ts, 1, Len(ts) - 1)), ts[Len(ts)])
\* Horner: sum_i ts[i] * a^(i-1)
RECURSIVE HornerT(_, _)
HornerT(ts, a) == IF ts = <<>> THEN Zero ELSE Add(ts[1], Mul(a, HornerT(Tail(ts), a)))

(* ---- arithmetic of the scaled field ------------------------------------------------------------------ *)
M(x) == x % MP
EAdd(a, b) == <<M(a[1] + b[1]), M(a[2] + b[2])>>
ESub(a, b) == <<M(a[1] - b[1]), M(a[2] - b[2])>>
EMul(a, b) == <<M(a[1] * b[1] + 7 * a[2] * b[2]), M(a[1] * b[2] + a[2] * b[1])>>
RECURSIVE PowM(_, _)
PowM(a, k) == IF k = 0 THEN 1 ELSE IF k % 2 = 0 THEN PowM(M(a * a), k \div 2) ELSE M(a * PowM(a, k - 1))
InvM(a) == PowM(a, MP - 2)
EInv(a) == LET n == M(a[1] * a[1] - 7 * a[2] * a[2]) ni == InvM(n) IN <<M(a[1] * ni), M((MP - a[2]) * ni)>>
RECURSIVE EPow(_, _)
EPow(a, k) == IF k = 0 THEN <<1, 0>> ELSE IF k % 2 = 0 THEN EPow(EMul(a, a), k \div 2) ELSE EMul(a, EPow(a, k - 1))

RECURSIVE Eval(_, _)
Eval(t, env) ==
  CASE t[1] = "var"  -> env[t[2]]
    [] t[1] = "nat"  -> <<M(t[2]), 0>>
    [] t[1] = "gen"  -> <<7 % MP, 0>>
    [] t[1] = "root" -> <<MRoots[t[2] + 1], 0>>
    [] t[1] = "x"    -> <<0, 1>>
    [] t[1] = "add"  -> EAdd(Eval(t[2], env), Eval(t[3], env))
    [] t[1] = "sub"  -> ESub(Eval(t[2], env), Eval(t[3], env))
    [] t[1] = "mul"  -> EMul(Eval(t[2], env), Eval(t[3], env))
    [] t[1] = "inv"  -> EInv(Eval(t[2], env))
    [] t[1] = "exp"  -> EPow(Eval(t[2], env), t[3])
    [] t[1] = "c0"   -> <<Eval(t[2], env)[1], 0>>
    [] t[1] = "c1"   -> <<Eval(t[2], env)[2], 0>>

RECURSIVE BitRev(_, _)
BitRev(x, n) == IF n = 0 THEN 0 ELSE (x % 2) * 2^(n - 1) + BitRev(x \div 2, n - 1)
================================================================================
