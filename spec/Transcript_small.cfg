CONSTANTS RATE = 8  MaxOps = 0  Emit = TRUE
  NumChallenges = 2 CapSize = 2 NConstants = 2 NSigmas = 2 NWires = 3 NZs = 2 NPartial = 2 NQuotient = 2 NCommitCaps = 2 FinalLen = 2 NQueries = 3
  Script <- VerifierScript
SPECIFICATION Spec
INVARIANTS Binding Discard BufBounds NoReuse Collect
POSTCONDITION Post
