---------------------------------- MODULE Plonk ----------------------------------
(* plonky2's PLONK check at zeta (plonk/plonk.go: PlonkChip.Verify, evalVanishingPoly, checkPartialProducts, evalL0) as TERMS over the
   openings and challenges, for a description with NC challenge rounds, RW routed wires, quotient degree factor QD (chunk
   size of the permutation partial products), NG gate constraints and subgroup size 2^DB:

     L0(zeta)   = (zeta^n - 1) / (n (zeta - 1))            Z_H(zeta) = zeta^n - 1
     z1_i       = L0 * (Z_i - 1)
     f_{i,j}    = beta_i * k_j * zeta + w_j + gamma_i       g_{i,j} = beta_i * sigma_j + w_j + gamma_i            (j < RW)
     chunk c of round i (wires c*QD .. min((c+1)*QD, RW) - 1), accumulators acc = <<Z_i, pp_{i,0}, .., pp_{i,m-1}, Znext_i>>:
     check_{i,c} = acc[c] * prod f - acc[c+1] * prod g                                      (m + 1 = ceil(RW / QD) chunks)
     terms      = z1_0 .. z1_{NC-1},  check_{0,*}, check_{1,*}, ..,  gate_0 .. gate_{NG-1}
     V_i        = sum_k terms[k] * alpha_i^k            accepted  <=>  for all i:  V_i = Z_H * sum_j t_{i,j} * (zeta^n)^j

   plonky2 lets the LAST chunk be shorter when QD does not divide RW (partial_product.rs chunks the wire list); the term
   follows plonky2.  TLC checks on the scaled field that the chunks cover every routed wire exactly once, that L0 is the
   first Lagrange basis polynomial of the subgroup, and that an identity permutation with unit accumulators vanishes. *)
EXTENDS Terms, Json

V(name, i) == Var(name \o "_" \o ToString(i))
V2(name, i, j) == Var(name \o "_" \o ToString(i) \o "_" \o ToString(j))
Zeta == Var("zeta")
ZetaN(db) == Exp(Zeta, 2^db)
ZH(db) == Sub(ZetaN(db), One)
L0(db) == Mul(ZH(db), Inv(Mul(NatT(2^db), Sub(Zeta, One))))

NumChunks(rw, qd) == (rw + qd - 1) \div qd
ChunkWires(c, rw, qd) == LET lo == c * qd  hi == IF (c + 1) * qd < rw THEN (c + 1) * qd ELSE rw IN [j \in 1..(hi - lo) |-> lo + j - 1]
Numer(i, j) == Add(Add(Mul(Mul(V("beta", i), V("k", j)), Zeta), V("w", j)), V("gamma", i))
Denom(i, j) == Add(Add(Mul(V("beta", i), V("s", j)), V("w", j)), V("gamma", i))
Acc(i, c, m) == IF c = 0 THEN V("z", i) ELSE IF c = m + 1 THEN V("zn", i) ELSE V2("pp", i, c - 1)
Check(i, c, rw, qd) == LET ws == ChunkWires(c, rw, qd)  m == NumChunks(rw, qd) - 1 IN
                       Sub(Mul(Acc(i, c, m), ProdT([t \in 1..Len(ws) |-> Numer(i, ws[t])])),
                           Mul(Acc(i, c + 1, m), ProdT([t \in 1..Len(ws) |-> Denom(i, ws[t])])))
RECURSIVE ConcatSeqs(_)
ConcatSeqs(ss) == IF ss = <<>> THEN <<>> ELSE Head(ss) \o ConcatSeqs(Tail(ss))
VanishingTerms(nc, rw, qd, ng, db) ==
      [i \in 1..nc |-> Mul(L0(db), Sub(V("z", i - 1), One))]
   \o ConcatSeqs([i \in 1..nc |-> [c \in 1..NumChunks(rw, qd) |-> Check(i - 1, c - 1, rw, qd)]])
   \o [k \in 1..ng |-> V("g", k - 1)]
Vanishing(i, nc, rw, qd, ng, db) == HornerT(VanishingTerms(nc, rw, qd, ng, db), V("alpha", i))
Rhs(i, qd, db) == Mul(ZH(db), HornerT([j \in 1..qd |-> V2("t", i, j - 1)], ZetaN(db)))

(* ---- checks on the scaled field -------------------------------------------------------------------------- *)
CONSTANTS DBm   \* log2 of the scaled subgroup size (<= 2-adicity of MP)
\* every routed wire is in exactly one chunk
ASSUME \A rw \in 1..12 : \A qd \in 1..8 :
          LET all == ConcatSeqs([c \in 1..NumChunks(rw, qd) |-> ChunkWires(c - 1, rw, qd)]) IN all = [j \in 1..rw |-> j - 1]
\* L0 vanishes on the subgroup except at 1, and L0 * n * (zeta - 1) = zeta^n - 1 elsewhere
SubgroupPts == {PowM(MRoots[DBm + 1], e) : e \in 0..(2^DBm - 1)}
ASSUME \A x \in SubgroupPts \ {1} : Eval(L0(DBm), [zeta |-> <<x, 0>>]) = <<0, 0>>
ASSUME \A x \in {<<3, 0>>, <<5, 9>>, <<100, 200>>} :
          EMul(Eval(L0(DBm), [zeta |-> x]), EMul(<<M(2^DBm), 0>>, ESub(x, <<1, 0>>))) = Eval(ZH(DBm), [zeta |-> x])
\* an identity permutation (sigma_j = k_j * zeta) with unit accumulators makes every permutation term vanish
IdEnv == [nm \in {"zeta", "beta_0", "gamma_0", "z_0", "zn_0", "pp_0_0", "w_0", "w_1", "w_2", "k_0", "k_1", "k_2", "s_0", "s_1", "s_2"} |->
            CASE nm = "zeta" -> <<9, 4>> [] nm = "beta_0" -> <<33, 0>> [] nm = "gamma_0" -> <<77, 0>>
              [] nm \in {"z_0", "zn_0", "pp_0_0"} -> <<1, 0>>
              [] nm = "w_0" -> <<10, 1>> [] nm = "w_1" -> <<20, 2>> [] nm = "w_2" -> <<30, 3>>
              [] nm = "k_0" -> <<1, 0>> [] nm = "k_1" -> <<7, 0>> [] nm = "k_2" -> <<49, 0>>
              [] nm = "s_0" -> EMul(<<1, 0>>, <<9, 4>>) [] nm = "s_1" -> EMul(<<7, 0>>, <<9, 4>>) [] nm = "s_2" -> EMul(<<49, 0>>, <<9, 4>>)]
ASSUME \A c \in 0..1 : Eval(Check(0, c, 3, 2), IdEnv) = <<0, 0>>
================================================================================
