-------------------------------- MODULE Verifier --------------------------------
(* The plonky2 verifier circuit (verifier.VerifierChip.Verify) as a phase machine over ABSTRACT data, one action per check
   of the code, in the order of the code:

     sweep        rangeCheckProof: a complete canonical check on every Goldilocks-valued proof leaf
     transcript   GetChallenges: every challenge squeezed after a changed observation is "fresh" (ideal Fiat-Shamir)
     plonk        PlonkChip.Verify: the vanishing identity at zeta (fails when an opening, the public-input hash or
                  one of its challenges changed - ideal algebra)
     pow          the proof-of-work width check on the response (a fresh response may pass by luck: powLuck)
     per round:   4 x merkle_init, then per step: consistency, merkle_step; finally final

   One perturbation `pert` of an accepted instance is chosen in Init: a leaf class with its position (round, tree / step,
   cap index) and a kind - "value" (any of +1, -1, random, swap, zero) or "noncanon" (same residue plus a multiple of p).
   capIdx[r] is the cap entry the (unchanged) query index of round r selects, evalSel tells whether a changed fold
   evaluation is the one at the query's own coset position - both chosen nondeterministically, which is how
   "selected by some query / by none" is explored.  KeyPinned says whether the verifier key is fixed when the wrapper is
   built (C04).  Invariants: Sound (every non-trivial perturbation ends in reject), Completeness, Monotone; the sequence
   `blame` names the checks that failed, its head is the check that must fail FIRST in the real run. *)
EXTENDS Integers, Sequences, FiniteSets, TLC, Json

CONSTANTS NQ, NSTEPS, CAP, KeyPinned, EmitCases

Rounds == 0..(NQ - 1)
Steps  == 0..(NSTEPS - 1)
Trees  == 0..3
CapIx  == 0..(CAP - 1)
OpeningKinds == {"Constants", "PlonkSigmas", "Wires", "PlonkZs", "PlonkZsNext", "PartialProducts", "QuotientPolys"}

Leaf(c, r, t, i) == [cls |-> c, r |-> r, t |-> t, i |-> i]
Leaves ==
     {Leaf("PI", 0, 0, 0), Leaf("VD.digest", 0, 0, 0), Leaf("FinalPoly", 0, 0, 0), Leaf("Pow", 0, 0, 0)}
  \cup {Leaf("VD.cap", 0, 0, i) : i \in CapIx}
  \cup {Leaf(c, 0, 0, i) : c \in {"WiresCap", "ZsCap", "QuotCap"}, i \in CapIx}
  \cup {Leaf(k, 0, 0, 0) : k \in OpeningKinds}
  \cup {Leaf("CommitCap", 0, s, i) : s \in Steps, i \in CapIx}
  \cup {Leaf(c, r, t, 0) : c \in {"Init.Elem", "Init.Sib"}, r \in Rounds, t \in Trees}
  \cup {Leaf(c, r, s, 0) : c \in {"Step.Eval", "Step.Sib"}, r \in Rounds, s \in Steps}
GlValued(l) == l.cls \in OpeningKinds \cup {"Init.Elem", "Step.Eval", "FinalPoly", "Pow"}
Kinds == {"value", "noncanon"}

VARIABLES pc, pert, capIdx, evalSel, fresh, tainted, powLuck, verdict, blame
vars == <<pc, pert, capIdx, evalSel, fresh, tainted, powLuck, verdict, blame>>

None == [cls |-> "none", r |-> 0, t |-> 0, i |-> 0]
Changed(l) == pert.leaf = l /\ pert.kind = "value"
ChangedCls(c) == pert.kind = "value" /\ pert.leaf.cls = c

\* the transcript (Transcript.tla gives it leaf by leaf; here class by class)
TranscriptSeq ==
  << <<"obs", {"VD.digest"}, 0>>, <<"obs", {"PI"}, 0>>, <<"obs", {"WiresCap"}, 0>>, <<"sq", "beta", 0>>, <<"sq", "gamma", 0>>,
     <<"obs", {"ZsCap"}, 0>>, <<"sq", "alpha", 0>>, <<"obs", {"QuotCap"}, 0>>, <<"sq", "zeta", 0>>,
     <<"obs", OpeningKinds, 0>>, <<"sq", "fri_alpha", 0>> >>
  \o [k \in 1..(2 * NSTEPS) |-> IF k % 2 = 1 THEN <<"obs", {"CommitCap"}, (k - 1) \div 2>> ELSE <<"sq", "fri_beta", (k - 2) \div 2>>]
  \o << <<"obs", {"FinalPoly"}, 0>>, <<"obs", {"Pow"}, 0>>, <<"sq", "pow_resp", 0>>, <<"sq", "query_idx", 0>> >>

FreshAfter ==
  LET firstChanged == { k \in 1..Len(TranscriptSeq) :
                          /\ TranscriptSeq[k][1] = "obs"
                          /\ pert.kind = "value" /\ pert.leaf.cls \in TranscriptSeq[k][2]
                          /\ (pert.leaf.cls = "CommitCap" => TranscriptSeq[k][3] = pert.leaf.t) }
  IN { <<TranscriptSeq[k][2], TranscriptSeq[k][3]>> :
         k \in { j \in 1..Len(TranscriptSeq) : TranscriptSeq[j][1] = "sq" /\ \E f \in firstChanged : f < j } }
IsFresh(c) == \E p \in fresh : p[1] = c

PerRound == 4 + 2 * NSTEPS + 1
Phases == << <<"sweep", 0, 0>>, <<"transcript", 0, 0>>, <<"plonk", 0, 0>>, <<"pow", 0, 0>> >>
          \o [k \in 1..(NQ * PerRound) |->
                LET r == (k - 1) \div PerRound  o == (k - 1) % PerRound IN
                IF o < 4 THEN <<"merkle_init", r, o>>
                ELSE IF o < 4 + 2 * NSTEPS THEN (IF (o - 4) % 2 = 0 THEN <<"consistency", r, (o - 4) \div 2>> ELSE <<"merkle_step", r, (o - 4) \div 2>>)
                ELSE <<"final", r, 0>>]
          \o << <<"done", 0, 0>> >>

CapOfTree(t) == CASE t = 0 -> "VD.cap" [] t = 1 -> "WiresCap" [] t = 2 -> "ZsCap" [] t = 3 -> "QuotCap"

Init == /\ pc = 1
        /\ pert \in [leaf : Leaves, kind : Kinds] \cup {[leaf |-> None, kind |-> "none"]}
        /\ (pert.kind = "noncanon" => GlValued(pert.leaf))
        /\ capIdx \in [Rounds -> CapIx]
        /\ evalSel \in BOOLEAN /\ (evalSel => pert.leaf.cls = "Step.Eval")
        /\ fresh = {} /\ tainted = {} /\ powLuck \in BOOLEAN /\ verdict = "accept" /\ blame = <<>>
        /\ (powLuck => (pert.kind = "value" /\ pert.leaf.cls \in {"CommitCap", "FinalPoly", "Pow"}))  \* only where it can matter
        /\ (EmitCases => TLCSet(1, <<>>))

Fail(name) == verdict' = "reject" /\ blame' = Append(blame, name)
Pass == UNCHANGED <<verdict, blame>>
Check(cond, name) == IF cond THEN Fail(name) ELSE Pass

Step ==
  /\ pc < Len(Phases)
  /\ ~(pc = 1 /\ KeyPinned /\ pert.kind = "value" /\ pert.leaf.cls \in {"VD.cap", "VD.digest"})
  /\ pc' = pc + 1
  /\ UNCHANGED <<pert, capIdx, evalSel, powLuck>>
  /\ LET ph == Phases[pc] IN
     CASE ph[1] = "sweep" ->
            /\ Check(pert.kind = "noncanon" /\ GlValued(pert.leaf), "sweep") /\ UNCHANGED <<fresh, tainted>>
       [] ph[1] = "transcript" ->
            /\ fresh' = FreshAfter /\ UNCHANGED tainted /\ Pass
       [] ph[1] = "plonk" ->
            /\ Check((\E k \in OpeningKinds : ChangedCls(k)) \/ ChangedCls("PI")
                      \/ IsFresh("beta") \/ IsFresh("gamma") \/ IsFresh("alpha") \/ IsFresh("zeta"), "plonk")
            /\ UNCHANGED <<fresh, tainted>>
       [] ph[1] = "pow" ->
            /\ Check(IsFresh("pow_resp") /\ ~powLuck, "pow") /\ UNCHANGED <<fresh, tainted>>
       [] ph[1] = "merkle_init" ->
            LET r == ph[2]  t == ph[3] IN
            /\ Check(Changed(Leaf("Init.Elem", r, t, 0)) \/ Changed(Leaf("Init.Sib", r, t, 0)) \/ IsFresh("query_idx")
                      \/ Changed(Leaf(CapOfTree(t), 0, 0, capIdx[r])), "merkle_init")
            /\ tainted' = tainted \cup (IF Changed(Leaf("Init.Elem", r, t, 0)) \/ (\E k \in OpeningKinds : ChangedCls(k))
                                          \/ IsFresh("fri_alpha") \/ IsFresh("zeta") \/ IsFresh("query_idx")
                                        THEN {r} ELSE {})
            /\ UNCHANGED fresh
       [] ph[1] = "consistency" ->
            LET r == ph[2]  s == ph[3] IN
            /\ Check(r \in tainted \/ (Changed(Leaf("Step.Eval", r, s, 0)) /\ evalSel), "consistency")
            /\ tainted' = IF Changed(Leaf("Step.Eval", r, s, 0)) \/ (\E p \in fresh : p = <<"fri_beta", s>>)
                          THEN tainted \cup {r} ELSE tainted \ {r}
            /\ UNCHANGED fresh
       [] ph[1] = "merkle_step" ->
            LET r == ph[2]  s == ph[3] IN
            /\ Check(Changed(Leaf("Step.Eval", r, s, 0)) \/ Changed(Leaf("Step.Sib", r, s, 0)) \/ IsFresh("query_idx")
                      \/ Changed(Leaf("CommitCap", 0, s, capIdx[r])), "merkle_step")
            /\ UNCHANGED <<fresh, tainted>>
       [] ph[1] = "final" ->
            LET r == ph[2] IN
            /\ Check(r \in tainted \/ ChangedCls("FinalPoly"), "final") /\ UNCHANGED <<fresh, tainted>>

\* the pinned key: a changed key element is rejected when the wrapper is instantiated
Pin == /\ pc = 1 /\ KeyPinned /\ pert.kind = "value" /\ pert.leaf.cls \in {"VD.cap", "VD.digest"}
       /\ pc' = Len(Phases) /\ verdict' = "reject" /\ blame' = <<"key_pinned">>
       /\ UNCHANGED <<pert, capIdx, evalSel, fresh, tainted, powLuck>>

Next == Step \/ Pin
Spec == Init /\ [][Next]_vars

Done == pc = Len(Phases)
Sound == (Done /\ pert.kind # "none") => verdict = "reject"
Completeness == (Done /\ pert.kind = "none") => verdict = "accept"
Monotone == [][verdict = "reject" => verdict' = "reject"]_vars
\* a non-canonical encoding can only be rejected by the sweep: the residue - all the algebra sees - is unchanged
NonCanonOnlySweep == (Done /\ pert.kind = "noncanon") => blame = <<"sweep">>

\* whether the changed cap entry is selected by some round
CapSelected == \E r \in Rounds : capIdx[r] = pert.leaf.i
Case == [cls |-> pert.leaf.cls, kind |-> pert.kind, sel |-> (IF pert.leaf.cls = "Step.Eval" THEN evalSel ELSE CapSelected),
         luck |-> powLuck, verdict |-> verdict, first |-> IF blame = <<>> THEN "" ELSE blame[1]]
Emit == (EmitCases /\ Done) => TLCSet(1, Append(TLCGet(1), Case))
Post == EmitCases => JsonSerialize("verifier_cases.json", TLCGet(1))
================================================================================
