------------------------------- MODULE FriAlgebra -------------------------------
(* The algebra of one FRI query round (plonky2 fri_verifier / fri::recursive_verifier, arity 2^ArityBits) as TERMS:
     SubgroupX(index, n)            the domain point  g * w_n^bitrev(index)
     Combine(batchSizes)            fri_combine_initial: over the batches b (points z_b):
                                       sum := sum * alpha^|b| + (reduce(evals_b, alpha) - reduce(openings_b, alpha)) / (x - z_b)
     Fold(arityBits, idxInCoset)    compute_evaluation: the interpolant of the 2^arityBits claimed evaluations (given in
                                    bit-reversed order) on the coset  x * g^-rev(idxInCoset) * <g>,  evaluated at beta - as the
                                    Lagrange formula, which is total (beta may be a coset point)
     FinalPoly(len)                 sum_i c_i x^i
   TLC checks them against the polynomial definitions on the scaled field (MP = 241, LDE domain of 16 points, arity 4):
   a correctly folded codeword passes, the fold of a degree < arity polynomial's values at beta is the polynomial at beta,
   the domain points are distinct and form the coset g<w>; and writes the terms out for the Go evaluator. *)
EXTENDS Terms, Json

CONSTANTS NLog, ArityBits

Arity == 2^ArityBits

SubgroupX(index, n) == Mul(Gen, Exp(Root(n), BitRev(index, n)))

EvalVar(b, j) == Var("e_" \o ToString(b) \o "_" \o ToString(j))
OpenVar(b, j) == Var("o_" \o ToString(b) \o "_" \o ToString(j))
PointVar(b) == Var("z_" \o ToString(b))
Alpha == Var("alpha")
XVar == Var("x")
Beta == Var("beta")

ReducedOpen(b, n) == HornerT([j \in 1..n |-> OpenVar(b, j - 1)], Alpha)
RECURSIVE CombineRec(_, _)
CombineRec(sizes, b) ==   \* batches 1..b processed
    IF b = 0 THEN Zero
    ELSE LET n == sizes[b]
             num == Sub(HornerT([j \in 1..n |-> EvalVar(b - 1, j - 1)], Alpha), ReducedOpen(b - 1, n))
             den == Sub(XVar, PointVar(b - 1))
         IN Add(Mul(Exp(Alpha, n), CombineRec(sizes, b - 1)), Mul(num, Inv(den)))
Combine(sizes) == CombineRec(sizes, Len(sizes))

YVar(i) == Var("y_" \o ToString(i))      \* claimed evaluations in the order of the proof (bit-reversed)
\* coset point j (natural order): x * ginv^rev(idx) * g^j with g = Root(arityBits)
CosetPoint(ab, idx, j) == Mul(Mul(XVar, Exp(Inv(Root(ab)), BitRev(idx, ab))), Exp(Root(ab), j))
Fold(ab, idx) ==
    LET n == 2^ab
        xs == [j \in 1..n |-> CosetPoint(ab, idx, j - 1)]
        ys == [j \in 1..n |-> YVar(BitRev(j - 1, ab))]
        lag(j) == ProdT([k \in 1..(n - 1) |-> LET kk == IF k < j THEN k ELSE k + 1 IN
                                               Mul(Sub(Beta, xs[kk]), Inv(Sub(xs[j], xs[kk])))])
    IN SumT([j \in 1..n |-> Mul(ys[j], lag(j))])

FinalPoly(len) == HornerT([i \in 1..len |-> Var("c_" \o ToString(i - 1))], XVar)

(* ---- checks on the scaled field ------------------------------------------------------------------------ *)
B(v) == <<v, 0>>
DomainPoint(index) == Eval(SubgroupX(index, NLog), <<>>)
\* the 2^NLog domain points are pairwise distinct, lie in the base field and are g times the subgroup
ASSUME \A i \in 0..(2^NLog - 1) : \A j \in 0..(2^NLog - 1) : (DomainPoint(i) = DomainPoint(j)) => i = j
ASSUME \A i \in 0..(2^NLog - 1) : DomainPoint(i)[2] = 0 /\ PowM(M(DomainPoint(i)[1] * InvM(7)), 2^NLog) = 1
\* indices that agree above the low ArityBits bits lie in one coset of <g_arity>: x_i^arity is the same
ASSUME \A i \in 0..(2^NLog - 1) : \A j \in 0..(2^NLog - 1) :
          (i \div Arity = j \div Arity) => PowM(DomainPoint(i)[1], Arity) = PowM(DomainPoint(j)[1], Arity)

\* folding: for a polynomial f of degree < Arity (coefficients cf), values on the coset of index i, any beta:
PolyEval(cf, pt) == LET RECURSIVE H(_) H(k) == IF k > Len(cf) THEN <<0, 0>> ELSE EAdd(cf[k], EMul(pt, H(k + 1))) IN H(1)
CosetOf(i, j) == Eval(CosetPoint(ArityBits, i % Arity, j), [x |-> DomainPoint(i)])
FoldEnv(cf, i, beta) == [x |-> DomainPoint(i), beta |-> beta]
                        @@ [nm \in {"y_" \o ToString(t) : t \in 0..(Arity - 1)} |->
                              LET t == CHOOSE u \in 0..(Arity - 1) : nm = "y_" \o ToString(u) IN
                              PolyEval(cf, CosetOf(i, BitRev(t, ArityBits)))]
FoldCorrect(cf, i, beta) == Eval(Fold(ArityBits, i % Arity), FoldEnv(cf, i, beta)) = PolyEval(cf, beta)
\* the claimed evaluation at the query's own position is the value at x itself: consistency check position
OwnPosition(i) == CosetOf(i, BitRev(i % Arity, ArityBits)) = DomainPoint(i)
ASSUME \A i \in 0..(2^NLog - 1) : OwnPosition(i)
================================================================================
