--------------------------------- MODULE Sponges ---------------------------------
(* The two sponge constructions of the verifier as PLAN machines: for given input and output lengths the
   machine's single behaviour is the sequence of state operations; TLC checks the control properties of the plan
   and writes the plans out; Go executes them with the permutation oracles (harness/ref).

   kind = "gl"   plonky2's hash_n_to_m_no_pad over Goldilocks Poseidon (width 12, rate 8, overwrite mode,
                 no permutation for an empty input, a permutation between every 8 outputs)
   kind = "bn"   PoseidonBN128Hash::hash_no_pad of the plonky2 fork (state [0; 4], chunks of 9 Goldilocks elements,
                 3 per BN254 element packed little-endian in 64-bit limbs into state[1..3], state[0] untouched,
                 permutation per chunk, output state[0]); hash_or_noop packs <= 3 elements without hashing. *)
EXTENDS Integers, Sequences, FiniteSets, TLC, Json

CONSTANTS MaxIn, MaxOut

VARIABLES kind, n, m, pos, produced, plan, absorbed, nperm
vars == <<kind, n, m, pos, produced, plan, absorbed, nperm>>

Init == /\ kind \in {"gl", "bn", "bnnoop"} /\ n \in 0..MaxIn
        /\ m \in (IF kind = "gl" THEN 1..MaxOut ELSE {1})
        /\ (kind = "bnnoop" => n <= 3)
        /\ pos = 0 /\ produced = 0 /\ plan = <<>> /\ absorbed = <<>> /\ nperm = 0
        /\ TLCSet(1, <<>>)

Min(a, b) == IF a < b THEN a ELSE b

\* ---- Goldilocks sponge -----------------------------------------------------------------------------
GlAbsorb == /\ kind = "gl" /\ pos < n
            /\ LET k == Min(8, n - pos) IN
               /\ plan' = plan \o [j \in 1..k |-> [op |-> "SET", a |-> j - 1, b |-> pos + j - 1, c |-> 0]] \o <<[op |-> "PERM", a |-> 0, b |-> 0, c |-> 0]>>
               /\ absorbed' = absorbed \o [j \in 1..k |-> pos + j - 1]
               /\ pos' = pos + k
            /\ nperm' = nperm + 1 /\ UNCHANGED <<kind, n, m, produced>>
GlSqueeze == /\ kind = "gl" /\ pos = n /\ produced < m
             /\ LET k == Min(8, m - produced) IN
                /\ plan' = plan \o [j \in 1..k |-> [op |-> "OUT", a |-> j - 1, b |-> 0, c |-> 0]]
                            \o (IF produced + k < m THEN <<[op |-> "PERM", a |-> 0, b |-> 0, c |-> 0]>> ELSE <<>>)
                /\ nperm' = nperm + (IF produced + k < m THEN 1 ELSE 0)
                /\ produced' = produced + k
             /\ UNCHANGED <<kind, n, m, pos, absorbed>>

\* ---- BN254 sponge ------------------------------------------------------------------------------------
\* one rate chunk: up to 9 inputs, 3 per state element 1..3 (PACK a = state index, b = first input, c = count)
BnAbsorb == /\ kind = "bn" /\ pos < n
            /\ LET k == Min(9, n - pos)
                   groups == (k + 2) \div 3 IN
               /\ plan' = plan \o [g \in 1..groups |-> [op |-> "PACK", a |-> g, b |-> pos + 3 * (g - 1), c |-> Min(3, k - 3 * (g - 1))]]
                               \o <<[op |-> "PERM", a |-> 0, b |-> 0, c |-> 0]>>
               /\ absorbed' = absorbed \o [j \in 1..k |-> pos + j - 1]
               /\ pos' = pos + k
            /\ nperm' = nperm + 1 /\ UNCHANGED <<kind, n, m, produced>>
BnOut == /\ kind = "bn" /\ pos = n /\ produced = 0
         /\ plan' = Append(plan, [op |-> "OUT", a |-> 0, b |-> 0, c |-> 0]) /\ produced' = 1
         /\ UNCHANGED <<kind, n, m, pos, absorbed, nperm>>
\* hash_or_noop for <= 3 elements: the packed value itself
BnNoop == /\ kind = "bnnoop" /\ produced = 0
          /\ plan' = <<[op |-> "PACKOUT", a |-> 0, b |-> 0, c |-> n]>> /\ produced' = 1 /\ pos' = n
          /\ absorbed' = [j \in 1..n |-> j - 1]
          /\ UNCHANGED <<kind, n, m, nperm>>

Next == GlAbsorb \/ GlSqueeze \/ BnAbsorb \/ BnOut \/ BnNoop
Spec == Init /\ [][Next]_vars

Done == pos = n /\ produced = m
CeilDiv(a, b) == (a + b - 1) \div b
\* every input element is absorbed exactly once and in order
AbsorbedInOrder == \A j \in 1..Len(absorbed) : absorbed[j] = j - 1
PermCount == Done => nperm = (CASE kind = "gl" -> CeilDiv(n, 8) + CeilDiv(m, 8) - 1
                                [] kind = "bn" -> CeilDiv(n, 9)
                                [] kind = "bnnoop" -> 0)
AllAbsorbed == Done => Len(absorbed) = n
\* the Goldilocks sponge never permutes an empty input before squeezing; outputs come 8 at a time
EmptyNoPerm == (kind = "gl" /\ n = 0 /\ m <= 8 /\ Done) => nperm = 0

Emit == Done => TLCSet(1, Append(TLCGet(1), [kind |-> kind, n |-> n, m |-> m, plan |-> plan]))
Post == JsonSerialize("sponge_plans.json", TLCGet(1))
================================================================================
