------------------------------ MODULE FriQueryTrace ------------------------------
(* The FRI hook trace of a whole honest verifier run (fri hooks "pow", "round", "merkle", "consistency", "final";
   bit provenance from the proxy) is accepted iff it is exactly the behaviour FriQuery prescribes for the
   configuration: the trace is deterministic, so acceptance is  Trace = checks  at the terminal state. *)
EXTENDS FriQuery
Trace == ndJsonDeserialize("friquery_trace.ndjson")
TraceMatches == pc = "done" => checks = Trace
\* prefix check at every state gives the first mismatching record as a counterexample
PrefixMatches == Len(checks) <= Len(Trace) /\ (Len(checks) > 0 => checks[Len(checks)] = Trace[Len(checks)])
================================================================================
