----------------------------- MODULE ChallengerTrace -----------------------------
(* Trace validation of the challenger hooks of a whole verifier run (ObserveElement after the append, duplexing on
   entry, GetChallenge after the pop) against Challenger's primitive steps, and of the order of observed leaves and
   squeezes against Transcript's VerifierScript.
   Records: [ev: "observe" | "challenge", sym (leaf provenance, "" for derived values), inlen, dup, outlen]
   dup = number of inputs absorbed by the duplexing that the event triggered (-1: none). *)
EXTENDS Transcript

Trace == ndJsonDeserialize("challenger_trace.ndjson")
VARIABLE l
tvars == <<vars, l>>
Cur == Trace[l]
IsEvent(e) == l <= Len(Trace) /\ Trace[l].ev = e /\ l' = l + 1

TraceInit == Init /\ l = 1 /\ TLCSet(2, 1)

TObserve == /\ IsEvent("observe")
            /\ LET sym == IF Cur.sym = "" THEN "derived" \o ToString(l) ELSE Cur.sym
                   c == Obs1(Cfg, sym) IN
               /\ Cur.inlen = Len(inBuf) + 1                                  \* logged after the append
               /\ Cur.dup = (IF Len(inBuf) + 1 = RATE THEN RATE ELSE -1)       \* absorbs exactly when RATE are buffered
               /\ Install(c)
            /\ UNCHANGED <<hist, nsym, observed>>

TChallenge == /\ IsEvent("challenge")
              /\ LET need == Len(inBuf) # 0 \/ Len(outBuf) = 0
                     r == Sq1(Cfg) IN
                 /\ Cur.dup = (IF need THEN Len(inBuf) ELSE -1)              \* duplex iff inputs pending or outputs exhausted
                 /\ Cur.outlen = Len(r.cfg.outBuf)                           \* popped from the end
                 /\ Install(r.cfg)
              /\ UNCHANGED <<hist, nsym, observed>>

TraceNext == TObserve \/ TChallenge
TraceSpec == TraceInit /\ [][TraceNext]_tvars

HighWater == TLCSet(2, IF l > TLCGet(2) THEN l ELSE TLCGet(2))
TraceAccepted == TLCGet(2) = Len(Trace) + 1

(* order: the primitive expansion of the script equals the trace, leaf by leaf *)
RECURSIVE Expand(_)
Expand(s) == IF s = <<>> THEN <<>> ELSE
             LET h == Head(s) IN
             (IF h.k = 0 THEN [i \in 1..Len(h.syms) |-> IF h.op = "hash" THEN "" ELSE h.syms[i]]
              ELSE [i \in 1..h.k |-> "<squeeze>"]) \o Expand(Tail(s))
TraceOrder == [i \in 1..Len(Trace) |-> IF Trace[i].ev = "challenge" THEN "<squeeze>" ELSE Trace[i].sym]
ASSUME PrintT(<<"trace records", Len(Trace), "script primitives", Len(Expand(VerifierScript))>>)
OrderMatches == TraceOrder = Expand(VerifierScript)
================================================================================
