CONSTANTS K = 2  R = 49547  LimbWidthCheck = FALSE  TrueLimbs <- SomeLimbs
SPECIFICATION Spec
INVARIANTS Injective
