CONSTANTS NQ = 2  NSTEPS = 2  CAP = 4  KeyPinned = FALSE  EmitCases = TRUE
SPECIFICATION Spec
INVARIANTS Completeness NonCanonOnlySweep Emit
POSTCONDITION Post
