------------------------------- MODULE Transcript -------------------------------
(* The Fiat-Shamir transcript of plonky2's verifier (get_challenges / fri_challenges) for a given proof shape, as
   the Script of the Challenger module: circuit digest, public-input hash, wires cap, betas, gammas, partial-products
   cap, alphas, quotient cap, zeta, all openings in to_fri_openings order (constants, sigmas, wires, zs,
   partial products, quotient chunks at zeta; then zs_next at g*zeta), FRI alpha, per commit-phase cap: the cap and
   then beta_i, the final polynomial, the proof-of-work witness, the proof-of-work response, the query indices.
   Symbols are the leaf paths of the circuit assignment, so that the replay on VerifierChip.GetChallenges and the
   hook trace of a real run can be compared leaf by leaf. *)
EXTENDS Challenger

CONSTANTS NumChallenges, CapSize, NConstants, NSigmas, NWires, NZs, NPartial, NQuotient, NCommitCaps, FinalLen, NQueries

Idx(i) == "[" \o ToString(i - 1) \o "]"
ObsRec(op, label, syms) == [op |-> op, label |-> label, syms |-> syms, k |-> 0]
SqRec(op, label, k) == [op |-> op, label |-> label, syms |-> <<>>, k |-> k]

RECURSIVE Concat(_)
Concat(ss) == IF ss = <<>> THEN <<>> ELSE Head(ss) \o Concat(Tail(ss))

CapOps(path, n) == [i \in 1..n |-> ObsRec("bnhash", path \o Idx(i), Chunks(path \o Idx(i)))]
ExtOps(path, n) == [i \in 1..n |-> ObsRec("ext", path \o Idx(i), <<path \o Idx(i) \o "[0]", path \o Idx(i) \o "[1]">>)]

VerifierScript ==
    <<ObsRec("bnhash", "VD.CircuitDigest", Chunks("VD.CircuitDigest"))>>
 \o <<ObsRec("hash", "PIHASH", [j \in 1..4 |-> "PIHASH" \o Idx(j)])>>
 \o CapOps("PWPI.Proof.WiresCap", CapSize)
 \o <<SqRec("challenges", "betas", NumChallenges), SqRec("challenges", "gammas", NumChallenges)>>
 \o CapOps("PWPI.Proof.PlonkZsPartialProductsCap", CapSize)
 \o <<SqRec("challenges", "alphas", NumChallenges)>>
 \o CapOps("PWPI.Proof.QuotientPolysCap", CapSize)
 \o <<SqRec("extchallenge", "zeta", 2)>>
 \o ExtOps("PWPI.Proof.Openings.Constants", NConstants)
 \o ExtOps("PWPI.Proof.Openings.PlonkSigmas", NSigmas)
 \o ExtOps("PWPI.Proof.Openings.Wires", NWires)
 \o ExtOps("PWPI.Proof.Openings.PlonkZs", NZs)
 \o ExtOps("PWPI.Proof.Openings.PartialProducts", NPartial)
 \o ExtOps("PWPI.Proof.Openings.QuotientPolys", NQuotient)
 \o ExtOps("PWPI.Proof.Openings.PlonkZsNext", NZs)
 \o <<SqRec("extchallenge", "fri_alpha", 2)>>
 \o Concat([s \in 1..NCommitCaps |-> CapOps("PWPI.Proof.OpeningProof.CommitPhaseMerkleCaps" \o Idx(s), CapSize)
                                      \o <<SqRec("extchallenge", "fri_beta" \o Idx(s), 2)>>])
 \o ExtOps("PWPI.Proof.OpeningProof.FinalPoly.Coeffs", FinalLen)
 \o <<ObsRec("element", "PWPI.Proof.OpeningProof.PowWitness", <<"PWPI.Proof.OpeningProof.PowWitness">>)>>
 \o <<SqRec("challenges", "pow_response", 1), SqRec("challenges", "query_indices", NQueries)>>

\* every leaf class of the proof that plonky2 binds is observed before the challenges that must depend on it
ScriptSyms == Concat([i \in 1..Len(VerifierScript) |-> VerifierScript[i].syms])
NoDuplicateLeaf == \A i \in 1..Len(ScriptSyms) : \A j \in 1..Len(ScriptSyms) : ScriptSyms[i] = ScriptSyms[j] => i = j
ASSUME NoDuplicateLeaf
\* the response is squeezed after the witness, the indices after the response
PowAfterWitness == LET n == Len(VerifierScript) IN
                   /\ VerifierScript[n - 2].label = "PWPI.Proof.OpeningProof.PowWitness"
                   /\ VerifierScript[n - 1].label = "pow_response" /\ VerifierScript[n].label = "query_indices"
ASSUME PowAfterWitness
================================================================================
