CONSTANTS MP = 241  MRoots <- Roots241  NLog = 4  ArityBits = 2
SPECIFICATION Spec
INVARIANTS FoldIsInterpolant HornerIsPoly
