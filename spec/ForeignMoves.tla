------------------------------- MODULE ForeignMoves -------------------------------
(* Prover-supplied decompositions that are NOT one of the Goldilocks chip's four hints (GlGadgets.tla): gnark's digit hint used
   directly, a hint added by a change, the chip's limb split used outside its canonical range check.  For such a value the
   specification knows only its SHAPE - what the accompanying constraint recomposes - and the generic moves of a prover against
   that shape.  This module states those moves ("families") on a scaled field (R = 40961, prime, 2^15 < R < 2^16; products stay
   below TLC's 32-bit integers) and decides, per set of
   constraints actually imposed, which family yields an accepted witness other than the honest one.  The conformance harness
   (harness/engine ForeignAlternatives, drivers/foreign.go) plays exactly these families against the real code; the foreignself
   driver replays the table below on gnark's own bit decomposition with the corresponding options.

   Shape "digits":  n prover-supplied digits d_0..d_(n-1), constraint  sum d_i 2^i = x  (mod R)          [always]
                    Boolean      every d_i is 0 or 1                                                   [optional]
                    BelowModulus the digit string, read as an integer, is below R (only matters when 2^n > R)   [optional]
     families   nonbooleanTop   d_0 flipped, the difference put into d_(n-1) with the field inverse of 2^(n-1)
                topShift        d_(n-1) + 1, d_(n-2) - 2  (every low digit and the sum unchanged)
                allInDigit0     d_0 = x, all other digits 0
                plusR           the binary digits of x + R (when they fit n digits)
   Shape "split":   prover-supplied (lo, hi), constraint  lo + 2^k hi = x  (mod R)                      [always]
                    BoundLo      lo < 2^k                                                              [optional]
                    BoundHi      hi < 2^m with 2^(k+m) <= R                                            [optional]
     families   lowFlipHighSolved   lo with its lowest bit flipped, hi = (x - lo) / 2^k in the field
                allInLow            lo = x, hi = 0
                allInHigh           lo = 0, hi = x / 2^k in the field

   Unique: with Boolean (and BelowModulus at full width), respectively with BoundLo and BoundHi, no family is accepted - the honest
   decomposition is the only witness.  Table: for every other set of constraints, the families listed as accepted ARE accepted for
   some x (TLC finds the x), which is why the harness reports an accepted family as "the value is left to the prover". *)
EXTENDS Integers, Sequences, SequencesExt, FiniteSets, TLC, Json

CONSTANTS R, NDig, KLo, MHi, EmitTable

Pow2(n) == 2^n
\* field inverse: a^(R-2) mod R (R prime), by repeated squaring
RECURSIVE ModExp(_, _)
ModExp(a, e) == IF e = 0 THEN 1
                ELSE LET h == ModExp(a, e \div 2) IN IF e % 2 = 0 THEN (h * h) % R ELSE (((h * h) % R) * (a % R)) % R
Inv(a) == ModExp(a % R, R - 2)
Bit(x, i) == (x \div Pow2(i)) % 2
HonestDigits(x, n) == [i \in 0..(n - 1) |-> Bit(x, i)]
\* the recomposition in the field (reduced at every step: TLC's integers are 32 bits wide) and, for a boolean digit string, its integer value
Recompose(d, n) == LET RECURSIVE S(_)
                       S(i) == IF i = n THEN 0 ELSE ((d[i] % R) * (Pow2(i) % R) + S(i+1)) % R
                   IN S(0)
AllBool(d, n) == \A i \in 0..(n - 1) : d[i] \in {0, 1}
IntValue(d, n) == LET RECURSIVE S(_)
                      S(i) == IF i = n THEN 0 ELSE d[i] * Pow2(i) + S(i+1)
                  IN S(0)

DigitFamilies == {"nonbooleanTop", "topShift", "allInDigit0", "plusR"}
\* the move of a family against input x (a function 0..n-1 -> 0..R-1), or the honest digits when the move does not apply
\* +1 or -1 (in the field) put on digit 0, compensated in the top digit
NbtDelta(h) == IF h[0] = 0 THEN 1 ELSE R - 1
NbtTop(h, n) == (h[n - 1] + R - ((NbtDelta(h) * Inv(Pow2(n - 1))) % R)) % R
NonBooleanTop(h, n) == [i \in 0..(n - 1) |-> IF i = 0 THEN 1 - h[0] ELSE IF i = n - 1 THEN NbtTop(h, n) ELSE h[i]]
TopShift(h, n) == [i \in 0..(n - 1) |-> IF i = n - 1 THEN (h[i] + 1) % R ELSE IF i = n - 2 THEN (h[i] + R - 2) % R ELSE h[i]]
AllInDigit0(x, n) == [i \in 0..(n - 1) |-> IF i = 0 THEN x % R ELSE 0]
DigitMove(f, x, n) ==
  LET h == HonestDigits(x, n) IN
  CASE f = "nonbooleanTop" -> NonBooleanTop(h, n)
    [] f = "topShift"      -> TopShift(h, n)
    [] f = "allInDigit0"   -> AllInDigit0(x, n)
    [] f = "plusR"         -> IF x + R < Pow2(n) THEN HonestDigits(x + R, n) ELSE h

DigitsAccepted(d, x, n, boolean, belowModulus) ==
  /\ Recompose(d, n) = x % R
  /\ boolean => AllBool(d, n)
  \* the comparison with the modulus is only imposed on a full-width decomposition, and a bitwise comparator is itself a set of
  \* constraints on bits: it fails on digits that are not bits (gnark's MustBeLessOrEqCst; the replay confirms it)
  /\ (belowModulus /\ Pow2(n) > R) => (AllBool(d, n) /\ IntValue(d, n) < R)

\* a family "wins" against a constraint set if for some x below the domain bound it is accepted and is not the honest witness
DigitWins(f, n, boolean, belowModulus) ==
  \E x \in 0..(IF Pow2(n) < R THEN Pow2(n) - 1 ELSE R - 1) :
     LET d == DigitMove(f, x, n) IN d # HonestDigits(x, n) /\ DigitsAccepted(d, x, n, boolean, belowModulus)

SplitFamilies == {"lowFlipHighSolved", "allInLow", "allInHigh"}
HonestSplit(x, k) == <<x % Pow2(k), x \div Pow2(k)>>
SplitMove(f, x, k) ==
  LET h == HonestSplit(x, k) IN
  CASE f = "lowFlipHighSolved" -> LET lo == IF h[1] % 2 = 0 THEN h[1] + 1 ELSE h[1] - 1
                                  IN <<lo, (((x + R - lo) % R) * Inv(Pow2(k))) % R>>
    [] f = "allInLow"          -> <<x % R, 0>>
    [] f = "allInHigh"         -> <<0, ((x % R) * Inv(Pow2(k))) % R>>
SplitAccepted(w, x, k, m, boundLo, boundHi) ==
  /\ (w[1] + Pow2(k) * w[2]) % R = x % R
  /\ boundLo => w[1] < Pow2(k)
  /\ boundHi => w[2] < Pow2(m)
SplitWins(f, k, m, boundLo, boundHi) ==
  \E x \in 0..(Pow2(k + m) - 1) :
     LET w == SplitMove(f, x, k) IN w # HonestSplit(x, k) /\ SplitAccepted(w, x, k, m, boundLo, boundHi)

(* ---- what TLC checks (all constant-level) ---------------------------------------------------------------------------------- *)
ASSUME Pow2(KLo + MHi) <= R
\* narrow decomposition (2^NDig < R): booleanity alone makes the digits unique
UniqueDigitsNarrow == \A f \in DigitFamilies : ~DigitWins(f, NDig, TRUE, FALSE)
\* full-width decomposition (2^16 > R): booleanity AND the comparison with the modulus
UniqueDigitsFull == \A f \in DigitFamilies : ~DigitWins(f, 16, TRUE, TRUE)
UniqueSplit == \A f \in SplitFamilies : ~SplitWins(f, KLo, MHi, TRUE, TRUE)
\* the hazards: each missing constraint is won by the family the harness plays for it
NoBooleanLoses == /\ DigitWins("nonbooleanTop", NDig, FALSE, FALSE) /\ DigitWins("topShift", NDig, FALSE, FALSE) /\ DigitWins("allInDigit0", NDig, FALSE, FALSE)
NoModulusLoses == DigitWins("plusR", 16, TRUE, FALSE)
NoBoundHiLoses == SplitWins("lowFlipHighSolved", KLo, MHi, TRUE, FALSE) /\ SplitWins("allInHigh", KLo, MHi, TRUE, FALSE)
NoBoundLoLoses == SplitWins("allInLow", KLo, MHi, FALSE, TRUE)
ASSUME UniqueDigitsNarrow
ASSUME UniqueDigitsFull
ASSUME UniqueSplit
ASSUME NoBooleanLoses
ASSUME NoModulusLoses
ASSUME NoBoundHiLoses
ASSUME NoBoundLoLoses

\* the table replayed on gnark's bit decomposition: (digits, boolean, belowModulus, family) -> wins
Table == {[shape |-> "digits", n |-> n, boolean |-> b, belowModulus |-> c, family |-> f, wins |-> DigitWins(f, n, b, c)] :
            n \in {NDig, 16}, b \in BOOLEAN, c \in BOOLEAN, f \in DigitFamilies}
   \cup {[shape |-> "split", n |-> KLo, boolean |-> bl, belowModulus |-> bh, family |-> f, wins |-> SplitWins(f, KLo, MHi, bl, bh)] :
            bl \in BOOLEAN, bh \in BOOLEAN, f \in SplitFamilies}
ASSUME EmitTable => JsonSerialize("foreign_table.json", SetToSeq(Table))

VARIABLE z
Init == z = 0
Next == z' = z
================================================================================
