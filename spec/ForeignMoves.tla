------------------------------- MODULE ForeignMoves -------------------------------
(* Prover-supplied decompositions that are NOT one of the Goldilocks chip's four hints (GlGadgets.tla): gnark's digit hint used
   directly, a hint added by a change, the chip's limb split used outside its canonical range check.  For such a value the
   specification knows only its SHAPE - what the accompanying constraint recomposes - and the generic moves of a prover against
   that shape.  This module states those moves ("families") on a scaled field (R = 46337, prime, 2^15 < R < 2^16, (R-1)^2 < 2^31, and no power of two used as a digit weight has a small inverse; products stay
   below TLC's 32-bit integers) and decides, per set of
   constraints actually imposed, which family yields an accepted witness other than the honest one.  The conformance harness
   (harness/engine ForeignAlternatives, drivers/foreign.go) plays exactly these families against the real code; the foreignself
   driver replays the table below on gnark's own bit decomposition with the corresponding options.

   Shape "digits":  n prover-supplied digits d_0..d_(n-1) of width w, constraint  sum d_i 2^(w i) = x  (mod R)   [always]
                    (w = 1: gnark's bit decomposition; w > 1: a hash split into 56-bit chunks, a value into 16-bit limbs ...)
                    Bound        "exact": every d_i < 2^w (w = 1: boolean); "wide": every d_i < 2^(w+2), a bound rounded up   [optional]
                    BelowModulus the digit string, read as an integer, is below R (only matters when 2^n > R)   [optional]
     families   nonbooleanTop   d_0 flipped, the difference put into d_(n-1) with the field inverse of 2^(n-1)
                topShift        d_(n-1) + 1, d_(n-2) - 2^w  (every low digit and the sum unchanged)
                borrow          d_(n-1) - 1, d_(n-2) + 2^w  (w > 1: all digits stay small, one exceeds the radix)
                allInDigit0     d_0 = x, all other digits 0
                plusR           the binary digits of x + R (when they fit n digits)
   Shape "split":   prover-supplied (lo, hi), constraint  lo + 2^k hi = x  (mod R)                      [always]
                    BoundLo      lo < 2^k                                                              [optional]
                    BoundHi      hi < 2^m with 2^(k+m) <= R                                            [optional]
     families   lowFlipHighSolved   lo with its lowest bit flipped, hi = (x - lo) / 2^k in the field
                allInLow            lo = x, hi = 0
                allInHigh           lo = 0, hi = x / 2^k in the field

   Unique: with Boolean (and BelowModulus at full width), respectively with BoundLo and BoundHi, no family is accepted - the honest
   decomposition is the only witness.  Table: for every other set of constraints, the families listed as accepted ARE accepted for
   some x (TLC finds the x), which is why the harness reports an accepted family as "the value is left to the prover". *)
EXTENDS Integers, Sequences, SequencesExt, FiniteSets, TLC, Json

CONSTANTS R, NDig, KLo, MHi, EmitTable,
          WR, NRad      \* the radix shape: digits of width WR (> 1) - NRad of them stay below R (2^(WR*NRad) < R), NRad + 1 exceed it

Pow2(n) == 2^n
\* field inverse: a^(R-2) mod R (R prime), by repeated squaring
RECURSIVE ModExp(_, _)
ModExp(a, e) == IF e = 0 THEN 1
                ELSE LET h == ModExp(a, e \div 2) IN IF e % 2 = 0 THEN (h * h) % R ELSE (((h * h) % R) * (a % R)) % R
Inv(a) == ModExp(a % R, R - 2)
\* digit i of x in radix 2^w (w = 1: the bits)
Digit(x, i, w) == (x \div Pow2(w * i)) % Pow2(w)
HonestDigits(x, n, w) == [i \in 0..(n - 1) |-> Digit(x, i, w)]
\* the recomposition in the field (reduced at every step: TLC's integers are 32 bits wide) and, for a bounded digit string, its integer value
Recompose(d, n, w) == LET RECURSIVE S(_)
                          S(i) == IF i = n THEN 0 ELSE ((d[i] % R) * (Pow2(w * i) % R) + S(i+1)) % R
                      IN S(0)
AllBelow(d, n, b) == \A i \in 0..(n - 1) : d[i] < Pow2(b)
IntValue(d, n, w) == LET RECURSIVE S(_)
                         S(i) == IF i = n THEN 0 ELSE d[i] * Pow2(w * i) + S(i+1)
                     IN S(0)

\* "borrow" only exists for w > 1 (for bits it is the move topShift read the other way and never within a bound)
DigitFamilies(w) == {"nonbooleanTop", "topShift", "allInDigit0", "plusR"} \cup (IF w > 1 THEN {"borrow"} ELSE {})
\* the move of a family against input x (a function 0..n-1 -> 0..R-1), or the honest digits when the move does not apply
\* +1 or -1 (in the field) put on digit 0 (its lowest bit flipped), compensated in the top digit
NbtDelta(h) == IF h[0] % 2 = 0 THEN 1 ELSE R - 1
NbtTop(h, n, w) == (h[n - 1] + R - ((NbtDelta(h) * Inv(Pow2(w * (n - 1)))) % R)) % R
NonBooleanTop(h, n, w) == [i \in 0..(n - 1) |-> IF i = 0 THEN (IF h[0] % 2 = 0 THEN h[0] + 1 ELSE h[0] - 1) ELSE IF i = n - 1 THEN NbtTop(h, n, w) ELSE h[i]]
TopShift(h, n, w) == [i \in 0..(n - 1) |-> IF i = n - 1 THEN (h[i] + 1) % R ELSE IF i = n - 2 THEN (h[i] + R - Pow2(w)) % R ELSE h[i]]
\* a unit borrowed from the top digit: every digit stays small, the one below the top exceeds the radix
Borrow(h, n, w) == IF h[n - 1] = 0 THEN h
                   ELSE [i \in 0..(n - 1) |-> IF i = n - 1 THEN h[i] - 1 ELSE IF i = n - 2 THEN h[i] + Pow2(w) ELSE h[i]]
AllInDigit0(x, n) == [i \in 0..(n - 1) |-> IF i = 0 THEN x % R ELSE 0]
DigitMove(f, x, n, w) ==
  LET h == HonestDigits(x, n, w) IN
  CASE f = "nonbooleanTop" -> NonBooleanTop(h, n, w)
    [] f = "topShift"      -> TopShift(h, n, w)
    [] f = "borrow"        -> Borrow(h, n, w)
    [] f = "allInDigit0"   -> AllInDigit0(x, n)
    [] f = "plusR"         -> IF x + R < Pow2(w * n) THEN HonestDigits(x + R, n, w) ELSE h

\* bound: "none" | "exact" (every digit below 2^w; for w = 1: booleanity) | "wide" (every digit below 2^(w+2): a bound rounded up)
Bounds(w) == IF w > 1 THEN {"none", "exact", "wide"} ELSE {"none", "exact"}
DigitsAccepted(d, x, n, w, bound, belowModulus) ==
  /\ Recompose(d, n, w) = x % R
  /\ bound = "exact" => AllBelow(d, n, w)
  /\ bound = "wide" => AllBelow(d, n, w + 2)
  \* the comparison with the modulus is only imposed on a full-width decomposition, and a bitwise comparator is itself a set of
  \* constraints on bits: it fails on digits that are not bits (gnark's MustBeLessOrEqCst; the replay confirms it)
  /\ (belowModulus /\ Pow2(w * n) > R) => (AllBelow(d, n, w) /\ IntValue(d, n, w) < R)

\* a family "wins" against a constraint set if for some x below the domain bound it is accepted and is not the honest witness
DigitWins(f, n, w, bound, belowModulus) ==
  \E x \in 0..(IF Pow2(w * n) < R THEN Pow2(w * n) - 1 ELSE R - 1) :
     LET d == DigitMove(f, x, n, w) IN d # HonestDigits(x, n, w) /\ DigitsAccepted(d, x, n, w, bound, belowModulus)

SplitFamilies == {"lowFlipHighSolved", "allInLow", "allInHigh"}
HonestSplit(x, k) == <<x % Pow2(k), x \div Pow2(k)>>
SplitMove(f, x, k) ==
  LET h == HonestSplit(x, k) IN
  CASE f = "lowFlipHighSolved" -> LET lo == IF h[1] % 2 = 0 THEN h[1] + 1 ELSE h[1] - 1
                                  IN <<lo, (((x + R - lo) % R) * Inv(Pow2(k))) % R>>
    [] f = "allInLow"          -> <<x % R, 0>>
    [] f = "allInHigh"         -> <<0, ((x % R) * Inv(Pow2(k))) % R>>
SplitAccepted(w, x, k, m, boundLo, boundHi) ==
  /\ (w[1] + Pow2(k) * w[2]) % R = x % R
  /\ boundLo => w[1] < Pow2(k)
  /\ boundHi => w[2] < Pow2(m)
SplitWins(f, k, m, boundLo, boundHi) ==
  \E x \in 0..(Pow2(k + m) - 1) :
     LET w == SplitMove(f, x, k) IN w # HonestSplit(x, k) /\ SplitAccepted(w, x, k, m, boundLo, boundHi)

(* ---- what TLC checks (all constant-level) ---------------------------------------------------------------------------------- *)
ASSUME Pow2(KLo + MHi) <= R
ASSUME Pow2(NDig) < R /\ Pow2(16) > R
ASSUME WR > 1 /\ Pow2(WR * NRad) < R /\ Pow2(WR * (NRad + 1)) > R
\* the (width, number of digits) pairs of the table: bits narrow / full, radix narrow / full
Shapes == {<<1, NDig>>, <<1, 16>>, <<WR, NRad>>, <<WR, NRad + 1>>}
Narrow(sh) == Pow2(sh[1] * sh[2]) < R
\* narrow decomposition: the exact digit bound alone makes the digits unique
UniqueDigitsNarrow == \A sh \in Shapes : Narrow(sh) => \A f \in DigitFamilies(sh[1]) : ~DigitWins(f, sh[2], sh[1], "exact", FALSE)
\* full-width decomposition: the exact bound AND the comparison with the modulus
UniqueDigitsFull == \A sh \in Shapes : ~Narrow(sh) => \A f \in DigitFamilies(sh[1]) : ~DigitWins(f, sh[2], sh[1], "exact", TRUE)
UniqueSplit == \A f \in SplitFamilies : ~SplitWins(f, KLo, MHi, TRUE, TRUE)
\* the hazards: each missing constraint is won by the family the harness plays for it
NoBoundLoses == \A sh \in Shapes : Narrow(sh) =>
                   /\ DigitWins("nonbooleanTop", sh[2], sh[1], "none", FALSE)
                   /\ DigitWins("topShift", sh[2], sh[1], "none", FALSE)
                   /\ DigitWins("allInDigit0", sh[2], sh[1], "none", FALSE)
\* a digit bound rounded up beyond the radix is lost to the borrow and to "everything in digit 0" (small x), not to the moves that
\* need a field-sized digit
WideBoundLoses == /\ DigitWins("borrow", NRad, WR, "wide", FALSE) /\ DigitWins("allInDigit0", NRad, WR, "wide", FALSE)
                  /\ \A f \in {"nonbooleanTop", "topShift", "plusR"} : ~DigitWins(f, NRad, WR, "wide", FALSE)
NoModulusLoses == \A sh \in Shapes : ~Narrow(sh) => DigitWins("plusR", sh[2], sh[1], "exact", FALSE)
NoBoundHiLoses == SplitWins("lowFlipHighSolved", KLo, MHi, TRUE, FALSE) /\ SplitWins("allInHigh", KLo, MHi, TRUE, FALSE)
NoBoundLoLoses == SplitWins("allInLow", KLo, MHi, FALSE, TRUE)
ASSUME UniqueDigitsNarrow
ASSUME UniqueDigitsFull
ASSUME UniqueSplit
ASSUME NoBoundLoses
ASSUME WideBoundLoses
ASSUME NoModulusLoses
ASSUME NoBoundHiLoses
ASSUME NoBoundLoLoses

\* the table replayed on real gadgets: (digits of width w, bound, belowModulus, family) -> wins
Table == {[shape |-> "digits", n |-> sh[2], w |-> sh[1], bound |-> b, boolean |-> (b = "exact"), belowModulus |-> c, family |-> f,
           wins |-> DigitWins(f, sh[2], sh[1], b, c)] :
            sh \in Shapes, b \in {"none", "exact", "wide"}, c \in BOOLEAN, f \in {"nonbooleanTop", "topShift", "allInDigit0", "plusR", "borrow"}}
ValidRow(r) == r.bound \in Bounds(r.w) /\ r.family \in DigitFamilies(r.w)
SplitTable == {[shape |-> "split", n |-> KLo, w |-> 0, bound |-> "", boolean |-> bl, belowModulus |-> bh, family |-> f, wins |-> SplitWins(f, KLo, MHi, bl, bh)] :
            bl \in BOOLEAN, bh \in BOOLEAN, f \in SplitFamilies}
ASSUME EmitTable => JsonSerialize("foreign_table.json", SetToSeq({r \in Table : ValidRow(r)} \cup SplitTable))

VARIABLE z
Init == z = 0
Next == z' = z
================================================================================
