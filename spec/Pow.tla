---------------------------------- MODULE Pow ----------------------------------
(* The FRI proof-of-work condition: the response (a WBITS-bit word, 64 in the code) must have at least `b` leading zero
   bits.  The code enforces it as a (WBITS - b)-bit width check on the response (fri.assertLeadingZeros), delivered through
   the range-check chip - so the mechanism's alignment rule applies: under the commit checker only widths that are multiples
   of the base width are deliverable, others are refused (RangeChip!Misaligned).
   TLC checks, for every response and difficulty of the scaled word size, that the width formulation is the bit-count one. *)
EXTENDS Integers, Sequences, TLC

CONSTANTS WBITS, BASE   \* BASE: the commit checker's base width at this scale

Bit(x, i) == (x \div 2^i) % 2
RECURSIVE LeadingZeros(_, _)
LeadingZeros(x, top) == IF top < 0 THEN 0 ELSE IF Bit(x, top) = 1 THEN 0 ELSE 1 + LeadingZeros(x, top - 1)
LZ(x) == LeadingZeros(x, WBITS - 1)

WidthCheck(x, b) == x < 2^(WBITS - b)
ASSUME \A x \in 0..(2^WBITS - 1) : \A b \in 0..WBITS : WidthCheck(x, b) <=> LZ(x) >= b

\* outcome per mechanism: refuse when the width is not deliverable under the commit checker
Outcome(x, b, mode) == IF mode = "commit" /\ (WBITS - b) % BASE # 0 THEN "refuse"
                       ELSE IF WidthCheck(x, b) THEN "accept" ELSE "reject"
VARIABLE z
Init == z = 0
Next == UNCHANGED z
Sound == \A x \in 0..(2^WBITS - 1) : \A b \in 1..(WBITS - 1) : \A m \in {"native", "commit", "bitdecomp"} :
            Outcome(x, b, m) = "accept" => LZ(x) >= b
================================================================================
