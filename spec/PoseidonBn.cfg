CONSTANTS Width = 4  Full = 8  Partial = 56
SPECIFICATION Spec
INVARIANTS ConstantsOnce ShapeAtEnd Emit
