-------------------------------- MODULE PlonkEmit --------------------------------
(* Term generator for the PLONK identity: reads the shapes from plonk_request.json, writes plonk_terms.json. *)
EXTENDS Plonk
Req == JsonDeserialize("plonk_request.json")
Shape(s) == [nc |-> s.nc, rw |-> s.rw, qd |-> s.qd, ng |-> s.ng, db |-> s.db,
             vanishing |-> [i \in 1..s.nc |-> Vanishing(i - 1, s.nc, s.rw, s.qd, s.ng, s.db)],
             rhs |-> [i \in 1..s.nc |-> Rhs(i - 1, s.qd, s.db)],
             zh |-> ZH(s.db), l0 |-> L0(s.db)]
ASSUME JsonSerialize("plonk_terms.json", [i \in 1..Len(Req) |-> Shape(Req[i])])
VARIABLE z
Init == z = 0
Next == UNCHANGED z
================================================================================
