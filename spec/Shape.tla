---------------------------------- MODULE Shape ----------------------------------
(* Proof shape versus circuit description.  Every list of the proof structure has a length that the common circuit data
   prescribes; the verifier meets a list through (a) explicit guards - validateFriProofShape, the query-round / index count
   checks of VerifyFriProof, the cap-size and arity assumptions of the Merkle and fold gadgets, the wrapper's public-input count -
   (b) implicit guards - Go index expressions on a list that is too short - and (c) consumers that take the list as it is:
   the transcript (every element is observed), a Merkle leaf hash (every element is hashed), a reduction over all elements.
   The model is the table `Lists` (one row per list kind, written from the code) and the rule `Outcome`:
       a violated explicit guard                      -> "refuse" (panic / error at definition time)
       a too short list that is indexed               -> "refuse"
       otherwise, if all elements are observed/hashed -> "reject" (ideal Fiat-Shamir / hash: the transcript or digest changes)
       otherwise                                      -> "accept"   (a hole)
   Invariant NeverAccept: no mutation of any list and no configuration change is accepted; in particular the number of
   executed query rounds and fold steps is the configured one (FriQuery!AllChecksDone). *)
EXTENDS Integers, Sequences, SequencesExt, FiniteSets, TLC, Json

Mutations == {"drop_first", "drop_last", "dup_last", "append_zero", "empty"}

\* guard: an explicit length check covers the list; indexed: elements are addressed by position up to the prescribed length;
\* bound: every element enters the transcript or a hash
Row(name, guard, indexed, bound) == [name |-> name, guard |-> guard, indexed |-> indexed, bound |-> bound]
Lists == {
  Row("PublicInputs",                               FALSE, FALSE, TRUE),   \* hashed as a whole (HashNoPad)
  Row("VD.ConstantSigmasCap",                       TRUE,  TRUE,  FALSE),  \* len(merkleCap) != 16 -> panic
  \* the three proof caps are absorbed into the transcript before the PLONK challenges are drawn, so a changed cap fails the
  \* PLONK identity before the Merkle gadget's own guard (len(merkleCap) != 16) is reached
  Row("Proof.WiresCap",                             FALSE, FALSE, TRUE),
  Row("Proof.PlonkZsPartialProductsCap",            FALSE, FALSE, TRUE),
  Row("Proof.QuotientPolysCap",                     FALSE, FALSE, TRUE),
  Row("Proof.Openings.Constants",                   FALSE, TRUE,  TRUE),
  Row("Proof.Openings.PlonkSigmas",                 FALSE, TRUE,  TRUE),
  Row("Proof.Openings.Wires",                       FALSE, TRUE,  TRUE),
  Row("Proof.Openings.PlonkZs",                     FALSE, TRUE,  TRUE),
  Row("Proof.Openings.PlonkZsNext",                 FALSE, TRUE,  TRUE),
  Row("Proof.Openings.PartialProducts",             FALSE, TRUE,  TRUE),
  Row("Proof.Openings.QuotientPolys",               FALSE, TRUE,  TRUE),
  Row("Proof.OpeningProof.CommitPhaseMerkleCaps",   FALSE, TRUE,  TRUE),   \* no count guard; betas are indexed per step
  Row("Proof.OpeningProof.CommitPhaseMerkleCaps[]", TRUE,  TRUE,  TRUE),   \* validateFriProofShape: cap_height
  Row("Proof.OpeningProof.QueryRoundProofs",        TRUE,  TRUE,  FALSE),  \* NumQueryRounds != len
  Row("QueryRoundProofs[].InitialTreesProof.EvalsProofs",               TRUE, TRUE, FALSE),
  Row("QueryRoundProofs[].InitialTreesProof.EvalsProofs[].Elements",    TRUE, TRUE, TRUE),
  Row("QueryRoundProofs[].InitialTreesProof.EvalsProofs[].MerkleProof.Siblings", TRUE, FALSE, TRUE),
  Row("QueryRoundProofs[].Steps",                   TRUE,  TRUE,  FALSE),
  Row("QueryRoundProofs[].Steps[].Evals",           TRUE,  TRUE,  TRUE),
  Row("QueryRoundProofs[].Steps[].MerkleProof.Siblings", TRUE, FALSE, TRUE),
  Row("Proof.OpeningProof.FinalPoly.Coeffs",        TRUE,  FALSE, TRUE) }

Shortens(m) == m \in {"drop_first", "drop_last", "empty"}
Outcome(row, m) == IF row.guard THEN "refuse"
                   ELSE IF Shortens(m) /\ row.indexed THEN (IF row.bound THEN "refuse_or_reject" ELSE "refuse")
                        \* (a shortened list that is also bound: whichever of the index panic and the failing data-dependent
                        \*  check comes first in program order on the evaluated assignment)
                   ELSE IF row.bound THEN "reject"
                   ELSE "accept"

\* Configuration changes and the guard that notices.  The description stores the FRI configuration twice (config.fri_config and
\* fri_params.config, plonky2 clones one into the other); `copy` says which stored copy changes.  What the code reads, by parameter:
\* the number of query rounds from BOTH copies (the index count from config.fri_config, the round count from fri_params.config, and
\* the two are compared with the proof), cap height and rate bits from fri_params.config only - config.fri_config.cap_height and
\* config.fri_config.rate_bits are never read, so changing only that copy changes nothing the verifier does and is not a case.
ConfigChanges == {
  [name |-> "num_query_rounds", copy |-> "both",   outcome |-> "refuse"],   \* NumQueryRounds != len(QueryRoundProofs)
  [name |-> "num_query_rounds", copy |-> "config", outcome |-> "refuse"],   \* number of query indices != number of round proofs
  [name |-> "num_query_rounds", copy |-> "params", outcome |-> "refuse"],
  [name |-> "cap_height",       copy |-> "both",   outcome |-> "refuse"],   \* validateFriProofShape / len(merkleCap) != 16
  [name |-> "cap_height",       copy |-> "params", outcome |-> "refuse"],
  [name |-> "reduction_arity_bits", copy |-> "both", outcome |-> "refuse"], \* len(steps) / len(evals) / arity != 4
  [name |-> "fri_degree_bits",  copy |-> "both",   outcome |-> "refuse"],   \* Merkle path length vs lde_bits
  [name |-> "degree_bits",      copy |-> "both",   outcome |-> "reject"],   \* zeta^n, the subgroup generator: the PLONK identity fails
  [name |-> "rate_bits",        copy |-> "both",   outcome |-> "refuse"],   \* lde_bits
  [name |-> "rate_bits",        copy |-> "params", outcome |-> "refuse"] }

NeverAccept == /\ \A row \in Lists : \A m \in Mutations : Outcome(row, m) # "accept"
               /\ \A c \in ConfigChanges : c.outcome # "accept"
ASSUME NeverAccept

Cases == {[list |-> row.name, mutation |-> m, expect |-> Outcome(row, m)] : row \in Lists, m \in Mutations}
ASSUME JsonSerialize("shape_cases.json", [lists |-> SetToSeq(Cases), config |-> SetToSeq(ConfigChanges)])
VARIABLE z
Init == z = 0
Next == UNCHANGED z
================================================================================
