-------------------------------- MODULE LeafSets --------------------------------
(* C17, M2: the SET of proof leaves that the real run gave a complete canonical check (recorded by the proxy: limb split
   at a RangeCheck site, both 32-bit deliveries seen) must equal the set of Goldilocks-valued proof leaves that the
   proof shape prescribes: all openings, every queried leaf value, every fold evaluation, every final-polynomial
   coefficient and the proof-of-work witness.  Order is not part of the property: a set equality, evaluated as a
   constant-level assumption. *)
EXTENDS Integers, Sequences, FiniteSets, TLC, Json

CONSTANTS NConstants, NSigmas, NWires, NZs, NPartial, NQuotient, NRounds, NSteps, Arity, FinalLen, LeafLens

Checked == LET t == ndJsonDeserialize("canon_leaves.ndjson") IN {t[i].leaf : i \in 1..Len(t)}

Idx(i) == "[" \o ToString(i) \o "]"
Ext(path, n) == {path \o Idx(i) \o Idx(c) : i \in 0..(n - 1), c \in {0, 1}}
O == "PWPI.Proof.Openings."
Q == "PWPI.Proof.OpeningProof.QueryRoundProofs"
Expected ==
       Ext(O \o "Constants", NConstants) \cup Ext(O \o "PlonkSigmas", NSigmas) \cup Ext(O \o "Wires", NWires)
  \cup Ext(O \o "PlonkZs", NZs) \cup Ext(O \o "PlonkZsNext", NZs) \cup Ext(O \o "PartialProducts", NPartial)
  \cup Ext(O \o "QuotientPolys", NQuotient)
  \cup UNION {{Q \o Idx(r) \o ".InitialTreesProof.EvalsProofs" \o Idx(t) \o ".Elements" \o Idx(i) : i \in 0..(LeafLens[t + 1] - 1)} :
                 r \in 0..(NRounds - 1), t \in 0..(Len(LeafLens) - 1)}
  \cup UNION {Ext(Q \o Idx(r) \o ".Steps" \o Idx(s) \o ".Evals", Arity) : r \in 0..(NRounds - 1), s \in 0..(NSteps - 1)}
  \cup Ext("PWPI.Proof.OpeningProof.FinalPoly.Coeffs", FinalLen)
  \cup {"PWPI.Proof.OpeningProof.PowWitness"}

Missing == Expected \ Checked
Extra == Checked \ Expected
ASSUME PrintT(<<"canonical checks", Cardinality(Checked), "expected", Cardinality(Expected)>>)
SetsEqual == Missing = {} /\ Extra = {}
VARIABLE z
Init == z = 0
Next == UNCHANGED z
================================================================================
