---------------------------------- MODULE GateId ----------------------------------
(* Gate identifiers.  plonky2 serialises a gate as its Rust Debug rendering (for some gates followed by <D=..> or
   <WIDTH=..>); gates.GateInstanceFromId resolves such a string by iterating a Go map of regular expressions (random
   order) and taking the first that matches ANYWHERE in the string (the expressions are not anchored).  The "schedule"
   quantifier of C18 is that iteration order: the result is order-independent iff at most one expression matches.

   Identifiers are generated from the Debug formats (the Id.. operators), the implementation's table is Table (patterns of
   literals, digit groups, a digit/comma/space list, and a trailing "anything"), matching is unanchored (MatchSet).
   Invariants over every generated identifier:
     supported gate       -> MatchSet = {the entry of that gate}     (exactly one gate, the one the string names)
     unimplemented gate   -> MatchSet = {}                            (refused: "Unknown gate ID"), or the handler refuses (<D=..> check) *)
EXTENDS Integers, Sequences, SequencesExt, FiniteSets, TLC, Json

PH == "_phantom: PhantomData<plonky2_field::goldilocks_field::GoldilocksField>"
S(n) == ToString(n)

(* ---- plonky2 Debug formats -------------------------------------------------------------------------------- *)
IdArithmetic(n)      == "ArithmeticGate { num_ops: " \o S(n) \o " }"
IdArithmeticExt(n)   == "ArithmeticExtensionGate { num_ops: " \o S(n) \o " }"
IdBaseSum(l, b)      == "BaseSumGate { num_limbs: " \o S(l) \o " } + Base: " \o S(b)
IdConstant(n)        == "ConstantGate { num_consts: " \o S(n) \o " }"
IdCoset(sb, d, w, D) == "CosetInterpolationGate { subgroup_bits: " \o S(sb) \o ", degree: " \o S(d) \o ", barycentric_weights: [" \o w \o "], " \o PH \o " }<D=" \o S(D) \o ">"
IdExp(n, D)          == "ExponentiationGate { num_power_bits: " \o S(n) \o ", " \o PH \o " }<D=" \o S(D) \o ">"
IdMulExt(n)          == "MulExtensionGate { num_ops: " \o S(n) \o " }"
IdNoop               == "NoopGate"
IdPoseidon           == "PoseidonGate(PhantomData<plonky2_field::goldilocks_field::GoldilocksField>)<WIDTH=12>"
IdPoseidonMds        == "PoseidonMdsGate(PhantomData<plonky2_field::goldilocks_field::GoldilocksField>)<WIDTH=12>"
IdPublicInput        == "PublicInputGate"
IdRandomAccess(b, c, e, D) == "RandomAccessGate { bits: " \o S(b) \o ", num_copies: " \o S(c) \o ", num_extra_constants: " \o S(e) \o ", " \o PH \o " }<D=" \o S(D) \o ">"
IdReducingExt(n)     == "ReducingExtensionGate { num_coeffs: " \o S(n) \o " }"
IdReducing(n)        == "ReducingGate { num_coeffs: " \o S(n) \o " }"
\* gates of plonky2 and of the gadget crates (crypto/plonky2_u32) that the verifier does not implement
IdLookup(n)          == "LookupGate { num_slots: " \o S(n) \o ", lut_hash: [12, 7, 255] }"
IdLookupTable(n)     == "LookupTableGate { num_slots: " \o S(n) \o ", lut_hash: [12, 7, 255], last_lut_row: 3 }"
IdU32Arithmetic(n)   == "U32ArithmeticGate { num_ops: " \o S(n) \o ", " \o PH \o " }"
IdU32AddMany(a, n)   == "U32AddManyGate { num_addends: " \o S(a) \o ", num_ops: " \o S(n) \o ", " \o PH \o " }"
IdU32Subtraction(n)  == "U32SubtractionGate { num_ops: " \o S(n) \o ", " \o PH \o " }"
IdU32RangeCheck(n)   == "U32RangeCheckGate { num_input_limbs: " \o S(n) \o ", " \o PH \o " }"
IdComparison(b, c)   == "ComparisonGate { num_bits: " \o S(b) \o ", num_chunks: " \o S(c) \o ", " \o PH \o " }<D=2>"
IdU32Interleave(n)   == "U32InterleaveGate { num_ops: " \o S(n) \o " }"
IdUninterleaveB32(n) == "UninterleaveToB32Gate { num_ops: " \o S(n) \o " }"
IdUninterleaveU32(n) == "UninterleaveToU32Gate { num_ops: " \o S(n) \o " }"

(* ---- the implementation's table ------------------------------------------------------------------------------ *)
L(v) == [t |-> "lit", v |-> v]
Dg(name) == [t |-> "digits", v |-> name]
Lst(name) == [t |-> "list", v |-> name]
AnyTail == [t |-> "any", v |-> ""]
Table == [
  ArithmeticGate          |-> <<L("ArithmeticGate { num_ops: "), Dg("numOps"), L(" }")>>,
  ArithmeticExtensionGate |-> <<L("ArithmeticExtensionGate { num_ops: "), Dg("numOps"), L(" }")>>,
  BaseSumGate             |-> <<L("BaseSumGate { num_limbs: "), Dg("numLimbs"), L(" } + Base: "), Dg("base")>>,
  ConstantGate            |-> <<L("ConstantGate { num_consts: "), Dg("numConsts"), L(" }")>>,
  CosetInterpolationGate  |-> <<L("CosetInterpolationGate { subgroup_bits: "), Dg("subgroupBits"), L(", degree: "), Dg("degree"),
                                L(", barycentric_weights: ["), Lst("barycentricWeights"), L("], " \o PH \o " }<D=2>")>>,
  ExponentiationGate      |-> <<L("ExponentiationGate { num_power_bits: "), Dg("numPowerBits"), L(", " \o PH \o " }<D="), Dg("base"), L(">")>>,
  MulExtensionGate        |-> <<L("MulExtensionGate { num_ops: "), Dg("numOps"), L(" }")>>,
  NoopGate                |-> <<L("NoopGate")>>,
  PoseidonGate            |-> <<L("PoseidonGate"), AnyTail>>,
  PoseidonMdsGate         |-> <<L("PoseidonMdsGate"), AnyTail>>,
  PublicInputGate         |-> <<L("PublicInputGate")>>,
  RandomAccessGate        |-> <<L("RandomAccessGate { bits: "), Dg("bits"), L(", num_copies: "), Dg("numCopies"), L(", num_extra_constants: "),
                                Dg("numExtraConstants"), L(", " \o PH \o " }<D="), Dg("base"), L(">")>>,
  ReducingExtensionGate   |-> <<L("ReducingExtensionGate { num_coeffs: "), Dg("numCoeffs"), L(" }")>>,
  ReducingGate            |-> <<L("ReducingGate { num_coeffs: "), Dg("numCoeffs"), L(" }")>> ]
Entries == DOMAIN Table
\* handlers that additionally require D = 2 and refuse otherwise
ChecksD == {"ExponentiationGate", "RandomAccessGate"}

(* ---- unanchored matching ---------------------------------------------------------------------------------------- *)
Ch(s, i) == SubSeq(s, i, i)
Digits == {"0", "1", "2", "3", "4", "5", "6", "7", "8", "9"}
ListChars == Digits \cup {",", " "}
RECURSIVE MatchFrom(_, _, _, _)
MatchFrom(toks, k, s, pos) ==
  IF k > Len(toks) THEN TRUE
  ELSE LET tk == toks[k] IN
    CASE tk.t = "lit" -> /\ pos + Len(tk.v) - 1 <= Len(s)
                         /\ SubSeq(s, pos, pos + Len(tk.v) - 1) = tk.v
                         /\ MatchFrom(toks, k + 1, s, pos + Len(tk.v))
      [] tk.t = "digits" -> \E n \in 1..(Len(s) - pos + 1) :
                               /\ \A i \in pos..(pos + n - 1) : Ch(s, i) \in Digits
                               /\ MatchFrom(toks, k + 1, s, pos + n)
      [] tk.t = "list" -> \E n \in 1..(Len(s) - pos + 1) :
                               /\ \A i \in pos..(pos + n - 1) : Ch(s, i) \in ListChars
                               /\ MatchFrom(toks, k + 1, s, pos + n)
      [] tk.t = "any" -> TRUE
Matches(toks, s) == \E p \in 1..Len(s) : MatchFrom(toks, 1, s, p)
MatchSet(s) == {e \in Entries : Matches(Table[e], s)}

(* ---- generated identifiers ---------------------------------------------------------------------------------------- *)
CONSTANTS Ops, Limbs, Bases, Bits, Copies, PowerBits, Coeffs, SubBits, Degrees

OpsAll == 1..20
LimbsAll == 1..63
BasesAll == (2..4) \cup {10, 16, 64}      \* multi-digit values: every numeric parameter must be captured completely
BitsAll == 1..5
CopiesAll == (1..4) \cup {13}
PowerBitsAll == 1..67
CoeffsAll == 1..43
SubBitsAll == 2..4
DegreesAll == (2..6) \cup {10}

W4 == "17293822565076172801, 18374686475376656385, 18446744069413535745, 281474976645120"
G(id, gate, ok, d) == [id |-> id, gate |-> gate, supported |-> ok, d |-> d]
Supported ==
     {G(IdArithmetic(n), "ArithmeticGate", TRUE, 2) : n \in Ops} \cup {G(IdArithmeticExt(n), "ArithmeticExtensionGate", TRUE, 2) : n \in Ops}
  \cup {G(IdMulExt(n), "MulExtensionGate", TRUE, 2) : n \in Ops}
  \cup {G(IdBaseSum(l, b), "BaseSumGate", TRUE, 2) : l \in Limbs, b \in Bases}
  \cup {G(IdConstant(n), "ConstantGate", TRUE, 2) : n \in (1..4) \cup {10, 12, 100}}
  \cup {G(IdCoset(sb, d, W4, 2), "CosetInterpolationGate", TRUE, 2) : sb \in SubBits, d \in Degrees}
  \cup {G(IdExp(n, 2), "ExponentiationGate", TRUE, 2) : n \in PowerBits}
  \cup {G(IdNoop, "NoopGate", TRUE, 2), G(IdPoseidon, "PoseidonGate", TRUE, 2), G(IdPoseidonMds, "PoseidonMdsGate", TRUE, 2), G(IdPublicInput, "PublicInputGate", TRUE, 2)}
  \cup {G(IdRandomAccess(b, c, 2, 2), "RandomAccessGate", TRUE, 2) : b \in Bits, c \in Copies}
  \cup {G(IdReducingExt(n), "ReducingExtensionGate", TRUE, 2) : n \in Coeffs} \cup {G(IdReducing(n), "ReducingGate", TRUE, 2) : n \in Coeffs}
Unsupported ==
     {G(IdLookup(n), "LookupGate", FALSE, 2) : n \in {1, 40}} \cup {G(IdLookupTable(n), "LookupTableGate", FALSE, 2) : n \in {1, 26}}
  \cup {G(IdU32Arithmetic(n), "U32ArithmeticGate", FALSE, 2) : n \in Ops} \cup {G(IdU32AddMany(a, n), "U32AddManyGate", FALSE, 2) : a \in {2, 3}, n \in {1, 5}}
  \cup {G(IdU32Subtraction(n), "U32SubtractionGate", FALSE, 2) : n \in {1, 6}} \cup {G(IdU32RangeCheck(n), "U32RangeCheckGate", FALSE, 2) : n \in {1, 8}}
  \cup {G(IdComparison(b, c), "ComparisonGate", FALSE, 2) : b \in {32, 63}, c \in {4, 16}}
  \cup {G(IdU32Interleave(n), "U32InterleaveGate", FALSE, 2) : n \in {1, 10}} \cup {G(IdUninterleaveB32(n), "UninterleaveToB32Gate", FALSE, 2) : n \in {1, 10}}
  \cup {G(IdUninterleaveU32(n), "UninterleaveToU32Gate", FALSE, 2) : n \in {1, 10}}
  \* gates over another extension degree
  \cup {G(IdExp(n, 4), "ExponentiationGate", FALSE, 4) : n \in {1, 67}} \cup {G(IdRandomAccess(b, 4, 2, 4), "RandomAccessGate", FALSE, 4) : b \in {1, 4}}
  \cup {G(IdCoset(4, 6, W4, 4), "CosetInterpolationGate", FALSE, 4), G(IdExp(5, 1), "ExponentiationGate", FALSE, 1)}
All == Supported \cup Unsupported

OneGate(g) == IF g.supported THEN MatchSet(g.id) = {g.gate}
              ELSE \/ MatchSet(g.id) = {}
                   \/ (MatchSet(g.id) = {g.gate} /\ g.gate \in ChecksD /\ g.d # 2)     \* matched, but the handler refuses D # 2
ExactlyOne == \A g \in All : OneGate(g)
ASSUME ExactlyOne

Cases == SetToSeq({[id |-> g.id, gate |-> g.gate, supported |-> g.supported, d |-> g.d, matchset |-> SetToSeq(MatchSet(g.id))] : g \in All})
ASSUME JsonSerialize("gateid_cases.json", Cases)
VARIABLE z
Init == z = 0
Next == UNCHANGED z
================================================================================
