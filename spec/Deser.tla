---------------------------------- MODULE Deser ----------------------------------
(* Deserialization of a plonky2 proof (types.ReadProofWithPublicInputs + variables.DeserializeProofWithPublicInputs) and of
   the verifier-only data as a PATH CORRESPONDENCE between the leaves of the JSON document and the leaves of the circuit
   assignment.  `Rules` is the correspondence, one row per leaf kind: the document path pattern, the assignment path pattern
   (the i-th "*" of one corresponds to the i-th "*" of the other), the leaf type (u64 number / decimal hash string) and the
   shape dimension of every "*".  For a shape (list lengths) the rules are instantiated; TLC checks over all small shapes that
   the correspondence is a bijection between document leaves and assignment leaves (nothing dropped, duplicated or
   reordered: distinct document leaves map to distinct assignment leaves and the counts agree with the shape), and writes the
   rules out; the Go driver applies them to documents of arbitrary shape. *)
EXTENDS Integers, Sequences, FiniteSets, TLC, Json

R(doc, asg, ty, dims) == [doc |-> doc, asg |-> asg, ty |-> ty, dims |-> dims]
Q == "proof.opening_proof.query_round_proofs[*]."
QA == "Proof.OpeningProof.QueryRoundProofs[*]."
Rules == <<
  R("public_inputs[*]", "PublicInputs[*]", "u64", <<"npi">>),
  R("proof.wires_cap[*]", "Proof.WiresCap[*]", "hash", <<"cap">>),
  R("proof.plonk_zs_partial_products_cap[*]", "Proof.PlonkZsPartialProductsCap[*]", "hash", <<"cap">>),
  R("proof.quotient_polys_cap[*]", "Proof.QuotientPolysCap[*]", "hash", <<"cap">>),
  R("proof.openings.constants[*][*]", "Proof.Openings.Constants[*][*]", "u64", <<"nopen", "two">>),
  R("proof.openings.plonk_sigmas[*][*]", "Proof.Openings.PlonkSigmas[*][*]", "u64", <<"nopen", "two">>),
  R("proof.openings.wires[*][*]", "Proof.Openings.Wires[*][*]", "u64", <<"nopen", "two">>),
  R("proof.openings.plonk_zs[*][*]", "Proof.Openings.PlonkZs[*][*]", "u64", <<"nopen", "two">>),
  R("proof.openings.plonk_zs_next[*][*]", "Proof.Openings.PlonkZsNext[*][*]", "u64", <<"nopen", "two">>),
  R("proof.openings.partial_products[*][*]", "Proof.Openings.PartialProducts[*][*]", "u64", <<"nopen", "two">>),
  R("proof.openings.quotient_polys[*][*]", "Proof.Openings.QuotientPolys[*][*]", "u64", <<"nopen", "two">>),
  R("proof.opening_proof.commit_phase_merkle_caps[*][*]", "Proof.OpeningProof.CommitPhaseMerkleCaps[*][*]", "hash", <<"steps", "cap">>),
  R(Q \o "initial_trees_proof.evals_proofs[*][0][*]", QA \o "InitialTreesProof.EvalsProofs[*].Elements[*]", "u64", <<"rounds", "trees", "width">>),
  R(Q \o "initial_trees_proof.evals_proofs[*][1].siblings[*]", QA \o "InitialTreesProof.EvalsProofs[*].MerkleProof.Siblings[*]", "hash", <<"rounds", "trees", "sibs">>),
  R(Q \o "steps[*].evals[*][*]", QA \o "Steps[*].Evals[*][*]", "u64", <<"rounds", "steps", "arity", "two">>),
  R(Q \o "steps[*].merkle_proof.siblings[*]", QA \o "Steps[*].MerkleProof.Siblings[*]", "hash", <<"rounds", "steps", "sibs">>),
  R("proof.opening_proof.final_poly.coeffs[*][*]", "Proof.OpeningProof.FinalPoly.Coeffs[*][*]", "u64", <<"nopen", "two">>),
  R("proof.opening_proof.pow_witness", "Proof.OpeningProof.PowWitness", "u64", <<>>) >>
VDRules == <<
  R("constants_sigmas_cap[*]", "ConstantSigmasCap[*]", "hash", <<"cap">>),
  R("circuit_digest", "CircuitDigest", "hash", <<>>) >>

\* common circuit data (types.ReadCommonCircuitData): document field -> field of types.CommonCircuitData
\* ("sel:" entries are read through the SelectorsInfo accessor)
CDRules == <<
  R("config.num_wires", "Config.NumWires", "u64", <<>>), R("config.num_routed_wires", "Config.NumRoutedWires", "u64", <<>>),
  R("config.num_constants", "Config.NumConstants", "u64", <<>>), R("config.use_base_arithmetic_gate", "Config.UseBaseArithmeticGate", "bool", <<>>),
  R("config.security_bits", "Config.SecurityBits", "u64", <<>>), R("config.num_challenges", "Config.NumChallenges", "u64", <<>>),
  R("config.zero_knowledge", "Config.ZeroKnowledge", "bool", <<>>), R("config.max_quotient_degree_factor", "Config.MaxQuotientDegreeFactor", "u64", <<>>),
  R("config.fri_config.rate_bits", "Config.FriConfig.RateBits", "u64", <<>>), R("config.fri_config.cap_height", "Config.FriConfig.CapHeight", "u64", <<>>),
  R("config.fri_config.proof_of_work_bits", "Config.FriConfig.ProofOfWorkBits", "u64", <<>>), R("config.fri_config.num_query_rounds", "Config.FriConfig.NumQueryRounds", "u64", <<>>),
  R("fri_params.config.rate_bits", "FriParams.Config.RateBits", "u64", <<>>), R("fri_params.config.cap_height", "FriParams.Config.CapHeight", "u64", <<>>),
  R("fri_params.config.proof_of_work_bits", "FriParams.Config.ProofOfWorkBits", "u64", <<>>), R("fri_params.config.num_query_rounds", "FriParams.Config.NumQueryRounds", "u64", <<>>),
  R("fri_params.degree_bits", "FriParams.DegreeBits", "u64", <<>>), R("fri_params.degree_bits", "DegreeBits", "u64", <<>>),
  R("fri_params.reduction_arity_bits[*]", "FriParams.ReductionArityBits[*]", "u64", <<"steps">>),
  R("gates[*]", "GateIds[*]", "string", <<"nopen">>),
  R("selectors_info.selector_indices[*]", "sel:indices[*]", "u64", <<"nopen">>),
  R("selectors_info.groups[*].start", "sel:starts[*]", "u64", <<"steps">>), R("selectors_info.groups[*].end", "sel:ends[*]", "u64", <<"steps">>),
  R("quotient_degree_factor", "QuotientDegreeFactor", "u64", <<>>), R("num_gate_constraints", "NumGateConstraints", "u64", <<>>),
  R("num_constants", "NumConstants", "u64", <<>>), R("num_public_inputs", "NumPublicInputs", "u64", <<>>),
  R("k_is[*]", "KIs[*]", "u64", <<"nopen">>), R("num_partial_products", "NumPartialProducts", "u64", <<>>) >>

CONSTANTS Caps, Rounds, Steps, Widths, Sibs, Opens

Shapes == [cap : Caps, rounds : Rounds, steps : Steps, width : Widths, sibs : Sibs, nopen : Opens]
Dim(sh, d) == CASE d = "cap" -> sh.cap [] d = "rounds" -> sh.rounds [] d = "steps" -> sh.steps [] d = "width" -> sh.width
                [] d = "sibs" -> sh.sibs [] d = "nopen" -> sh.nopen [] d = "two" -> 2 [] d = "trees" -> 2 [] d = "arity" -> 2 [] d = "npi" -> sh.nopen

\* replace the wildcards of a pattern, left to right, by the indices
RECURSIVE Fill(_, _)
Fill(pat, idx) ==
  IF idx = <<>> THEN pat
  ELSE LET p == CHOOSE i \in 1..Len(pat) : SubSeq(pat, i, i) = "*" /\ \A j \in 1..(i - 1) : SubSeq(pat, j, j) # "*"
       IN SubSeq(pat, 1, p - 1) \o ToString(idx[1]) \o Fill(SubSeq(pat, p + 1, Len(pat)), Tail(idx))
RECURSIVE Tuples(_, _)
Tuples(sh, dims) == IF dims = <<>> THEN {<<>>}
                    ELSE {<<i>> \o t : i \in 0..(Dim(sh, dims[1]) - 1), t \in Tuples(sh, Tail(dims))}
Inst(sh, rule) == {[doc |-> Fill(rule.doc, t), asg |-> Fill(rule.asg, t), ty |-> rule.ty] : t \in Tuples(sh, rule.dims)}
Leaves(sh) == UNION {Inst(sh, Rules[i]) : i \in 1..Len(Rules)}
RECURSIVE Prod(_, _)
Prod(sh, dims) == IF dims = <<>> THEN 1 ELSE Dim(sh, dims[1]) * Prod(sh, Tail(dims))
RECURSIVE SumRules(_, _)
SumRules(sh, i) == IF i = 0 THEN 0 ELSE Prod(sh, Rules[i].dims) + SumRules(sh, i - 1)

Bijective(sh) == LET ls == Leaves(sh) IN
                 /\ \A a \in ls : \A b \in ls : (a.asg = b.asg \/ a.doc = b.doc) => a = b     \* injective both ways
                 /\ Cardinality(ls) = SumRules(sh, Len(Rules))                               \* nothing dropped or merged
ASSUME \A sh \in Shapes : Bijective(sh)
ASSUME JsonSerialize("deser_rules.json", [proof |-> Rules, vd |-> VDRules, cd |-> CDRules])
VARIABLE z
Init == z = 0
Next == UNCHANGED z
================================================================================
