CONSTANTS
  MaxGen = 2
  MaxLoads = 1
  LoadsOnlyWhenIdle = FALSE
  EmitCases = FALSE
SPECIFICATION Spec
VIEW view
INVARIANTS TypeOK LoadedSameGeneration
CHECK_DEADLOCK FALSE
