CONSTANTS K = 2  R = 49547  QBITS = 9  MaxLen = 6  EmitPrograms = TRUE
SPECIFICATION Spec
INVARIANTS Canonical Emit
POSTCONDITION Post
