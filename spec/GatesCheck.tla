-------------------------------- MODULE GatesCheck --------------------------------
(* Scaled-field checks of the gate terms of Gates.tla: rows built by the gate's own generator semantics (the "defined" wires
   solved from the free ones) make every constraint vanish, and changing the defined wire makes at least one constraint
   non-zero (no constraint is identically zero); the selector filter is non-zero on its own row value and zero on every other
   row of the group and on the unused marker.  Free wires range over a small set of extension values. *)
EXTENDS Gates

Vals == {<<0, 0>>, <<1, 0>>, <<5, 3>>, <<240, 17>>}
Bits == {<<0, 0>>, <<1, 0>>}
Env(ws, cs) == [nm \in {"w_" \o ToString(i) : i \in 0..(Len(ws) - 1)} \cup {"c_" \o ToString(i) : i \in 0..(Len(cs) - 1)} |->
                 IF SubSeq(nm, 1, 2) = "w_" THEN ws[1 + (CHOOSE i \in 0..(Len(ws) - 1) : nm = "w_" \o ToString(i))]
                 ELSE cs[1 + (CHOOSE i \in 0..(Len(cs) - 1) : nm = "c_" \o ToString(i))]]
AllZero(ts, env) == \A k \in 1..Len(ts) : Eval(ts[k], env) = <<0, 0>>
SomeNonZero(ts, env) == \E k \in 1..Len(ts) : Eval(ts[k], env) # <<0, 0>>
Bump(v) == <<M(v[1] + 1), v[2]>>

\* arithmetic: output := m0 * m1 * c0 + addend * c1
ASSUME \A a \in Vals, b \in Vals, c \in Vals, k0 \in Vals, k1 \in Vals :
          LET out == EAdd(EMul(EMul(a, b), k0), EMul(c, k1)) IN
          /\ AllZero(ArithmeticGate(1), Env(<<a, b, c, out>>, <<k0, k1>>))
          /\ SomeNonZero(ArithmeticGate(1), Env(<<a, b, c, Bump(out)>>, <<k0, k1>>))
\* base sum, 3 limbs base 2: sum := l0 + 2 l1 + 4 l2, limbs are digits
ASSUME \A l0 \in Bits, l1 \in Bits, l2 \in Bits :
          LET sum == EAdd(l0, EAdd(EMul(<<2, 0>>, l1), EMul(<<4, 0>>, l2))) IN
          /\ AllZero(BaseSumGate(3, 2), Env(<<sum, l0, l1, l2>>, <<>>))
          /\ SomeNonZero(BaseSumGate(3, 2), Env(<<Bump(sum), l0, l1, l2>>, <<>>))
          /\ SomeNonZero(BaseSumGate(3, 2), Env(<<EAdd(sum, <<2, 0>>), l0, <<M(l1[1] + 2), 0>>, l2>>, <<>>))   \* a non-digit limb
\* exponentiation, 2 power bits: intermediates i0 = (b1 ? base : 1), i1 = i0^2 * (b0 ? base : 1), output = i1
ASSUME \A base \in Vals, b0 \in Bits, b1 \in Bits :
          LET sel(b) == IF b = <<1, 0>> THEN base ELSE <<1, 0>>
              i0 == sel(b1)
              i1 == EMul(EMul(i0, i0), sel(b0)) IN
          /\ AllZero(ExponentiationGate(2), Env(<<base, b0, b1, i1, i0, i1>>, <<>>))
          /\ SomeNonZero(ExponentiationGate(2), Env(<<base, b0, b1, Bump(i1), i0, i1>>, <<>>))
          /\ i1 = EPow(base, b0[1] + 2 * b1[1])                                             \* it is the power base^(b0 + 2 b1)
\* random access, 1 bit, 1 copy, no extra constants: wires index, claimed, item0, item1 | bit
ASSUME \A x \in Vals, y \in Vals, b \in Bits :
          LET claimed == IF b = <<1, 0>> THEN y ELSE x IN
          /\ AllZero(RandomAccessGate(1, 1, 0), Env(<<b, claimed, x, y, b>>, <<>>))
          /\ (x # y => SomeNonZero(RandomAccessGate(1, 1, 0), Env(<<b, Bump(claimed), x, y, b>>, <<>>)))
\* reducing, 2 coefficients: acc0 = old * alpha + c0, output = acc0 * alpha + c1 (algebra elements as two wires)
AlgM(a, b) == <<EAdd(EMul(a[1], b[1]), EMul(<<7, 0>>, EMul(a[2], b[2]))), EAdd(EMul(a[1], b[2]), EMul(a[2], b[1]))>>
ASSUME \A al0 \in Vals, al1 \in {<<0, 0>>, <<2, 9>>}, old0 \in Vals, k0 \in Vals, k1 \in Vals :
          LET alpha == <<al0, al1>>  old == <<old0, <<3, 3>>>>
              m0 == AlgM(old, alpha)  acc0 == <<EAdd(m0[1], k0), m0[2]>>
              m1 == AlgM(acc0, alpha)  out == <<EAdd(m1[1], k1), m1[2]>> IN
          /\ AllZero(ReducingGate(2), Env(<<out[1], out[2], alpha[1], alpha[2], old[1], old[2], k0, k1, acc0[1], acc0[2]>>, <<>>))
          /\ SomeNonZero(ReducingGate(2), Env(<<Bump(out[1]), out[2], alpha[1], alpha[2], old[1], old[2], k0, k1, acc0[1], acc0[2]>>, <<>>))
\* selector filter: group [2, 6), several selectors (the unused marker is scaled to a value outside the group)
FilterMini(row, s) == LET others == {i \in 2..5 : i # row} IN
                      EMul(EMul(EMul(ESub(<<CHOOSE a \in others : \A b \in others : a <= b, 0>>, s), ESub(<<CHOOSE a \in others : \E b \in others, c \in others : b < a /\ a < c, 0>>, s)),
                                ESub(<<CHOOSE a \in others : \A b \in others : a >= b, 0>>, s)), ESub(<<200, 0>>, s))
ASSUME \A row \in 2..5 : /\ FilterMini(row, <<row, 0>>) # <<0, 0>>
                         /\ \A o \in (2..5) \ {row} : FilterMini(row, <<o, 0>>) = <<0, 0>>
                         /\ FilterMini(row, <<200, 0>>) = <<0, 0>>
\* and the term Filter is that product (without the unused factor, which is a real-field constant)
ASSUME \A row \in 2..5 : \A sv \in {<<2, 0>>, <<3, 0>>, <<7, 5>>} :
          EMul(Eval(Filter(row, 2, 6, Var("s"), FALSE), [s |-> sv]), ESub(<<200, 0>>, sv)) = FilterMini(row, sv)
VARIABLE z
Init == z = 0
Next == UNCHANGED z
================================================================================
