CONSTANTS Threads = {1, 2, 3}  ReqPerThread = 2  WithMutex = TRUE
SPECIFICATION Spec
INVARIANTS AtMostOneChip OneFlush NoLostRequest
