CONSTANTS Heights = {4, 5, 6}  CapH = 4  EmitCases = TRUE
SPECIFICATION Spec
INVARIANTS Exact FoldLength Emit
POSTCONDITION Post
