CONSTANTS
  KeyPinned = FALSE
SPECIFICATION Spec
INVARIANTS TypeOK OnlyAfterVerify InputsArePacking NoProofForInvalid
