CONSTANTS
  Widths = {32}
  MaxReq = 100000
  Pads = {0}
  NativeArmEmpty = FALSE
  AllowLateRequest = TRUE
  EmitCases = FALSE
SPECIFICATION TraceSpec
INVARIANTS TypeOK ModeMatches CommitDoneAligned HighWater
POSTCONDITION TraceAccepted
