CONSTANTS
  Widths = {32}
  MaxReq = 2
  Pads = {70000}
  NativeArmEmpty = FALSE
  AllowLateRequest = TRUE
  EmitCases = FALSE
SPECIFICATION Spec
INVARIANTS NoSilentDrop
