CONSTANTS Word = 2  Users = {1, 2}  Owner = 1  CircuitBoundsWords = FALSE
SPECIFICATION Spec
INVARIANTS NoCollision
