--------------------------------- MODULE ExtField ---------------------------------
(* The quadratic-extension gadgets of goldilocks/quadratic_extension.go and the degree-2 algebra of
   quadratic_extension_algebra.go, as ALGORITHMS in the shape of the code, checked against the field-theoretic definitions
   on GF(MP^2) = GF(MP)[X]/(X^2 - 7) exhaustively (MP = 13: all 169 elements, all 169^2 pairs):

     MulNoReduce      schoolbook product with non-residue 7: (a0 b0 + 7 a1 b1, a0 b1 + a1 b0) over the integers, ONE deferred
                      reduction per coordinate; the unreduced value stays below what Reduce accepts
     Inverse          via the Frobenius conjugate: a^(p-1)... the code computes a^(r-1) = (a0, a1 * DTH_ROOT) with DTH_ROOT = p - 1,
                      a^r = a^(r-1) * a (which lies in the base field) and returns a^(r-1) * (a^r)^-1;  zero is refused
     Exp              the special cases 0, 1, 2 and the square-and-multiply bit loop
     ReduceWithPowers Horner from the LAST term:  sum_i t_i * s^i
     InnerProduct     acc + sum_i (a_i * c) * b_i with one final reduction
     algebra product  over GF(p^2)[Y]/(Y^2 - 7) through two inner products (the W-weighted wrap-around part first)
     PartialInterpolate  the running barycentric evaluation  eval' = eval * (x - x_i) + w_i v_i * prod,  prod' = prod * (x - x_i) *)
EXTENDS Integers, Sequences, FiniteSets, TLC

CONSTANTS MP, QBITS

F == 0..(MP - 1)
E == {<<a, b>> : a \in F, b \in F}
M(x) == x % MP
DTH == MP - 1

(* definitions *)
DAdd(a, b) == <<M(a[1] + b[1]), M(a[2] + b[2])>>
DSub(a, b) == <<M(a[1] - b[1]), M(a[2] - b[2])>>
DMul(a, b) == <<M(a[1] * b[1] + 7 * a[2] * b[2]), M(a[1] * b[2] + a[2] * b[1])>>
RECURSIVE DPow(_, _)
DPow(a, k) == IF k = 0 THEN <<1, 0>> ELSE DMul(a, DPow(a, k - 1))
DInv(a) == CHOOSE b \in E : DMul(a, b) = <<1, 0>>

(* the code's algorithms *)
MulNoReduce(a, b) == <<a[1] * b[1] + (7 * a[2]) * b[2], a[1] * b[2] + a[2] * b[1]>>           \* integers
Reduce2(x) == <<M(x[1]), M(x[2])>>
Mul(a, b) == Reduce2(MulNoReduce(a, b))
MulAdd(a, b, c) == LET p == MulNoReduce(a, b) IN Reduce2(<<p[1] + c[1], p[2] + c[2]>>)
SubNoReduce(a, b) == <<a[1] + b[1] * (MP - 1), a[2] + b[2] * (MP - 1)>>                        \* a + b * NegOne
SubMul(a, b, c) == Reduce2(MulNoReduce(SubNoReduce(a, b), c))
ScalarMul(a, s) == <<M(a[1] * s), M(a[2] * s)>>
RECURSIVE PowB(_, _)
PowB(a, k) == IF k = 0 THEN 1 ELSE M(a * PowB(a, k - 1))
InvBase(x) == PowB(x, MP - 2)
Inverse(a) == LET conj == <<a[1], M(a[2] * DTH)>>           \* a^(r-1)
                  n == Mul(conj, a)                          \* a^r: in the base field
              IN ScalarMul(conj, InvBase(n[1]))
BitLen(e) == IF e = 0 THEN 0 ELSE CHOOSE n \in 1..32 : 2^(n - 1) <= e /\ e < 2^n
RECURSIVE ExpLoop(_, _, _, _, _)
ExpLoop(cur, prod, e, i, n) == IF i = n THEN prod
                               ELSE LET c == IF i # 0 THEN Mul(cur, cur) ELSE cur
                                        p == IF (e \div 2^i) % 2 # 0 THEN Mul(prod, c) ELSE prod
                                    IN ExpLoop(c, p, e, i + 1, n)
Exp(a, e) == CASE e = 0 -> <<1, 0>> [] e = 1 -> a [] e = 2 -> Mul(a, a) [] OTHER -> ExpLoop(a, <<1, 0>>, e, 0, BitLen(e))
ReduceWithPowers(terms, s) ==
    LET RECURSIVE H(_, _)
        H(i, sum) == IF i = 0 THEN sum
                     ELSE LET p == MulNoReduce(sum, s) IN H(i - 1, Reduce2(<<p[1] + terms[i][1], p[2] + terms[i][2]>>))
    IN H(Len(terms), <<0, 0>>)
InnerProduct(c, acc, pairs) ==
    LET RECURSIVE H(_, _)
        H(i, a) == IF i > Len(pairs) THEN a
                   ELSE LET p == MulNoReduce(ScalarMul(pairs[i][1], c), pairs[i][2]) IN H(i + 1, <<a[1] + p[1], a[2] + p[2]>>)
    IN Reduce2(H(1, acc))
\* algebra: pairs of extension elements (a[1] + a[2] Y), Y^2 = 7
AlgMul(a, b) == <<InnerProduct(1, InnerProduct(7, <<0, 0>>, <<<<a[2], b[2]>>>>), <<<<a[1], b[1]>>>>),
                  InnerProduct(1, InnerProduct(7, <<0, 0>>, <<>>), <<<<a[1], b[2]>>, <<a[2], b[1]>>>>)>>
DAlgMul(a, b) == <<DAdd(DMul(a[1], b[1]), DMul(<<7, 0>>, DMul(a[2], b[2]))), DAdd(DMul(a[1], b[2]), DMul(a[2], b[1]))>>

(* ---- exhaustive checks ------------------------------------------------------------------------------------ *)
ASSUME \A a \in E, b \in E : Mul(a, b) = DMul(a, b) /\ MulNoReduce(a, b)[1] \div MP < 2^QBITS /\ MulNoReduce(a, b)[2] \div MP < 2^QBITS
ASSUME \A a \in E, b \in E : SubMul(a, b, <<3, 5>>) = DMul(DSub(a, b), <<3, 5>>) /\ MulAdd(a, b, <<2, 11>>) = DAdd(DMul(a, b), <<2, 11>>)
ASSUME \A a \in E : a # <<0, 0>> => (Mul(Inverse(a), a) = <<1, 0>> /\ Mul(<<a[1], M(a[2] * DTH)>>, a)[2] = 0)
ASSUME \A a \in {<<0, 0>>, <<1, 0>>, <<0, 1>>, <<5, 7>>, <<12, 12>>, <<3, 0>>} : \A e \in 0..40 : Exp(a, e) = DPow(a, e)
ASSUME \A s \in {<<0, 0>>, <<1, 0>>, <<2, 5>>, <<12, 1>>} :
          \A ts \in {<<>>, <<<<3, 4>>>>, <<<<1, 0>>, <<0, 1>>, <<5, 5>>>>, <<<<12, 12>>, <<0, 0>>, <<7, 1>>, <<2, 2>>, <<9, 3>>>>} :
             ReduceWithPowers(ts, s) = (LET RECURSIVE S(_) S(i) == IF i > Len(ts) THEN <<0, 0>> ELSE DAdd(DMul(ts[i], DPow(s, i - 1)), S(i + 1)) IN S(1))
ASSUME \A a1 \in {<<1, 2>>, <<0, 5>>, <<12, 7>>}, a2 \in {<<0, 0>>, <<3, 3>>, <<11, 1>>}, b1 \in {<<4, 0>>, <<6, 9>>}, b2 \in {<<0, 1>>, <<8, 8>>} :
          AlgMul(<<a1, a2>>, <<b1, b2>>) = DAlgMul(<<a1, a2>>, <<b1, b2>>)
VARIABLE z
Init == z = 0
Next == UNCHANGED z
================================================================================
