CONSTANTS Caps = {1, 2}  Rounds = {0, 1, 2}  Steps = {0, 1, 2}  Widths = {0, 1, 3}  Sibs = {0, 1, 2}  Opens = {0, 1, 2}
INIT Init
NEXT Next
