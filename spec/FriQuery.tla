-------------------------------- MODULE FriQuery --------------------------------
(* The control structure of FRI verification (fri.VerifyFriProof / verifyQueryRound), one action per check:
     Pow            the proof-of-work width check on the response (once, before the rounds)
     StartRound     xIndex := Reduce(index challenge r); 64-bit decomposition; low LdeBits bits are the index bits,
                    the top CapH of them select the cap entry for EVERY tree of the round
     InitialMerkle  one opening per oracle (4), leaf width of that oracle, LdeBits - CapH siblings, index bits from offset 0
     Consistency(s) the claimed evaluation at the query's own coset position equals the running value
     StepMerkle(s)  opening of the 2 * 2^arity_s evaluations in commit cap s with the remaining index bits
     Final          running value = final polynomial at the folded point
   Properties: every configured round executes all of its checks, in order, with the prescribed parameters. *)
EXTENDS Integers, Sequences, FiniteSets, TLC, Json

CONSTANTS NRounds, Arities, LdeBits, CapH, LeafLens, PowBits, NChallengesBefore

Arities44 == <<4, 4>>
LeafLensA == <<85, 135, 20, 16>>
NSteps == Len(Arities)
RECURSIVE SumTo(_, _)
SumTo(seq, n) == IF n = 0 THEN 0 ELSE seq[n] + SumTo(seq, n - 1)
Pow2(n) == 2^n

VARIABLES round, pc, tree, step, checks
vars == <<round, pc, tree, step, checks>>
\* checks: the sequence of executed checks (records)

Rec(kind, r, leaflen, nsib, bitoff, capoff, cap) ==
   [ev |-> kind, round |-> r, leaflen |-> leaflen, nsib |-> nsib, bitoff |-> bitoff, capoff |-> capoff, cap |-> cap, n |-> 0]

Init == round = 0 /\ pc = "pow" /\ tree = 0 /\ step = 0 /\ checks = <<>>

Pow == /\ pc = "pow" /\ pc' = "start"
       /\ checks' = Append(checks, [Rec("pow", 0, 0, 0, 0, 0, "") EXCEPT !.n = 64 - PowBits])
       /\ UNCHANGED <<round, tree, step>>
StartRound == /\ pc = "start" /\ round < NRounds
              /\ checks' = Append(checks, [Rec("round", round, 0, 0, 0, 0, "") EXCEPT !.n = NChallengesBefore + round])
              /\ pc' = "initial" /\ tree' = 0 /\ step' = 0 /\ UNCHANGED round
InitialMerkle == /\ pc = "initial" /\ tree < Len(LeafLens)
                 /\ checks' = Append(checks, Rec("merkle", round, LeafLens[tree + 1], LdeBits - CapH, 0, LdeBits - CapH, "initial" \o ToString(tree)))
                 /\ tree' = tree + 1
                 /\ pc' = IF tree + 1 = Len(LeafLens) THEN (IF NSteps = 0 THEN "final" ELSE "consistency") ELSE "initial"
                 /\ UNCHANGED <<round, step>>
Consistency == /\ pc = "consistency"
               /\ checks' = Append(checks, [Rec("consistency", round, 0, 0, 0, 0, "") EXCEPT !.n = step])
               /\ pc' = "stepmerkle" /\ UNCHANGED <<round, tree, step>>
StepMerkle == /\ pc = "stepmerkle"
              /\ LET used == SumTo(Arities, step + 1) IN
                 checks' = Append(checks, Rec("merkle", round, 2 * Pow2(Arities[step + 1]), LdeBits - CapH - used, used, LdeBits - CapH, "commit" \o ToString(step)))
              /\ step' = step + 1
              /\ pc' = IF step + 1 = NSteps THEN "final" ELSE "consistency"
              /\ UNCHANGED <<round, tree>>
Final == /\ pc = "final"
         /\ checks' = Append(checks, Rec("final", round, 0, 0, 0, 0, ""))
         /\ round' = round + 1 /\ pc' = "start" /\ UNCHANGED <<tree, step>>
Finish == /\ pc = "start" /\ round = NRounds /\ pc' = "done" /\ UNCHANGED <<round, tree, step, checks>>
Next == Pow \/ StartRound \/ InitialMerkle \/ Consistency \/ StepMerkle \/ Final \/ Finish
Spec == Init /\ [][Next]_vars

PerRound == Len(LeafLens) + 2 * NSteps + 2
\* no configuration executes fewer security-relevant checks than configured
AllChecksDone == pc = "done" => /\ Len(checks) = 1 + NRounds * PerRound
                                /\ Cardinality({i \in 1..Len(checks) : checks[i].ev = "merkle"}) = NRounds * (Len(LeafLens) + NSteps)
                                /\ Cardinality({i \in 1..Len(checks) : checks[i].ev = "final"}) = NRounds
\* Merkle paths shrink exactly by the arities; the cap index bits never move
PathLengths == \A i \in 1..Len(checks) : checks[i].ev = "merkle" =>
                   /\ checks[i].nsib + checks[i].bitoff = LdeBits - CapH
                   /\ checks[i].capoff = LdeBits - CapH /\ checks[i].nsib >= 0
================================================================================
