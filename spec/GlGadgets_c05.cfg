CONSTANTS K = 2  R = 49547  PINV = 11434  QBITS = 9  XMAX = 2196  NBITS = 4
  Games = {"reduce", "muladd", "inverse"}
SPECIFICATION Spec
INVARIANTS UniqueReduce UniqueMulAdd UniqueInverse
