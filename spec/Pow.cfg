CONSTANTS WBITS = 8  BASE = 2
INIT Init
NEXT Next
INVARIANT Sound
