--------------------------------- MODULE Merkle ---------------------------------
(* Merkle opening against a 16-entry cap (fri.verifyMerkleProofToCapWithCapIndex) under an ideal - injective -
   leaf hash and two-to-one hash: digests are terms.  The verification is the code's fold, one action per step:
     HashLeaf     currentDigest := H(leafData)
     FoldLevel    for sibling i: (left, right) := bit_i ? (sibling, cur) : (cur, sibling); cur := H2(left, right)
     CapLookup    two-level 4-way lookup: entry b0 + 2 b1 + 4 b2 + 8 b3 of the cap
     Compare      accept iff cur = entry
   The scenario is chosen in Init: tree height H (leaf index has H bits: the low H - CapH select siblings, the top
   CapH the cap entry), an index, and ONE corruption (or none).  Invariant Exact: accepted <=> nothing corrupted, except
   that a changed cap entry other than the selected one is (by design) not noticed. *)
EXTENDS Integers, Sequences, FiniteSets, TLC, Json

CONSTANTS Heights, CapH, EmitCases

Kinds == {"none", "leaf", "sibling", "indexbit", "capbit", "capentry", "capentry_other", "wrongslot"}

VARIABLES h, idx, kind, pos, pc, level, cur, entry, verdict
vars == <<h, idx, kind, pos, pc, level, cur, entry, verdict>>

Pow2(n) == 2^n
Bit(x, i) == (x \div Pow2(i)) % 2          \* bit i (LSB = 0)
NSib == h - CapH

(* the honest tree: node(level L, position j) where level 0 = leaves *)
RECURSIVE NodeT(_, _)
NodeT(L, j) == IF L = 0 THEN <<"leaf", j>> ELSE <<"node", NodeT(L - 1, 2 * j), NodeT(L - 1, 2 * j + 1)>>
HonestCap(hh) == [e \in 0..(Pow2(CapH) - 1) |-> NodeT(hh - CapH, e)]
SiblingT(i) == NodeT(i, ((idx \div Pow2(i)) + (IF Bit(idx, i) = 0 THEN 1 ELSE -1)))   \* sibling at level i of the path

(* what the verifier is given, after the corruption *)
GivenLeaf == IF kind = "leaf" THEN <<"badleaf", idx>> ELSE <<"leaf", idx>>
GivenSibling(i) == IF kind = "sibling" /\ pos = i THEN <<"badsibling", i>> ELSE SiblingT(i)
GivenIndexBit(i) == IF kind = "indexbit" /\ pos = i THEN 1 - Bit(idx, i) ELSE Bit(idx, i)
CapIdx == idx \div Pow2(NSib)
GivenCapBit(i) == IF kind = "capbit" /\ pos = i THEN 1 - Bit(CapIdx, i)
                  ELSE IF kind = "wrongslot" THEN Bit((CapIdx + 1 + pos) % Pow2(CapH), i) ELSE Bit(CapIdx, i)
GivenCap == [e \in 0..(Pow2(CapH) - 1) |->
               IF kind = "capentry" /\ e = CapIdx THEN <<"badcap", e>>
               ELSE IF kind = "capentry_other" /\ e = (CapIdx + 1 + pos) % Pow2(CapH) THEN <<"badcap", e>>
               ELSE HonestCap(h)[e]]

PosRange(k, hh) == CASE k \in {"none", "leaf", "capentry"} -> {0}
                     [] k \in {"sibling", "indexbit"} -> 0..(hh - CapH - 1)
                     [] k = "capbit" -> 0..(CapH - 1)
                     [] k \in {"capentry_other", "wrongslot"} -> 0..(Pow2(CapH) - 2)

Init == /\ h \in Heights /\ idx \in 0..(Pow2(h) - 1) /\ kind \in Kinds /\ pos \in PosRange(kind, h)
        /\ pc = "hashleaf" /\ level = 0 /\ cur = <<"none">> /\ entry = <<"none">> /\ verdict = "none"
        /\ (EmitCases => TLCSet(1, <<>>))

HashLeaf == /\ pc = "hashleaf" /\ cur' = GivenLeaf /\ pc' = "fold"
            /\ UNCHANGED <<h, idx, kind, pos, level, entry, verdict>>
FoldLevel == /\ pc = "fold" /\ level < NSib
             /\ cur' = IF GivenIndexBit(level) = 1 THEN <<"node", GivenSibling(level), cur>> ELSE <<"node", cur, GivenSibling(level)>>
             /\ level' = level + 1
             /\ UNCHANGED <<h, idx, kind, pos, pc, entry, verdict>>
CapLookup == /\ pc = "fold" /\ level = NSib
             /\ LET leaf4(i) == GivenCap[4 * i + GivenCapBit(0) + 2 * GivenCapBit(1)]   \* the four "leaf" Lookup2 gadgets
                IN entry' = leaf4(GivenCapBit(2) + 2 * GivenCapBit(3))                  \* the "root" Lookup2 gadget
             /\ pc' = "compare"
             /\ UNCHANGED <<h, idx, kind, pos, level, cur, verdict>>
Compare == /\ pc = "compare" /\ verdict' = (IF cur = entry THEN "accept" ELSE "reject") /\ pc' = "done"
           /\ UNCHANGED <<h, idx, kind, pos, level, cur, entry>>
Next == HashLeaf \/ FoldLevel \/ CapLookup \/ Compare
Spec == Init /\ [][Next]_vars

Harmless == kind \in {"none", "capentry_other"}
Exact == pc = "done" => (verdict = "accept" <=> Harmless)
\* the fold consumes exactly the sibling count prescribed by the height, the lookup exactly CapH bits
FoldLength == pc \in {"compare", "done"} => level = h - CapH

Case == [h |-> h, idx |-> idx, kind |-> kind, pos |-> pos, expect |-> verdict]
Emit == (EmitCases /\ pc = "done") => TLCSet(1, Append(TLCGet(1), Case))
Post == EmitCases => JsonSerialize("merkle_cases.json", TLCGet(1))
================================================================================
