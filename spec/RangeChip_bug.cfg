CONSTANTS
  Widths = {32, 48}
  MaxReq = 2
  Pads = {0}
  NativeArmEmpty = TRUE
  EmitCases = FALSE
SPECIFICATION Spec
INVARIANTS TypeOK NoSilentDrop
