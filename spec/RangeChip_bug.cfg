CONSTANTS
  Widths = {32, 48}
  MaxReq = 2
  Pads = {0}
  NativeArmEmpty = TRUE
  AllowLateRequest = FALSE
  EmitCases = FALSE
SPECIFICATION Spec
INVARIANTS TypeOK NoSilentDrop
