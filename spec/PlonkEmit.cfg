CONSTANTS MP = 241  MRoots <- Roots241  DBm = 3
INIT Init
NEXT Next
