----------------------------- MODULE RangeChipTrace -----------------------------
(* Trace validation for RangeChip: the ndjson trace recorded by the proxy engine and the repository's hooks
   (rangeCheckerCheck entry, checkCollected, goldilocks.New) is accepted only if it is a behaviour of
   RangeChip's own actions.  Several runs are concatenated; each starts with a "start" record.
   Records (every record carries every field):
     start       rc commit ft typer real env pad
     newchip     mode
     rcreq       mode bits deliv count     deliv = 1: the request reached a range-check mechanism at once
     rcflush     n nbbits handoffs hwidths
     gnarkcommit decomposed
     enddefine
     outcome     kind (accept | reject | refuse)
   Acceptance: the high-water mark of consumed lines equals the length of the trace. *)
EXTENDS RangeChip

Trace == ndJsonDeserialize("rangechip_trace.ndjson")
VARIABLE l
tvars == <<vars, l>>

IsEvent(e) == l <= Len(Trace) /\ Trace[l].ev = e /\ l' = l + 1
Cur == Trace[l]

StartVars(t) == /\ builder' = [rc |-> t.rc, commit |-> t.commit, ft |-> t.ft, typer |-> t.typer, real |-> t.real]
                /\ env' = t.env /\ pad' = t.pad
                /\ mode' = "none" /\ phase' = "new" /\ requested' = <<>> /\ delivered' = {} /\ collected' = <<>>
                /\ deferQ' = <<>> /\ closed' = FALSE

TraceInit == /\ l = 2 /\ Trace[1].ev = "start" /\ TLCSet(2, 2)
             /\ builder = [rc |-> Trace[1].rc, commit |-> Trace[1].commit, ft |-> Trace[1].ft, typer |-> Trace[1].typer, real |-> Trace[1].real]
             /\ env = Trace[1].env /\ pad = Trace[1].pad
             /\ mode = "none" /\ phase = "new" /\ requested = <<>> /\ delivered = {} /\ collected = <<>>
             /\ deferQ = <<>> /\ closed = FALSE

\* a new run may start only after the previous one has reported its outcome
TStart == IsEvent("start") /\ Trace[l-1].ev = "outcome" /\ StartVars(Cur)

TNew == IsEvent("newchip") /\ SelectMode /\ mode' = Cur.mode

Immediate(m) == m \in {"native", "bitdecomp"}
TReq == /\ IsEvent("rcreq") /\ Cur.count = 1 /\ Cur.mode = mode
        /\ Request(Cur.bits)
        /\ (Cur.deliv = 1) <=> Immediate(mode)
\* the padding requests (run-length encoded): pad identical honest 32-bit requests, not part of `requested`
TPad == /\ IsEvent("rcreq") /\ Cur.count > 1 /\ Cur.count = pad /\ Cur.bits = 32 /\ Cur.mode = mode
        /\ phase = "define" /\ requested = <<>>
        /\ (Cur.deliv = 1) <=> Immediate(mode)
        /\ UNCHANGED vars

\* a request made from a deferred callback after the chip's flush (RangeChip!LateRequest; enabled only with AllowLateRequest)
TLate == /\ IsEvent("rcreq") /\ Cur.count = 1 /\ Cur.mode = mode /\ Cur.deliv = 0
         /\ LateRequest(Cur.bits)

TEnd == IsEvent("enddefine") /\ EndDefine

HandedWidths == {requested[collected[i]] : i \in 1..Len(collected)} \cup (IF pad > 0 THEN {32} ELSE {})
TFlush == /\ IsEvent("rcflush") /\ phase = "deferred" /\ deferQ # <<>> /\ Head(deferQ) = "flush"
          /\ RunDeferred
          /\ Cur.n = Len(collected) + pad
          /\ Cur.nbbits = ChipBase                 \* the base width computed by the code is the one the model computes
          /\ IF phase' = "refused" THEN (Cur.handoffs < Cur.n \/ Cur.n = 0)
             ELSE /\ Cur.handoffs = Cur.n
                  /\ {Cur.hwidths[i] : i \in 1..Len(Cur.hwidths)} = HandedWidths

TGnark == /\ IsEvent("gnarkcommit") /\ phase = "deferred" /\ deferQ # <<>> /\ Head(deferQ) = "gnarkcommit"
          /\ RunDeferred
          /\ Cur.decomposed = Len(collected) + pad

\* gnark's commit callback does nothing observable when nothing was collected
TGnarkSilent == /\ l <= Len(Trace) /\ Trace[l].ev = "outcome" /\ phase = "deferred" /\ deferQ # <<>>
                /\ Head(deferQ) = "gnarkcommit" /\ Len(collected) + pad = 0
                /\ RunDeferred /\ UNCHANGED l

TOutcome == /\ IsEvent("outcome")
            /\ \/ /\ phase = "deferred" /\ deferQ = <<>> /\ RunDeferred /\ Cur.kind \in {"accept", "reject"}
               \/ /\ phase = "refused" /\ Cur.kind = "refuse" /\ UNCHANGED vars
               \/ /\ phase = "define" /\ Cur.kind = "reject" /\ UNCHANGED vars   \* an immediate check failed on the evaluated value

TraceNext == TStart \/ TNew \/ TReq \/ TLate \/ TPad \/ TEnd \/ TFlush \/ TGnark \/ TGnarkSilent \/ TOutcome
TraceSpec == TraceInit /\ [][TraceNext]_tvars

HighWater == TLCSet(2, IF l > TLCGet(2) THEN l ELSE TLCGet(2))
TraceAccepted == TLCGet(2) = Len(Trace) + 1
================================================================================
