------------------------------- MODULE GlGadgets -------------------------------
(* The witnessed Goldilocks gadgets of goldilocks/base.go as two-player games on a scaled field.

   P = 2^(2K) - 2^K + 1 is the "mini Goldilocks" prime (K = 2: P = 13), R the native modulus of the model
   (49547, prime, the 1/16-scale image of BN254's bit budget: widths 32 -> 2, 64 -> 4, 128 -> 8, 144 -> 9,
   192 -> 12, 253.6 -> 15.6).  In every game the PROVER moves wherever the code calls NewHint and may put
   ANY native field element on the hinted wires; the VERIFIER move evaluates the constraints of the gadget
   modulo R exactly as the code emits them.  A range check is an exact predicate here (C06 establishes
   that separately: games "rangecheck" and "nbits" below).

   Games (constant Games selects which are explored):
     "rangecheck"  Chip.RangeCheck           x = hi*2^K + lo, hi,lo < 2^K, (hi = 2^K-1 => lo = 0)
     "nbits"       n-bit check               boolean digits (or base-2^K limbs) recomposing to x
     "reduce"      Chip.ReduceWithMaxBits    x = q*P + rem, q < 2^QBITS, rem canonical
     "muladd"      Chip.MulAdd               a*b + c = q*P + rem, q and rem canonical
     "inverse"     Chip.Inverse              inv canonical, (x = 0) or inv*x = 1 (through MulAdd)
   Prover moves that a later exact range check certainly rejects are not enumerated (only values that
   pass the width checks can be accepted), except in "rangecheck"/"nbits" where they are the game. *)
EXTENDS Integers, FiniteSets, TLC

CONSTANTS K,        \* limb bits
          R,        \* native modulus of the model
          PINV,     \* P^-1 mod R
          QBITS,    \* enforced quotient width of the "reduce" game
          XMAX,     \* largest input of the "reduce" game (the site's interval bound)
          NBITS,    \* width of the "nbits" game
          Games

P   == 2^(2*K) - 2^K + 1
Lim == 2^K
ASSUME (PINV * P) % R = 1

VARIABLES game, phase, a, b, c, w1, w2, verdict
vars == <<game, phase, a, b, c, w1, w2, verdict>>
\* a, b, c: inputs of the gadget; w1, w2: the hinted wires (quotient/remainder, hi/lo, inverse)

Canon(v) == v < P   \* exact canonical check (game "rangecheck" shows the gadget implements exactly this)

InputsOf(g) ==
  CASE g = "rangecheck" -> {<<x, 0, 0>> : x \in 0..(R-1)}
    [] g = "nbits"      -> {<<x, 0, 0>> : x \in 0..(R-1)}
    [] g = "reduce"     -> {<<x, 0, 0>> : x \in 0..XMAX}
    [] g = "muladd"     -> {<<x, y, z>> : x \in 0..(P-1), y \in 0..(P-1), z \in 0..(P-1)}
    [] g = "inverse"    -> {<<x, 0, 0>> : x \in 0..(P-1)}

Init == /\ game \in Games /\ phase = "start" /\ verdict = "none" /\ w1 = 0 /\ w2 = 0
        /\ \E t \in InputsOf(game) : a = t[1] /\ b = t[2] /\ c = t[3]

\* field-solved quotient for an arbitrary remainder: q = (v - rem) / P in the native field
SolveQ(v, rem) == (((v - rem) % R) * PINV) % R

ProverMove ==
  /\ phase = "start" /\ phase' = "hinted"
  /\ CASE game = "rangecheck" -> \E h \in 0..(Lim-1), l \in 0..(Lim-1) : w1' = h /\ w2' = l
       [] game = "nbits"      -> \E v \in 0..(2^NBITS - 1) : w1' = v /\ w2' = 0     \* any digit vector = any value below 2^NBITS
       [] game = "reduce"     -> \E r \in 0..(Lim*Lim-1) : w2' = r /\ w1' = SolveQ(a, r)
       [] game = "muladd"     -> \E r \in 0..(Lim*Lim-1) : w2' = r /\ w1' = SolveQ((a*b + c) % R, r)
       [] game = "inverse"    -> \E i \in 0..(Lim*Lim-1) : w1' = i /\ w2' = 0
  /\ UNCHANGED <<game, a, b, c, verdict>>

Accepts ==
  CASE game = "rangecheck" -> (w1 * Lim + w2) % R = a /\ (w1 = Lim - 1 => w2 = 0)
    [] game = "nbits"      -> w1 % R = a
    [] game = "reduce"     -> (w1 * P + w2) % R = a % R /\ w1 < 2^QBITS /\ Canon(w2)
    [] game = "muladd"     -> (w1 * P + w2) % R = (a*b + c) % R /\ Canon(w1) /\ Canon(w2)
    [] game = "inverse"    -> Canon(w1) /\ (a = 0 \/ (w1 * a) % P = 1)
                              \* the product check goes through MulAdd, whose game shows it is the true product mod P

Verify == /\ phase = "hinted" /\ phase' = "done"
          /\ verdict' = IF Accepts THEN "accept" ELSE "reject"
          /\ UNCHANGED <<game, a, b, c, w1, w2>>

Next == ProverMove \/ Verify
Spec == Init /\ [][Next]_vars

Accepted == phase = "done" /\ verdict = "accept"

(* C06: the Goldilocks range check accepts only values below P; the n-bit check only values below 2^n *)
SoundRange == (Accepted /\ game = "rangecheck") => a < P
SoundNBits == (Accepted /\ game = "nbits") => a < 2^NBITS
(* C05: exactly one result is accepted - the true residue *)
UniqueReduce  == (Accepted /\ game = "reduce") => w2 = a % P
UniqueMulAdd  == (Accepted /\ game = "muladd") => w2 = (a*b + c) % P
UniqueInverse == (Accepted /\ game = "inverse" /\ a # 0) => (w1 * a) % P = 1 /\ w1 < P
(* completeness: the honest move is accepted (checked as constant-level facts) *)
HonestRange  == \A v \in 0..(P-1) : LET h == v \div Lim  l == v % Lim IN (h = Lim - 1 => l = 0)
HonestReduce == \A v \in 0..XMAX : (v \div P) < 2^QBITS
HonestMulAdd == \A x \in 0..(P-1), y \in 0..(P-1), z \in 0..(P-1) : ((x*y + z) \div P) < P
NoWrapReduce == (2^QBITS - 1) * P + (P - 1) < R
ASSUME HonestRange
ASSUME ("muladd" \in Games) => HonestMulAdd
ASSUME ("reduce" \in Games) => HonestReduce
================================================================================
