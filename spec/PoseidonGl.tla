------------------------------- MODULE PoseidonGl -------------------------------
(* plonky2's Poseidon permutation over Goldilocks (width 12, x^7, 4 + 22 + 4 rounds) as a SCHEDULE machine:
   a deterministic state machine whose single behaviour is the sequence of layer operations of the
   *reference* (naive) algorithm - per round: add the 12 round constants ALL_ROUND_CONSTANTS[12*r .. 12*r+11],
   S-box on all elements (full round) or on element 0 only (partial round), multiply by the MDS matrix
   (circulant MDS_MATRIX_CIRC plus diagonal MDS_MATRIX_DIAG).  The in-circuit implementation uses plonky2's
   *fast* partial rounds (other tables); equality with this schedule on all inputs is what C09 states.
   TLC checks the shape of the schedule and writes it out; Go applies the three naive layer functions in that
   order at the real field (harness/ref). *)
EXTENDS Integers, Sequences, FiniteSets, TLC, Json

CONSTANTS Width, HalfFull, Partial, SboxDegree

Rounds == 2 * HalfFull + Partial
IsFull(r) == r < HalfFull \/ r >= HalfFull + Partial

VARIABLES round, step, sched, usedConst, nSbox
vars == <<round, step, sched, usedConst, nSbox>>

Init == round = 0 /\ step = "ark" /\ sched = <<>> /\ usedConst = <<>> /\ nSbox = 0

Ark == /\ step = "ark" /\ round < Rounds
       /\ sched' = Append(sched, [op |-> "ARK", base |-> Width * round, n |-> Width, deg |-> 0])
       /\ usedConst' = usedConst \o [i \in 1..Width |-> Width * round + i - 1]
       /\ step' = "sbox" /\ UNCHANGED <<round, nSbox>>
Sbox == /\ step = "sbox"
        /\ sched' = Append(sched, [op |-> IF IsFull(round) THEN "SBOX_FULL" ELSE "SBOX_FIRST", base |-> 0, n |-> IF IsFull(round) THEN Width ELSE 1, deg |-> SboxDegree])
        /\ nSbox' = nSbox + (IF IsFull(round) THEN Width ELSE 1)
        /\ step' = "mds" /\ UNCHANGED <<round, usedConst>>
Mds == /\ step = "mds"
       /\ sched' = Append(sched, [op |-> "MDS", base |-> 0, n |-> Width, deg |-> 0])
       /\ round' = round + 1 /\ step' = "ark" /\ UNCHANGED <<usedConst, nSbox>>
Next == Ark \/ Sbox \/ Mds
Spec == Init /\ [][Next]_vars

Done == round = Rounds /\ step = "ark"
\* every round constant is used exactly once and in order; 3 layers per round; S-box count
ConstantsInOrder == \A i \in 1..Len(usedConst) : usedConst[i] = i - 1
ShapeAtEnd == Done => /\ Len(usedConst) = Width * Rounds
                      /\ Len(sched) = 3 * Rounds
                      /\ nSbox = 2 * HalfFull * Width + Partial
LayerOrder == \A i \in 1..Len(sched) : sched[i].op = (CASE i % 3 = 1 -> "ARK" [] i % 3 = 0 -> "MDS" [] OTHER -> sched[i].op)
Emit == Done => JsonSerialize("poseidon_gl_schedule.json", sched)
================================================================================
