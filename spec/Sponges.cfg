CONSTANTS MaxIn = 140  MaxOut = 12
SPECIFICATION Spec
INVARIANTS AbsorbedInOrder PermCount AllAbsorbed EmptyNoPerm Emit
POSTCONDITION Post
