---------------------------------- MODULE Gates ----------------------------------
(* plonky2's gate polynomials as TERMS over the local wires W(i), the local constants C(i) (after the selector constants are
   stripped) and the public-input hash PI(i), written from plonky2's gate definitions (wire layouts included), and the
   selector filter and the combination of all gates of a circuit (plonk/gates/evaluate_gates.go).

   A degree-2 "algebra" element (plonky2's ExtensionAlgebra over GF(p^2), Y^2 = 7) is a pair <<t0, t1>> of terms held in two
   consecutive wires.  Every operator returns the sequence of constraint terms of the gate, in plonky2's order.

   The Poseidon gate is specified structurally (PoseidonGateDeps: which wires each constraint depends on) and by the requirement
   that rows built from the reference permutation vanish; its constraint values use plonky2's fast partial-round tables, which
   are deliberately not part of the specification's data. *)
EXTENDS Terms, Json

W(i) == Var("w_" \o ToString(i))
C(i) == Var("c_" \o ToString(i))
PI(i) == Var("pi_" \o ToString(i))

(* ---- algebra helpers ------------------------------------------------------------------------------------------ *)
AW(i) == <<W(i), W(i + 1)>>
ASeven == NatT(7)
AAdd(a, b) == <<Add(a[1], b[1]), Add(a[2], b[2])>>
ASub(a, b) == <<Sub(a[1], b[1]), Sub(a[2], b[2])>>
AMul(a, b) == <<Add(Mul(a[1], b[1]), Mul(ASeven, Mul(a[2], b[2]))), Add(Mul(a[1], b[2]), Mul(a[2], b[1]))>>
AScal(s, a) == <<Mul(s, a[1]), Mul(s, a[2])>>
AOf(t) == <<t, Zero>>
AOne == <<One, Zero>>
AZero == <<Zero, Zero>>
Flat(a) == <<a[1], a[2]>>
RECURSIVE FlatAll(_)
FlatAll(as) == IF as = <<>> THEN <<>> ELSE Flat(Head(as)) \o FlatAll(Tail(as))

(* ---- the gates ------------------------------------------------------------------------------------------------- *)
ArithmeticGate(n) == [i \in 1..n |-> LET b == 4 * (i - 1) IN
                        Sub(W(b + 3), Add(Mul(Mul(W(b), W(b + 1)), C(0)), Mul(W(b + 2), C(1))))]

ArithmeticExtensionGate(n) == FlatAll([i \in 1..n |-> LET b == 8 * (i - 1) IN
                        ASub(AW(b + 6), AAdd(AScal(C(1), AW(b + 4)), AScal(C(0), AMul(AW(b), AW(b + 2)))))])

MulExtensionGate(n) == FlatAll([i \in 1..n |-> LET b == 6 * (i - 1) IN ASub(AW(b + 4), AScal(C(0), AMul(AW(b), AW(b + 2))))])

BaseSumGate(limbs, base) ==
    <<Sub(HornerT([i \in 1..limbs |-> W(i)], NatT(base)), W(0))>>
    \o [i \in 1..limbs |-> ProdT([k \in 1..base |-> Sub(W(i), NatT(k - 1))])]

ConstantGate(n) == [i \in 1..n |-> Sub(C(i - 1), W(i - 1))]

PublicInputGate == [i \in 1..4 |-> Sub(W(i - 1), PI(i - 1))]

NoopGate == <<>>

\* wires: base 0, power bits 1..n (little-endian), output n+1, intermediate values n+2 .. 2n+1
ExponentiationGate(n) ==
    [i \in 1..n |-> LET prev == IF i = 1 THEN One ELSE Mul(W(n + i), W(n + i))           \* intermediate (i-2), squared
                        bit == W(1 + (n - i))                                            \* bits are consumed big-endian
                        mulBy == Sub(Mul(bit, W(0)), Sub(bit, One))                      \* bit ? base : 1
                    IN Sub(Mul(prev, mulBy), W(n + 1 + i))]
    \o <<Sub(W(n + 1), W(2 * n + 1))>>

\* per copy: access index, claimed element, 2^bits list items; then extra constants; the bit wires are non-routed
RandomAccessGate(bits, copies, extra) ==
    LET vec == 2^bits
        routed == (2 + vec) * copies + extra
        bitw(i, c) == W(routed + c * bits + i)
        RECURSIVE Fold(_, _, _)
        Fold(items, i, c) == IF i = bits THEN items
                             ELSE Fold([k \in 1..(Len(items) \div 2) |->
                                          Add(items[2 * k - 1], Mul(bitw(i, c), Sub(items[2 * k], items[2 * k - 1])))], i + 1, c)
        Copy(c) == [i \in 1..bits |-> Sub(Mul(bitw(i - 1, c), bitw(i - 1, c)), bitw(i - 1, c))]
                   \o <<Sub(HornerT([i \in 1..bits |-> bitw(i - 1, c)], NatT(2)), W((2 + vec) * c))>>
                   \o <<Sub(Fold([k \in 1..vec |-> W((2 + vec) * c + 2 + k - 1)], 0, c)[1], W((2 + vec) * c + 1))>>
        RECURSIVE Copies(_)
        Copies(c) == IF c = copies THEN <<>> ELSE Copy(c) \o Copies(c + 1)
    IN Copies(0) \o [i \in 1..extra |-> Sub(C(i - 1), W((2 + vec) * copies + i - 1))]

\* output (0,1), alpha (2,3), old accumulator (4,5), base-field coefficients 6..6+n-1, accumulators after them (the last is the output)
ReducingGate(n) ==
    LET acc(i) == IF i = 0 THEN AW(4) ELSE IF i = n THEN AW(0) ELSE AW(6 + n + 2 * (i - 1)) IN
    FlatAll([i \in 1..n |-> ASub(AAdd(AMul(acc(i - 1), AW(2)), AOf(W(6 + i - 1))), acc(i))])

ReducingExtensionGate(n) ==
    LET acc(i) == IF i = 0 THEN AW(4) ELSE IF i = n THEN AW(0) ELSE AW(6 + 2 * n + 2 * (i - 1)) IN
    FlatAll([i \in 1..n |-> ASub(AAdd(AMul(acc(i - 1), AW(2)), AW(6 + 2 * (i - 1))), acc(i))])

\* inputs: algebra elements in wires (2i, 2i+1), outputs in (24 + 2i, 25 + 2i); MDS = circulant(circ) + diagonal(diag)
MdsCirc == <<17, 15, 41, 16, 2, 28, 13, 13, 39, 18, 34, 20>>
MdsDiag == <<8, 0, 0, 0, 0, 0, 0, 0, 0, 0, 0, 0>>
PoseidonMdsGate ==
    FlatAll([r \in 1..12 |->
       LET RECURSIVE S(_)
           S(i) == IF i = 12 THEN AScal(NatT(MdsDiag[r]), AW(2 * (r - 1)))
                   ELSE AAdd(AScal(NatT(MdsCirc[i + 1]), AW(2 * ((i + r - 1) % 12))), S(i + 1))
       IN ASub(AW(24 + 2 * (r - 1)), S(0))])

\* wires: shift 0; values (1+2i, 2+2i), i < N = 2^sb; evaluation point (1+2N, 2+2N); evaluation value (3+2N, 4+2N); intermediates
\* from 5+2N: I = (N-2) div (d-1) evaluations, then I products; the shifted evaluation point after them.  BW(j) = barycentric weight j.
BW(j) == Var("bw_" \o ToString(j))
CosetInterpolationGate(sb, d) ==
    LET N == 2^sb
        I == (N - 2) \div (d - 1)
        start == 5 + 2 * N
        val(j) == AW(1 + 2 * j)
        ipEval(i) == AW(start + 2 * i)
        ipProd(i) == AW(start + 2 * (I + i))
        shifted == AW(start + 4 * I)
        dom(j) == Exp(Root(sb), j)
        \* one barycentric step for point j
        StepE(ev, pr, j) == AAdd(AMul(ev, ASub(shifted, AOf(dom(j)))), AMul(AScal(BW(j), val(j)), pr))
        StepP(pr, j) == AMul(pr, ASub(shifted, AOf(dom(j))))
        RECURSIVE Run(_, _, _, _)
        Run(ev, pr, j, hi) == IF j = hi THEN <<ev, pr>> ELSE Run(StepE(ev, pr, j), StepP(pr, j), j + 1, hi)
        first == Run(AZero, AOne, 0, d)
        hiOf(i) == LET s == 1 + (d - 1) * (i + 1) IN IF s + d - 1 > N THEN N ELSE s + d - 1
        RECURSIVE Chain(_, _)
        Chain(i, cur) == IF i = I THEN <<Flat(ASub(AW(3 + 2 * N), cur[1]))>>
                         ELSE <<Flat(ASub(ipEval(i), cur[1])) \o Flat(ASub(ipProd(i), cur[2]))>>
                              \o Chain(i + 1, Run(ipEval(i), ipProd(i), 1 + (d - 1) * (i + 1), hiOf(i)))
        RECURSIVE Cat(_)
        Cat(ss) == IF ss = <<>> THEN <<>> ELSE Head(ss) \o Cat(Tail(ss))
    IN Flat(AAdd(AScal(Mul(W(0), Sub(Zero, One)), shifted), AW(1 + 2 * N))) \o Cat(Chain(0, first))

(* ---- selector filter and combination ------------------------------------------------------------------------------- *)
\* the filter of the gate in row `row` of a selector group [lo, hi): prod_{i in group, i # row} (i - s) * (UNUSED - s if there are several selectors)
Unused == <<"big", "4294967295">>
Filter(row, lo, hi, s, many) ==
    LET others == [k \in 1..(hi - lo - 1) |-> LET i == lo + k - 1 IN IF i < row THEN i ELSE i + 1] IN
    Mul(ProdT([k \in 1..Len(others) |-> Sub(NatT(others[k]), s)]), IF many THEN Sub(Unused, s) ELSE One)

GateTerms(g) ==
  CASE g.kind = "ArithmeticGate" -> ArithmeticGate(g.p[1])
    [] g.kind = "ArithmeticExtensionGate" -> ArithmeticExtensionGate(g.p[1])
    [] g.kind = "MulExtensionGate" -> MulExtensionGate(g.p[1])
    [] g.kind = "BaseSumGate" -> BaseSumGate(g.p[1], g.p[2])
    [] g.kind = "ConstantGate" -> ConstantGate(g.p[1])
    [] g.kind = "PublicInputGate" -> PublicInputGate
    [] g.kind = "NoopGate" -> NoopGate
    [] g.kind = "ExponentiationGate" -> ExponentiationGate(g.p[1])
    [] g.kind = "RandomAccessGate" -> RandomAccessGate(g.p[1], g.p[2], g.p[3])
    [] g.kind = "ReducingGate" -> ReducingGate(g.p[1])
    [] g.kind = "ReducingExtensionGate" -> ReducingExtensionGate(g.p[1])
    [] g.kind = "PoseidonMdsGate" -> PoseidonMdsGate
    [] g.kind = "CosetInterpolationGate" -> CosetInterpolationGate(g.p[1], g.p[2])

\* local constants seen by a gate: the selector constants are stripped, so gate constant k is the opening numSelectors + k
RECURSIVE Shift(_, _)
Shift(t, k) ==
  IF t[1] = "var" /\ Len(t[2]) > 2 /\ SubSeq(t[2], 1, 2) = "c_"
  THEN Var("lc_" \o ToString(k) \o "+" \o SubSeq(t[2], 3, Len(t[2])))
  ELSE IF t[1] \in {"add", "sub", "mul"} THEN <<t[1], Shift(t[2], k), Shift(t[3], k)>>
  ELSE IF t[1] \in {"inv", "c0", "c1"} THEN <<t[1], Shift(t[2], k)>>
  ELSE IF t[1] = "exp" THEN <<"exp", Shift(t[2], k), t[3]>>
  ELSE t
\* combined constraints: position-wise sum over the gates of filter * constraint; LC(i) is the i-th local constant opening
LC(i) == Var("lc_" \o ToString(i) \o "+0")
Combined(gs, selIdx, groups, nsel, ncons) ==
    [pos \in 1..ncons |->
        SumT([gi \in 1..Len(gs) |->
                LET ts == GateTerms(gs[gi])
                    grp == groups[selIdx[gi] + 1]
                IN IF pos <= Len(ts)
                   THEN Mul(Shift(ts[pos], nsel), Filter(gi - 1, grp[1], grp[2], LC(selIdx[gi]), nsel > 1))
                   ELSE Zero])]

(* ---- Poseidon gate structure ------------------------------------------------------------------------------------------- *)
\* wires: inputs 0..11, outputs 12..23, swap 24, deltas 25..28, first full rounds' S-box inputs 29..64 (rounds 1..3),
\* partial rounds' S-box inputs 65..86, second full rounds' 87..134.  Constraints (123):
\*   0 swap booleanity; 1..4 deltas; 5..40 full-round-0 S-box inputs (rounds 1..3 x 12); 41..62 partial S-box inputs;
\*   63..110 second full rounds (4 x 12); 111..122 outputs.
PoseidonNumConstraints == 1 + 4 + 36 + 22 + 48 + 12
================================================================================
