CONSTANTS NQ = 2  NSTEPS = 2  CAP = 4  KeyPinned = TRUE  EmitCases = FALSE
SPECIFICATION Spec
INVARIANTS Sound Completeness NonCanonOnlySweep
PROPERTY Monotone
