------------------------------ MODULE FriAlgebraEmit ------------------------------
(* Term generator: reads the parameters of the real circuits from fri_request.json and writes the FriAlgebra terms
   instantiated for them to fri_terms.json (evaluated at the real field by harness/terms). *)
EXTENDS FriAlgebra

Req == JsonDeserialize("fri_request.json")
Terms == [subgroup |-> [i \in 1..Len(Req.indices) |-> [n |-> Req.nlog, index |-> Req.indices[i], term |-> SubgroupX(Req.indices[i], Req.nlog)]],
          combine  |-> [i \in 1..Len(Req.sizes) |-> [sizes |-> Req.sizes[i], term |-> Combine(Req.sizes[i])]],
          fold     |-> [i \in 1..(2^Req.arity_bits) |-> [arity_bits |-> Req.arity_bits, idx |-> i - 1, term |-> Fold(Req.arity_bits, i - 1)]],
          final    |-> [i \in 1..Len(Req.final_lens) |-> [len |-> Req.final_lens[i], term |-> FinalPoly(Req.final_lens[i])]]]
ASSUME JsonSerialize("fri_terms.json", Terms)
VARIABLE z
Init == z = 0
Next == UNCHANGED z
================================================================================
