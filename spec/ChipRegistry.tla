-------------------------------- MODULE ChipRegistry --------------------------------
(* Beyond the listed properties: goldilocks.New keeps one chip per builder in a package-level map, under a mutex, and in the
   commit mode registers the chip's deferred flush exactly once; rangeCheckerCheck appends to the chip's collected list under the
   chip's own mutex.  Several goroutines may construct chips for the same builder (every gadget calls gl.New(api)) and request
   checks concurrently.  Each critical section is one action; WithMutex = FALSE is the model without the locks (TLC must report
   the lost update), which is what a refactor that drops the lock would produce.
     AtMostOneChip      the registry holds at most one chip per builder and every caller got that chip
     OneFlush           exactly one deferred flush is registered per commit-mode chip
     NoLostRequest      at the end the collected list has one entry per request made *)
EXTENDS Integers, Sequences, FiniteSets, TLC

CONSTANTS Threads, ReqPerThread, WithMutex

VARIABLES registry,   \* set of chips created for the builder (ids)
          flushes,    \* number of deferred flushes registered
          got,        \* thread -> chip id it received (0 = none yet)
          pc,         \* thread -> "start" | "checked" | "created" | "req" | "done"
          lock,       \* holder of the registry mutex (0 = free)
          seen,       \* thread -> what the thread read from the registry before creating
          collected,  \* length of the chip's collected list
          tmp,        \* thread -> the length it read before appending (models a non-atomic append)
          made        \* thread -> requests made
vars == <<registry, flushes, got, pc, lock, seen, collected, tmp, made>>

Init == /\ registry = {} /\ flushes = 0 /\ got = [t \in Threads |-> 0] /\ pc = [t \in Threads |-> "start"]
        /\ lock = 0 /\ seen = [t \in Threads |-> {}] /\ collected = 0 /\ tmp = [t \in Threads |-> 0] /\ made = [t \in Threads |-> 0]

\* New: lock; look the builder up
Lookup(t) == /\ pc[t] = "start" /\ (WithMutex => lock = 0)
             /\ lock' = IF WithMutex THEN t ELSE lock
             /\ seen' = [seen EXCEPT ![t] = registry]
             /\ pc' = [pc EXCEPT ![t] = "checked"]
             /\ UNCHANGED <<registry, flushes, got, collected, tmp, made>>
\* New: return the existing chip, or create one, register its flush, store it; unlock
Create(t) == /\ pc[t] = "checked"
             /\ IF seen[t] # {}
                THEN /\ got' = [got EXCEPT ![t] = CHOOSE c \in seen[t] : TRUE] /\ UNCHANGED <<registry, flushes>>
                ELSE /\ registry' = registry \cup {t} /\ flushes' = flushes + 1 /\ got' = [got EXCEPT ![t] = t]
             /\ lock' = IF WithMutex THEN 0 ELSE lock
             /\ pc' = [pc EXCEPT ![t] = "req"]
             /\ UNCHANGED <<seen, collected, tmp, made>>
\* rangeCheckerCheck (commit mode): append to the collected list under the chip's mutex (one atomic step with the mutex,
\* read-then-write without it)
AppendReq(t) ==
             /\ pc[t] = "req" /\ made[t] < ReqPerThread
             /\ IF WithMutex
                THEN /\ collected' = collected + 1 /\ made' = [made EXCEPT ![t] = made[t] + 1] /\ UNCHANGED <<tmp, pc>>
                ELSE /\ tmp' = [tmp EXCEPT ![t] = collected] /\ pc' = [pc EXCEPT ![t] = "write"] /\ UNCHANGED <<collected, made>>
             /\ UNCHANGED <<registry, flushes, got, lock, seen>>
Write(t) == /\ pc[t] = "write" /\ collected' = tmp[t] + 1 /\ made' = [made EXCEPT ![t] = made[t] + 1]
            /\ pc' = [pc EXCEPT ![t] = "req"] /\ UNCHANGED <<registry, flushes, got, lock, seen, tmp>>
Finish(t) == /\ pc[t] = "req" /\ made[t] = ReqPerThread /\ pc' = [pc EXCEPT ![t] = "done"]
             /\ UNCHANGED <<registry, flushes, got, lock, seen, collected, tmp, made>>
Next == \E t \in Threads : Lookup(t) \/ Create(t) \/ AppendReq(t) \/ Write(t) \/ Finish(t)
Spec == Init /\ [][Next]_vars

AllDone == \A t \in Threads : pc[t] = "done"
AtMostOneChip == Cardinality(registry) <= 1 /\ (AllDone => \A a \in Threads, b \in Threads : got[a] = got[b])
OneFlush == AllDone => flushes = 1
NoLostRequest == AllDone => collected = Cardinality(Threads) * ReqPerThread
================================================================================
