CONSTANTS
  KeyPinned = TRUE
SPECIFICATION TraceSpec
INVARIANTS SafetyOnTrace HighWater
POSTCONDITION TraceAccepted
