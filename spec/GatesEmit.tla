-------------------------------- MODULE GatesEmit --------------------------------
(* Term generator for the gate polynomials: reads gate parameterisations and selector layouts from gates_request.json and writes
   gates_terms.json (evaluated at the real field by harness/terms and compared with Gate.EvalUnfiltered / EvaluateGateConstraints). *)
EXTENDS Gates
Req == JsonDeserialize("gates_request.json")
Out == [gates |-> [i \in 1..Len(Req.gates) |-> [kind |-> Req.gates[i].kind, p |-> Req.gates[i].p, terms |-> GateTerms(Req.gates[i])]],
        layouts |-> [i \in 1..Len(Req.layouts) |->
                       LET l == Req.layouts[i] IN
                       [gates |-> l.gates, sel |-> l.sel, groups |-> l.groups, nsel |-> l.nsel, ncons |-> l.ncons,
                        terms |-> Combined(l.gates, l.sel, l.groups, l.nsel, l.ncons)]]]
ASSUME JsonSerialize("gates_terms.json", Out)
VARIABLE z
Init == z = 0
Next == UNCHANGED z
================================================================================
