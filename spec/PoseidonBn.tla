------------------------------- MODULE PoseidonBn -------------------------------
(* The PoseidonBN128 permutation of the plonky2 fork (crypto/plonky2_bn128/src/poseidon_bn128.rs, after iden3's
   optimised Poseidon: width 4, x^5, 8 full and 56 partial rounds) as a schedule machine over the constant
   tables C (88), S (392), M, P of that reference:
     ARK(0); first half: 3 x [EXP5_ALL, ARK((i+1)*4), MIX M]; EXP5_ALL, ARK(16), MIX P;
     56 x [EXP5_FIRST, ADDC(20+i), SPARSE(7*i)];
     second half: 3 x [EXP5_ALL, ARK(20+56+4*i), MIX M]; EXP5_ALL, MIX M.
   TLC checks that every constant of C is used exactly once, every S constant exactly once, and writes the
   schedule out for the Go evaluator. *)
EXTENDS Integers, Sequences, FiniteSets, TLC, Json

CONSTANTS Width, Full, Partial

VARIABLES pc, i, sched, usedC, usedS
vars == <<pc, i, sched, usedC, usedS>>

Op(o, a) == [op |-> o, arg |-> a]
Init == pc = "ark0" /\ i = 0 /\ sched = <<>> /\ usedC = <<>> /\ usedS = <<>>

Ark0 == /\ pc = "ark0" /\ sched' = Append(sched, Op("ARK", 0)) /\ usedC' = usedC \o [j \in 1..Width |-> j - 1]
        /\ pc' = "first" /\ UNCHANGED <<i, usedS>>
First == /\ pc = "first"
         /\ IF i < Full \div 2 - 1
            THEN /\ sched' = sched \o <<Op("EXP5_ALL", 0), Op("ARK", (i + 1) * Width), Op("MIX_M", 0)>>
                 /\ usedC' = usedC \o [j \in 1..Width |-> (i + 1) * Width + j - 1]
                 /\ i' = i + 1 /\ pc' = pc
            ELSE /\ sched' = sched \o <<Op("EXP5_ALL", 0), Op("ARK", (Full \div 2) * Width), Op("MIX_P", 0)>>
                 /\ usedC' = usedC \o [j \in 1..Width |-> (Full \div 2) * Width + j - 1]
                 /\ i' = 0 /\ pc' = "partial"
         /\ UNCHANGED usedS
PartialRound == /\ pc = "partial"
                /\ IF i < Partial
                   THEN /\ sched' = sched \o <<Op("EXP5_FIRST", 0), Op("ADDC", (Full \div 2 + 1) * Width + i), Op("SPARSE", (2 * Width - 1) * i)>>
                        /\ usedC' = Append(usedC, (Full \div 2 + 1) * Width + i)
                        /\ usedS' = usedS \o [j \in 1..(2 * Width - 1) |-> (2 * Width - 1) * i + j - 1]
                        /\ i' = i + 1 /\ pc' = pc
                   ELSE /\ i' = 0 /\ pc' = "second" /\ UNCHANGED <<sched, usedC, usedS>>
Second == /\ pc = "second"
          /\ IF i < Full \div 2 - 1
             THEN /\ sched' = sched \o <<Op("EXP5_ALL", 0), Op("ARK", (Full \div 2 + 1) * Width + Partial + i * Width), Op("MIX_M", 0)>>
                  /\ usedC' = usedC \o [j \in 1..Width |-> (Full \div 2 + 1) * Width + Partial + i * Width + j - 1]
                  /\ i' = i + 1 /\ pc' = pc
             ELSE /\ sched' = sched \o <<Op("EXP5_ALL", 0), Op("MIX_M", 0)>>
                  /\ pc' = "done" /\ UNCHANGED <<i, usedC>>
          /\ UNCHANGED usedS
Next == Ark0 \/ First \/ PartialRound \/ Second
Spec == Init /\ [][Next]_vars

InOrder(s) == \A j \in 1..Len(s) : s[j] = j - 1
ConstantsOnce == InOrder(usedC) /\ InOrder(usedS)
ShapeAtEnd == pc = "done" => /\ Len(usedC) = (Full + 1) * Width + Partial - Width  \* 88 = 20 + 56 + 12
                             /\ Len(usedS) = (2 * Width - 1) * Partial
                             /\ Len(sched) = 1 + 3 * (Full \div 2) + 3 * Partial + 3 * (Full \div 2 - 1) + 2
Emit == pc = "done" => JsonSerialize("poseidon_bn_schedule.json", sched)
================================================================================
