"""C17 - non-canonical encodings of proof elements are rejected everywhere.

M3: Verifier.tla - a "noncanon" perturbation of any Goldilocks-valued leaf class ends in reject and ONLY the sweep can reject it
    (NonCanonOnlySweep: the residue, all that the algebra sees, is unchanged); GlGadgets "rangecheck" game / LimbRule (C06) for the
    canonical check itself.
M2: the set of proof leaves that received a complete canonical check in the honest run of the real code equals the set of
    Goldilocks-valued proof leaves the shape prescribes (LeafSets.tla, a constant-level set equality), with a negative self-test.
M1: leaf + k*p for k in {1, 2, 2^64, largest k with value < r} on the whole verifier: seeded sample of every class (quick), every
    position (thorough); every case must be rejected.
"""
import json
import os
import random
from concurrent.futures import ThreadPoolExecutor

from . import common
from .verifier_common import pick_instances, ALL_INSTANCES
from .c11 import shape_of
from .c13 import common_of

KS = ["1", "2", "18446744073709551616", "max"]


def leafsets_files(ctx, inst, k, path):
    sh = shape_of(inst, k)
    cd = common_of(inst)
    c = cd["config"]
    nc = c["num_challenges"]
    leaf = [cd["num_constants"] + c["num_routed_wires"], c["num_wires"], nc * (1 + cd["num_partial_products"]), nc * cd["quotient_degree_factor"]]
    ar = cd["fri_params"]["reduction_arity_bits"]
    name = "LeafSetsInst_" + inst
    mod = "---- MODULE %s ----\nEXTENDS LeafSets\nInstLeafLens == <<%s>>\n====\n" % (name, ", ".join(map(str, leaf)))
    cfg = ("CONSTANTS NConstants = %d NSigmas = %d NWires = %d NZs = %d NPartial = %d NQuotient = %d NRounds = %d NSteps = %d Arity = %d FinalLen = %d LeafLens <- InstLeafLens\n"
           "INIT Init\nNEXT Next\nINVARIANT SetsEqual\n"
           % (sh["NConstants"], sh["NSigmas"], sh["NWires"], sh["NZs"], sh["NPartial"], sh["NQuotient"], k, len(ar), 2 ** ar[0] if ar else 1, sh["FinalLen"]))
    d = ctx.scratch("ls-" + inst)
    open(os.path.join(d, name + ".tla"), "w").write(mod)
    open(os.path.join(d, name + ".cfg"), "w").write(cfg)
    return name, {os.path.join(d, name + ".tla"): name + ".tla", os.path.join(d, name + ".cfg"): name + ".cfg", path: "canon_leaves.ndjson"}


# hint sites outside GlGadgets' four inside this code region are probed with generic alternatives after run() (bin/check, common.Ctx.foreign)
FOREIGN = (("rangeCheckProof", "RangeCheckQE"), ("testdata",))


def run(ctx):
    ctx.rule = ("(instance, Goldilocks-valued proof leaf, k) with the leaf replaced by value + k*p, k in {1, 2, 2^64, max}; quick: a seeded stride through all "
                "leaves of two proofs (every class is hit), thorough: every position of every proof; skipped when value + k*p >= r")
    ctx.assumptions += ["public inputs are not range-checked by the plain verifier circuit by design (stated in verifier.go); they are C03's subject",
                        "sibling hashes and cap entries are BN254 elements and have no non-canonical encoding below r"]
    thorough = ctx.tier == "thorough"
    ctx.tlc("Verifier", "Verifier.cfg", workers=8)
    ctx.tlc("GlGadgets", "GlGadgets_c06.cfg", timeout=600)
    rnd = random.Random(ctx.seed * 61 + 17)
    insts = pick_instances(ctx)
    # ---- M2 -------------------------------------------------------------------------------------------------------
    targeted = []
    for inst in insts:
        k = 3
        cf = os.path.join(ctx.scratch("canon"), inst + ".ndjson")
        cr = ctx.run_driver("wrapper", {"part": "canonset", "instance": inst, "k": k, "ks": [cf]}, tag="canon-" + inst)
        name, files = leafsets_files(ctx, inst, k, cf)
        res = ctx.tlc(name, name + ".cfg", workers=1, extra_files=files, name="ls-" + inst)
        if res["ok"]:
            ctx.traces_validated += 1
        else:
            ctx.leads.append("LeafSets: the canonically checked leaves of %s differ from the prescribed set" % inst)
            ctx.extra["leafsets_tail_" + inst] = res["output"][-800:]
            # the trace disagreement is a lead; the real code decides: every Goldilocks-valued proof leaf that did not receive a
            # complete canonical check is presented as value + k*p (seeded sample when there are many)
            checked = set(json.loads(x)["leaf"] for x in open(cf) if x.strip())
            missing = [p for p in (cr.get("info") or {}).get("gl_proof_leaves", []) if p not in checked]
            rnd.shuffle(missing)
            # one leaf of every class first (when a change unchecks everything, every kind of position is still tried), then seeded ones
            import re as _re
            first, seen_cls = [], set()
            for p in missing:
                cl = _re.sub(r"\[\d+\]", "[]", p)
                if cl not in seen_cls:
                    seen_cls.add(cl)
                    first.append(p)
            missing = sorted((first + [p for p in missing if p not in first])[:48 if thorough else max(16, len(first))])
            ctx.extra["unchecked_leaves_" + inst] = missing[:16]
            # ... on every available proof: whether value + k*p still fits below the next bound depends on the value (a proof-of-work
            # witness of 1836 + p passes a 64-bit check, one of 2^60 + p does not)
            for other in ALL_INSTANCES:
                for i in range(0, len(missing), 4):
                    targeted.append({"part": "noncanon", "instance": other, "k": k, "ks": KS, "paths": missing[i:i + 4], "shard": 900 + i, "nshards": 0, "stride": 1})
            continue
        if inst == insts[0]:
            recs = [json.loads(x) for x in open(cf)]
            j = rnd.randrange(len(recs))
            bad = os.path.join(ctx.scratch("canon"), "bad.ndjson")
            common.write_ndjson(bad, [r for i, r in enumerate(recs) if i != j])
            name, files = leafsets_files(ctx, inst, k, bad)
            r2 = ctx.tlc(name, name + ".cfg", workers=1, extra_files=files, name="ls-neg")
            if r2["ok"]:
                ctx.deferred.append("LeafSets self-test: a trace with one leaf removed was accepted")  # incomplete run (exit 2 unless a violation was reproduced); the remaining parts still run
            ctx.extra["trace_negative_selftests"] = 1
    # ---- M1 -------------------------------------------------------------------------------------------------------
    jobs = list(targeted)
    for inst in insts:
        if thorough:
            # every position of every proof with all four offsets (the sweep is the first thing the verifier does, a rejected run ends there:
            # about 218k runs in about 11 minutes on 16 cores)
            nsh = common.NCPU
            for i in range(nsh):
                jobs.append({"part": "noncanon", "instance": inst, "k": 28, "ks": KS, "shard": i, "nshards": nsh, "stride": 1})
        else:
            for i in range(8):
                jobs.append({"part": "noncanon", "instance": inst, "k": 4, "ks": [KS[i % 4], KS[(i + 1) % 4]], "shard": i, "nshards": 8, "stride": 7 + (ctx.seed % 5)})

    # the sweep under the other range-check mechanisms (their checks are collected and delivered later, or decomposed into bits): one leaf of
    # every class with offset 1 at one query round
    inst0 = insts[-1]  # (cr holds the leaf list of the last instance of the loop above)
    cls_first = {}
    for pth in (cr.get("info") or {}).get("gl_proof_leaves", []):
        import re as _re2
        cls_first.setdefault(_re2.sub(r"\[\d+\]", "[]", pth), pth)
    reps = sorted(cls_first.values())
    for mode in ("commit", "plain"):
        for i in range(0, len(reps), 4):
            jobs.append({"part": "noncanon", "instance": inst0, "k": 1, "mode": mode, "ks": ["1"], "paths": reps[i:i + 4], "shard": 800 + i, "nshards": 0, "stride": 1})
    # a circuit description with a lower grinding difficulty (0, 1): the proof stays valid, the proof-of-work witness stays a proof element
    pw = [p for p in reps if p.endswith("PowWitness")]
    for pb in (0, 1):
        jobs.append({"part": "noncanon", "instance": inst0, "k": 1, "ks": ["1", KS[ctx.seed % 4]], "paths": pw + reps[:1], "pow_bits": pb, "shard": 900 + pb, "nshards": 0, "stride": 1})
    # the second encoding written into the proof document itself (possible where value + p is a 64-bit word: small witnesses of the proof of work)
    for inst in sorted(set(insts) | {"epoch4R"}):  # (epoch4R's witness is small: value + p is a 64-bit word)
        jobs.append({"part": "noncanon", "instance": inst, "k": 1, "doc_pow": True, "ks": ["1"], "shard": 950, "nshards": 0, "stride": 1})
    # one verifier chip used for two proofs (a batching caller): the sweep of the second proof must not be weakened by the first
    for pair in (("epochCb+epoch4R", "testdata+roottest") if thorough else ("epochCb+epoch4R",)):
        jobs.append({"part": "two", "instance": pair, "k": 1, "ks": ["noncanon"], "stride": 24 if thorough else 6, "shard": 70})

    def one(j):
        return ctx.run_driver("wrapper", j, tag="nc-%s-%d" % (j["instance"], j["shard"]), timeout=3400)

    after = 0
    with ThreadPoolExecutor(max_workers=common.NCPU) as ex:
        for rr in ex.map(one, jobs):
            ctx.absorb(rr, "wrapper")
            after += (rr.get("info") or {}).get("rejected_after_sweep", 0)
    ctx.extra["rejected_by_a_later_check_than_the_sweep"] = after
    if after:
        ctx.leads.append("SPEC-DRIFT: %d non-canonical cases were rejected by a later check than the sweep" % after)


def replay(ctx, rec):
    c = rec["case"]
    r = ctx.run_driver("wrapper", {"part": "noncanon", "instance": c["instance"], "k": c["k"], "ks": [c["ks"]], "shard": 0, "nshards": 0, "stride": 1})
    hits = [v for v in r["violations"] if c["path"] in v["detail"]]
    for v in hits:
        print("REPRODUCED", v["sig"], "::", v["detail"])
    print("VIOLATION property=C17 replay=(replayed)" if hits else "not reproduced on the current tree")
    return 1 if hits else 0
