"""C03 - on-chain public inputs bind exactly the plonky2 public inputs.

M3: Wrapper.tla (scaled field): with a width check on the limbs the packing is injective for a fixed inner statement, accepted
    public values are below 2^(4W) and honest limbs are accepted; without it TLC exhibits the collision limb + k*P
    (Wrapper_nocheck.cfg must report it). apalache/Packing.tla at the real constants: InitLimbs32 (injective, < 2^128, no wrap once
    limbs are < 2^32) and InitLimbsFree (a second limb vector exists without the check).
M1: the real CircuitFixed on the circuit-A proofs: honest packing accepted; limb_i + k*p for every limb index and
    k in {1, 2, 2^64, max}, pairs of limbs, limbs of more than 32 bits, wrong / swapped public values, swapped limbs, random
    statements must be rejected; the 97-input circuit must be refused by the wrapper (checked in C02).
The Solidity contract truncates each public value to 128 bits (uint128(array[i])): that is why BelowWord matters; the contract is
read, not executed (no EVM toolchain offline).
"""
import os
import random
from concurrent.futures import ThreadPoolExecutor

from . import common


def run(ctx):
    ctx.rule = ("(instance, k=1, limb substitution): limb_i + k*p for all 16 i x k in {1,2,2^64,max}; seeded pairs; limb + 2^32; public value +1 / swapped; "
                "swapped limbs; random 16-limb statements; distinct = distinct substitutions")
    ctx.assumptions += ["the Solidity side is not executed; its uint128 truncation is quoted as the reason accepted public values must be below 2^128"]
    thorough = ctx.tier == "thorough"
    ctx.tlc("Wrapper", "Wrapper.cfg", workers=8)
    ctx.tlc("Wrapper", "Wrapper_nocheck.cfg", workers=8, expect_violation=True)
    # beyond the listed property, unbound: the on-chain contract's state machine; its 128-bit truncation is lossless only under BelowWord
    ctx.tlc("ContractState", "ContractState.cfg", workers=4)
    ctx.tlc("ContractState", "ContractState_unbounded.cfg", workers=4, expect_violation=True)
    for init, inv, want in (("InitLimbs32", "InvLimbs32", "NoError"), ("InitLimbsFree", "InvLimbsFree", "Error")):
        a = ctx.apalache_check(os.path.join(common.SPEC, "apalache", "Packing.tla"), init, inv, name="pack-" + init)
        ctx.apalache[-1]["expected"] = want
        if a["outcome"] != want:
            raise common.MachineryError("Packing %s: expected %s got %s" % (init, want, a["outcome"]))
    rnd = random.Random(ctx.seed * 71 + 3)
    jobs = []
    for inst in ("testdata", "roottest"):
        cases = [{"kind": "honest", "limbs": [], "k": []}]
        ks = ["1", "2", "18446744073709551616", "max"]
        for i in range(16):
            for k in (ks if thorough else [ks[(i + ctx.seed) % 4], "1"]):
                cases.append({"kind": "limb+kp", "limbs": [i], "k": [k]})
        for _ in range(12 if thorough else 3):
            a, b = rnd.sample(range(16), 2)
            cases.append({"kind": "pair+kp", "limbs": [a, b], "k": [rnd.choice(ks), rnd.choice(ks)]})
        # the same public values with another limb vector (the limbs travel through the inner verifier before they are packed: whatever
        # that does to them, the width check and the packing are on the supplied limbs)
        for i in (range(16) if thorough else rnd.sample(range(16), 3)):
            cases.append({"kind": "limb+kp=V", "limbs": [i], "k": [rnd.choice(ks)]})
        for i in (range(16) if thorough else rnd.sample(range(16), 3)):
            cases.append({"kind": "limb+2^32", "limbs": [i], "k": []})
        for j in range(4):
            cases.append({"kind": "pub+1", "limbs": [j], "k": []})
        cases.append({"kind": "pubswap", "limbs": [], "k": []})
        for _ in range(4):
            a, b = rnd.sample(range(16), 2)
            cases.append({"kind": "limbswap", "limbs": [a, b], "k": []})
        cases += [{"kind": "rand", "limbs": [], "k": []} for _ in range(2)]
        for i in range(8):
            if cases[i::8]:
                jobs.append({"part": "c03", "instance": inst, "k": 1, "c03": cases[i::8], "shard": i})
        # the same binding under the other range-check mechanisms a builder may offer (the shipped build compiles with the commit checker):
        # the limb width checks are requested after Verify, so their delivery depends on the chip's deferred flush
        if inst == "testdata" or thorough:
            for mode in ("commit", "plain"):
                # under the commit mechanism the sixteen width checks are the last requests the chip collects: every one of them
                idx = list(range(16)) if (thorough or mode == "commit") else sorted(set(rnd.sample(range(16), 2)) | {0, 15})
                mc = [{"kind": "honest", "limbs": [], "k": []}] + [{"kind": "limb+kp", "limbs": [i], "k": ["1"]} for i in idx] + \
                     [{"kind": "limb+2^32", "limbs": [idx[0]], "k": []}]
                for i in range(len(mc)):
                    jobs.append({"part": "c03", "instance": inst, "k": 1, "mode": mode, "c03": [mc[i]], "shard": 50 + i})

    # the limbs reach the inner statement through HashNoPad, which reduces them first: that reduction must admit one result only
    # (C09's uniqueness injection inside HashNoPad; "no second set of limbs is accepted for the same inner proof")
    from . import oracles
    hf = oracles.emit(ctx, bn=False)
    hq = dict(hf)
    hq.update({"part": "glunique", "mode": "native", "nrandom": 0, "shard": 61})
    ctx.absorb(ctx.run_driver("poseidon", hq, tag="glunique", timeout=3000), "poseidon")

    def one(j):
        return ctx.run_driver("wrapper", j, tag="c03-%s-%s-%d" % (j["instance"], j.get("mode", "native"), j["shard"]), timeout=3400)

    with ThreadPoolExecutor(max_workers=common.NCPU) as ex:
        for rr in ex.map(one, jobs):
            ctx.absorb(rr, "wrapper")


def replay(ctx, rec):
    c = rec["case"]
    r = ctx.run_driver("wrapper", {"part": "c03", "instance": c["instance"], "k": 1, "c03": [c["c03"]], "shard": 0})
    for v in r["violations"]:
        print("REPRODUCED", v["sig"], "::", v["detail"])
    print("VIOLATION property=C03 replay=(replayed)" if r["violations"] else "not reproduced on the current tree")
    return 1 if r["violations"] else 0
