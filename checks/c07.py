"""C07 - base-field gadgets compute exact Goldilocks results for all operands.

M3: GlOps.tla - the gadget algorithms in the shape of the code (every reducing gadget is a MulAdd instance) against the
    field definitions, exhaustively on the scaled field; GlGadgets.tla muladd/reduce/inverse games (uniqueness of the result).
M1: operand class triples {0,1,2^32-1,2^32,2^63,p-2^32,p-1}^3 x every gadget, seeded random triples, TLC-simulated
    programs of gadget calls replayed on the real gadgets in the three range-check modes; reduce inputs up to 2^144*p.
Oracle: math/big - the interpretation of GlOps' operators at the real P.
"""
import itertools
import json
import os
import random
from concurrent.futures import ThreadPoolExecutor

from . import common

P = 18446744069414584321
EDGE = [0, 1, 2**32 - 1, 2**32, 2**63, P - 2**32, P - 1]


# hint sites other than GlGadgets' four inside the chip, in the whole verifier, are probed with generic alternatives
FOREIGN = (("goldilocks.(*Chip)",), ("testdata",))


def run(ctx):
    ctx.rule = ("gadget x operand tuple x mode; tuples: all 343 edge-class triples (pairs/singletons for binary/unary gadgets) plus "
                "seeded random operands; programs: TLC-simulated sequences of 6 gadget calls with edge-class and random inputs; "
                "distinct = distinct (mode, gadget, operands) or (program, inputs, mode)")
    ctx.assumptions += ["math/big is the interpretation of the specification's `mod P` at the real P",
                        "commit mode is exercised with 70000 padding checks so that the optimal base width is 16"]
    ctx.tlc("GlOps", "GlOps.cfg", timeout=900)
    ctx.tlc("GlGadgets", "GlGadgets_c05.cfg")
    nsim = 200 if ctx.tier == "quick" else 2000
    r = ctx.tlc("GlOps", "GlOps_sim.cfg", workers=1, simulate="num=%d" % nsim, depth=8, timeout=900)
    progs = json.load(open(os.path.join(r["dir"], "glops_programs.json")))
    rnd = random.Random(ctx.seed * 17 + 7)
    rnd.shuffle(progs)
    progs = progs[: (300 if ctx.tier == "quick" else 4000)]
    ctx.extra["programs"] = len(progs)
    # operand cases
    ops = []
    nrand = 200 if ctx.tier == "quick" else 3000
    triples = list(itertools.product(EDGE, repeat=3)) + [tuple(rnd.randrange(P) for _ in range(3)) for _ in range(nrand)]
    pairs = list(itertools.product(EDGE, repeat=2)) + [tuple(rnd.randrange(P) for _ in range(2)) for _ in range(nrand)]
    singles = EDGE + [2, P - 2, 2**32 + 1] + [rnd.randrange(P) for _ in range(nrand)]
    for t in triples:
        for op in ("muladd", "muladdnr"):
            ops.append({"op": op, "in": [str(x) for x in t]})
    for t in pairs:
        for op in ("add", "sub", "mul", "addnr", "subnr", "mulnr"):
            ops.append({"op": op, "in": [str(x) for x in t]})
    for x in singles:
        ops.append({"op": "inverse", "in": [str(x)]})
        ops.append({"op": "reduce", "in": [str(x)]})
    ctx.extra["operand_cases"] = len(ops)
    jobs = []
    for mode in ("native", "plain", "commit"):
        sel_ops = ops if mode != "commit" or ctx.tier == "thorough" else rnd.sample(ops, 400)
        nsh = 6 if mode != "commit" else 2
        for i in range(nsh):
            jobs.append(("ops", mode, {"ops": sel_ops[i::nsh]}, i))
        sel_p = progs if mode == "native" else progs[: max(20, len(progs) // (4 if mode == "plain" else 30))]
        nshp = 4 if mode != "commit" else 2
        for i in range(nshp):
            jobs.append(("programs", mode, {"programs": sel_p[i::nshp], "nrandom": 1 if mode != "commit" else 0}, i))
        jobs.append(("reduce", mode, {"nrandom": 20 if (ctx.tier == "quick" or mode == "commit") else 400}, 0))

    # the programs once more on gnark's real R1CS / SCS builders (compiled, solved with the honest hints)
    nreal = len(progs) if ctx.tier == "thorough" else min(len(progs), 24)
    for i in range(4):
        jobs.append(("programs-real", "plain", {"programs": progs[:nreal][i::4]}, 40 + i))

    def one(j):
        part, mode, extra, i = j
        rq = {"part": part, "mode": mode, "shard": i}
        rq.update(extra)
        return ctx.run_driver("c07", rq, tag="%s-%s-%d" % (part, mode, i), timeout=3000)

    with ThreadPoolExecutor(max_workers=common.NCPU) as ex:
        for rr in ex.map(one, jobs):
            ctx.absorb(rr, "c07")
    # "return the canonical result" holds for every satisfying assignment, not only for the one the shipped hints produce: the gadgets
    # in isolation on boundary operands with GlGadgets' adversarial alternatives substituted for the prover-supplied values (the C05 part)
    ctx.absorb(ctx.run_driver("c05", {"part": "gadget", "instance": "testdata"}, tag="gadget"), "c05")


def replay(ctx, rec):
    c = rec["case"]
    out = 0
    for mode in ("native", "plain"):
        if "prog" in c:
            r = ctx.run_driver("c07", {"part": "programs", "mode": mode, "programs": [c["prog"]], "nrandom": 3})
        elif "op" in c:
            r = ctx.run_driver("c07", {"part": "ops", "mode": mode, "ops": [c]})
        else:
            r = ctx.run_driver("c07", {"part": "reduce", "mode": mode, "nrandom": 0})
        for v in r["violations"]:
            print("REPRODUCED", v["sig"], "::", v["detail"])
            out = 1
    print("VIOLATION property=C07 replay=(replayed)" if out else "not reproduced on the current tree")
    return out
