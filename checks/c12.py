"""C12 - Merkle openings verify only the committed leaf at the queried index.

M3: Merkle.tla - the code's fold (HashLeaf, FoldLevel, two-level CapLookup, Compare) under ideal hashes, exhaustive over tree
    heights 4..7 (cap height 4), every index and every single corruption kind and position: Exact (accept <=> nothing that
    matters is corrupted) and FoldLength.
M1: every terminal scenario of the model for heights 4..6 replayed exactly on the real gadget (export wrapper) with synthetic
    openings built with the C10 oracle, plus the same corruption kinds at heights up to 12, leaf widths 1..140 (including
    the <= 3 element shortcut leaves) and seeded indices; expected verdict from the model.
"""
import json
import os
import random

from . import common, oracles


# hint sites outside GlGadgets' four inside this code region are probed with generic alternatives after run() (bin/check, common.Ctx.foreign)
FOREIGN = (("verifyQueryRound", "verifyMerkleProofToCapWithCapIndex", "verifyInitialProof"), ("testdata",))


def run(ctx):
    ctx.rule = ("(height, index, corruption kind, position, leaf width): all model scenarios for heights 4..6 (sampled in the quick tier), and for heights 7..12 "
                "every kind x every position x seeded indices x leaf widths from {1,2,3,4,7,8,9,10,27,85,135,140}; distinct = distinct tuples")
    ctx.assumptions += ["hashes are ideal (injective) in the model; the replay uses the real PoseidonBN128 through the C10 oracle",
                        "synthetic openings consist of a path with random sibling digests and a cap containing the folded digest: to the verifier this is indistinguishable from a full tree"]
    files = oracles.emit(ctx, gl=False)
    ctx.tlc("Merkle", "Merkle.cfg", workers=8)
    r = ctx.tlc("Merkle", "Merkle_emit.cfg", workers=1)
    cases = json.load(open(os.path.join(r["dir"], "merkle_cases.json")))
    verdict = {}
    for c in cases:
        verdict.setdefault(c["kind"], set()).add(c["expect"])
    if any(len(v) != 1 for v in verdict.values()):
        raise common.MachineryError("Merkle.tla: a corruption kind has two verdicts: %s" % verdict)
    verdict = {k: list(v)[0] for k, v in verdict.items()}
    ctx.extra["model_verdicts"] = verdict
    rnd = random.Random(ctx.seed * 13 + 12)
    thorough = ctx.tier == "thorough"
    if not thorough:
        rnd.shuffle(cases)
        # keep every (kind, h) class, sampled
        keep, cnt = [], {}
        for c in cases:
            k = (c["kind"], c["h"])
            if cnt.get(k, 0) < 30:
                cnt[k] = cnt.get(k, 0) + 1
                keep.append(c)
        cases = keep
    # larger heights: same kinds, all positions, seeded indices
    for h in range(7, 13):
        nsib = h - 4
        nidx = 14 if thorough else 4
        for _ in range(nidx):
            idx = rnd.randrange(2 ** h)
            for kind in verdict:
                if kind in ("none", "leaf", "capentry"):
                    poss = [0]
                elif kind in ("sibling", "indexbit"):
                    poss = range(nsib)
                elif kind == "capbit":
                    poss = range(4)
                else:
                    poss = range(15) if thorough else rnd.sample(range(15), 6)
                for pos in poss:
                    cases.append({"h": h, "idx": idx, "kind": kind, "pos": pos, "expect": verdict[kind], "width": 0})
    # explicit leaf widths 1..140 on honest and leaf-corrupted openings
    widths = range(1, 141) if thorough else [1, 2, 3, 4, 5, 8, 9, 10, 18, 19, 27, 28, 85, 135, 140] + rnd.sample(range(1, 141), 20)
    for w in widths:
        for kind in ("none", "leaf"):
            h = rnd.randrange(4, 13)
            cases.append({"h": h, "idx": rnd.randrange(2 ** h), "kind": kind, "pos": 0, "expect": verdict[kind], "width": w})
    ctx.extra["cases"] = len(cases)
    rq = dict(files)
    r2 = ctx.run_driver_sharded("c12", rq, cases, timeout=3000)
    ctx.absorb(r2, "c12")


def replay(ctx, rec):
    files = oracles.emit(ctx, gl=False)
    rq = dict(files)
    rq["cases"] = [rec["case"]] * 5
    r = ctx.run_driver("c12", rq)
    for v in r["violations"]:
        print("REPRODUCED", v["sig"], "::", v["detail"])
    print("VIOLATION property=C12 replay=(replayed)" if r["violations"] else "not reproduced on the current tree")
    return 1 if r["violations"] else 0
