"""C06 - range checks enforce exact ranges in every backend configuration.

M3: RangeChip.tla (protocol, exhaustive; the defect model RangeChip_bug.cfg must be reported by TLC),
    GlGadgets.tla games "rangecheck"/"nbits" (value level, exhaustive on the mini field),
    apalache/LimbRule.tla (real constants).
M1: every terminal scenario of RangeChip.tla replayed on the real chip (proxy engine and gnark's real
    R1CS/SCS builders) with an honest and a just-out-of-range witness; value-level boundary cases in every
    mechanism x system.
M2: the hook traces of those runs validated against RangeChip's own actions (RangeChipTrace.tla), with a
    negative self-test of the binding.
"""
import json
import os
import random
import shutil

from . import common

P = 18446744069414584321
R = 21888242871839275222246405745257275088548364400416034343698204186575808495617


def value_cases(ctx):
    rnd = random.Random(ctx.seed * 7919 + 6)
    thorough = ctx.tier == "thorough"
    cases = []
    rc_vals = [0, 1, 2**32 - 1, 2**32, 2**64 - 2**32, P - 1, P, P + 1, 2**64 - 1, 2**64, R - 1,
               rnd.randrange(P), rnd.randrange(P, 2**64), rnd.randrange(2**64, R)]
    # the largest high limb with a single bit in the low limb: every one of them is >= p (the rule "high limb all ones => low limb zero")
    rc_vals += [2**64 - 2**32 + 2**k for k in (range(32) if thorough else sorted({0, 31, rnd.randrange(1, 31)}))]
    if thorough:
        rc_vals += [rnd.randrange(P) for _ in range(20)] + [rnd.randrange(P, 2**64) for _ in range(20)] + \
                   [rnd.randrange(2**64, R) for _ in range(20)] + [P + 2**32 - 1, 2**64 - 2**32 + 2, 2**63, 2**65, 2**128, 2**253]
    for x in rc_vals:
        for mode in ("native", "plain", "commit"):
            for st in ("honest", "generic", "hi-1", "hi+1", "modp", "wrap", "lo-all"):
                if mode == "commit" and not thorough and st in ("hi+1", "modp"):
                    continue
                cases.append(dict(sys="engine", mode=mode, kind="rangecheck", bits=0, x=str(x), strat=st))
        for sysn in ("r1cs", "scs"):
            for mode in ("commit", "plain"):
                for st in ("generic", "hi-1", "wrap", "lo-all"):
                    cases.append(dict(sys=sysn, mode=mode, kind="rangecheck", bits=0, x=str(x), strat=st))
        # bit-decomposition mechanism: gnark's digit hint with everything in digit 0 (recomposes, is not a bit)
        cases.append(dict(sys="engine", mode="plain", kind="rangecheck", bits=0, x=str(x), strat="nonbool"))
        for sysn in ("r1cs", "scs"):
            cases.append(dict(sys=sysn, mode="plain", kind="rangecheck", bits=0, x=str(x), strat="nonbool"))
    all_w = list(range(1, 65)) + [96, 144, 192]
    if thorough:
        widths = all_w
    else:
        widths = sorted(set([1, 16, 32, 48, 63, 64, 96, 144, 192] + rnd.sample(all_w, 8)))
    for n in widths:
        vals = [0, 1, 2**n - 1, 2**n, 2**n + 1, R - 1, rnd.randrange(2**n), rnd.randrange(2**n, R)]
        if thorough:
            vals += [rnd.randrange(2**n) for _ in range(4)] + [rnd.randrange(2**n, min(R, 2**(n + 8))) for _ in range(4)] + [2**(n + 1), R - 2**n]
        # field fractions j / 2^t mod r: in the scalar field x * 2^t is small although x is not (a width check done on a shifted value
        # would accept them)
        t = (16 - n % 16) % 16 or 8
        vals += [pow(2, -t, R), pow(2, -1, R), (3 * pow(2, -t, R)) % R]
        for x in vals:
            for mode in ("native", "plain"):
                cases.append(dict(sys="engine", mode=mode, kind="nbits", bits=n, x=str(x), strat="honest"))
            if x >= 2**n:
                cases.append(dict(sys="engine", mode="plain", kind="nbits", bits=n, x=str(x), strat="nonbool"))
                cases.append(dict(sys="r1cs", mode="plain", kind="nbits", bits=n, x=str(x), strat="nonbool"))
            if n % 16 == 0 or n in (1, 63, 5):
                cases.append(dict(sys="engine", mode="commit", kind="nbits", bits=n, x=str(x), strat="honest"))
            for sysn in ("r1cs", "scs"):
                cases.append(dict(sys=sysn, mode="plain", kind="nbits", bits=n, x=str(x), strat="honest"))
                if n % 16 == 0 or n == 63:
                    cases.append(dict(sys=sysn, mode="commit", kind="nbits", bits=n, x=str(x), strat="honest"))
    return cases


def shard_by(cases, keyf, n):
    buckets = {}
    for c in cases:
        buckets.setdefault(keyf(c), []).append(c)
    shards = [[] for _ in range(n)]
    for i, (k, v) in enumerate(sorted(buckets.items(), key=lambda kv: -len(kv[1]))):
        # greedy: put the bucket in the currently smallest shard
        j = min(range(n), key=lambda t: len(shards[t]))
        shards[j].extend(v)
    return [s for s in shards if s]


def validate_traces(ctx, trace_path, name, expect_ok=True):
    r = ctx.tlc("RangeChipTrace", "RangeChipTrace.cfg", workers=1, extra_files={trace_path: "rangechip_trace.ndjson"},
                name=name, timeout=1200)
    accepted = r["ok"]
    return accepted, r


def run(ctx):
    ctx.rule = ("protocol: every terminal scenario of RangeChip.tla (builder capabilities x env override x request widths x "
                "padding class), each with an all-in-range witness and one with a seeded request just out of range; "
                "values: boundary and seeded random values x width x mechanism x system (engine/R1CS/SCS) x limb strategy; "
                "distinct = distinct (scenario|value case) keys, none of which is trivial")
    ctx.assumptions += [
        "gnark's own gadgets (bits.ToBinary, the commit range checker's log-derivative argument, Lookup2, IsZero) are trusted",
        "TLC's value-level games run on the scaled field K=2 (P=13, R=49547); the real-size soundness statement is discharged by Apalache",
    ]
    # ---- M3 ------------------------------------------------------------------------------------------
    ctx.tlc("RangeChip", "RangeChip.cfg")
    ctx.tlc("RangeChip", "RangeChip_bug.cfg", expect_violation=True)
    ctx.tlc("GlGadgets", "GlGadgets_c06.cfg", timeout=600)
    # beyond the listed property: the chip registry and the collected list under concurrent callers (ChipRegistry.tla)
    ctx.tlc("ChipRegistry", "ChipRegistry.cfg", workers=4)
    ctx.tlc("ChipRegistry", "ChipRegistry_nolock.cfg", workers=4, expect_violation=True)
    ctx.absorb(ctx.run_driver("c06", {"part": "registry", "shard": 77}, tag="registry"), "c06")
    # beyond the listed property: RangeChip!LateRequest - a check requested from a deferred callback that runs after the chip's flush.
    # TLC exhibits the silent drop in the model; the real chip is driven into the same behaviour and its hook trace must be a
    # behaviour of the specification exactly when AllowLateRequest is on (and must violate NoSilentDrop there).
    ctx.tlc("RangeChip", "RangeChip_late.cfg", expect_violation=True)
    lt = os.path.join(ctx.scratch("late"), "late.ndjson")
    lr = ctx.run_driver("c06", {"part": "late", "trace_file": lt, "shard": 78}, tag="late")
    a = ctx.tlc("RangeChipTrace", "RangeChipTrace_late.cfg", workers=1, extra_files={lt: "rangechip_trace.ndjson"}, name="late-accept")
    b = ctx.tlc("RangeChipTrace", "RangeChipTrace.cfg", workers=1, extra_files={lt: "rangechip_trace.ndjson"}, name="late-reject")
    c = ctx.tlc("RangeChipTrace", "RangeChipTrace_late_nsd.cfg", workers=1, extra_files={lt: "rangechip_trace.ndjson"}, name="late-nsd")
    ctx.notes.append("beyond the listed property - RangeChip!LateRequest on the real chip: a value 2^40 requested for 32 bits from a later deferred callback gives "
                     "outcome=%s; its trace is %s with AllowLateRequest, %s without, NoSilentDrop %s on it"
                     % (lr["info"].get("late_outcome"), "accepted" if a["ok"] else "REJECTED", "rejected" if not b["ok"] else "ACCEPTED",
                        "violated" if c["violated"] else "holds"))
    if not a["ok"] or b["ok"]:
        ctx.leads.append("BEYOND module=RangeChip LateRequest: the recorded late-request trace is %s with AllowLateRequest and %s without - the model of the "
                         "deferred phase no longer matches the code" % ("accepted" if a["ok"] else "rejected", "accepted" if b["ok"] else "rejected"))
    for init, inv, want in (("InitRange", "InvRange", "NoError"), ("InitRangeNoRule", "InvRange", "Error"),
                            ("InitComplete", "InvComplete", "NoError"), ("InitBits", "InvBits", "NoError")):
        a = ctx.apalache_check(os.path.join(common.SPEC, "apalache", "LimbRule.tla"), init, inv, name="limb-" + init)
        ctx.apalache[-1]["expected"] = want
        if a["outcome"] != want:
            raise common.MachineryError("LimbRule %s/%s: expected %s, got %s" % (init, inv, want, a["outcome"]))
    # ---- cases out of the model --------------------------------------------------------------------------
    r = ctx.tlc("RangeChip", "RangeChip_emit.cfg", workers=1)
    cases = json.load(open(os.path.join(r["dir"], "rangechip_cases.json")))
    if ctx.tier == "quick":
        # every (mode, outcome, real, pad>0) class is kept; the big-padding scenarios are sampled
        rnd = random.Random(ctx.seed)
        big = [c for c in cases if c["pad"] > 0]
        small = [c for c in cases if c["pad"] == 0]
        keep = {}
        for c in big:
            # per padding class: between 1500 and 70000 collected checks the optimal base width passes through every value (the two cost
            # models - R1CS, PLONK - disagree on part of that range), so a class of its own for every modelled size
            keep.setdefault((c["pad"], c["mode"], c["outcome"], c["real"], c["ft"], c["typer"], c["rc"], len(c["widths"]) > 0), []).append(c)
        bigsel = []
        for k, v in sorted(keep.items(), key=lambda kv: str(kv[0])):
            rnd.shuffle(v)
            bigsel += v[:1]
        cases = small + bigsel
    ctx.extra["protocol_cases"] = len(cases)
    # ---- M1 protocol + traces ---------------------------------------------------------------------------------
    shards = shard_by(cases, lambda c: (c["pad"], c["real"], c["mode"], json.dumps(c["widths"])), common.NCPU)
    from concurrent.futures import ThreadPoolExecutor
    tdir = ctx.scratch("traces")

    def one(i):
        tf = os.path.join(tdir, "t%d.ndjson" % i)
        rr = ctx.run_driver("c06", {"part": "protocol", "cases": shards[i], "trace_file": tf, "shard": i}, tag="p%d" % i)
        return rr, tf

    tfiles = []
    # (thorough: every padded scenario is compiled with the real builders, a few GB each: six at a time)
    with ThreadPoolExecutor(max_workers=len(shards) if ctx.tier == "quick" else min(6, len(shards))) as ex:
        for rr, tf in ex.map(one, range(len(shards))):
            ctx.absorb(rr, "c06")
            tfiles.append(tf)
    # ---- M2: validate the concatenated traces ----------------------------------------------------------------
    allt = os.path.join(tdir, "all.ndjson")
    nruns = 0
    lines = []
    for tf in tfiles:
        for ln in open(tf):
            lines.append(ln)
            if '"ev":"start"' in ln:
                nruns += 1
    open(allt, "w").writelines(lines)
    ok, tr = validate_traces(ctx, allt, "trace-all")
    ctx.extra["trace_records"] = len(lines)
    if ok:
        ctx.traces_validated += nruns
    else:
        # a rejected trace is a lead; the replayed cases above are what can turn it into a violation
        hw = None
        import re
        m = re.findall(r"TLCGet\(2\)|high", tr["output"])
        ctx.leads.append("RangeChipTrace rejected the recorded traces (see TLC output); replayed scenarios decide")
        ctx.extra["trace_rejected_tail"] = tr["output"][-1500:]
    # negative self-tests of the binding: corrupt one field, drop one record -> must be rejected
    if ok and len(lines) > 10:
        rnd = random.Random(ctx.seed + 1)
        recs = [json.loads(x) for x in lines]
        idx = [i for i, rr in enumerate(recs) if rr["ev"] == "rcreq" and rr["count"] == 1]
        i = rnd.choice(idx)
        bad1 = [dict(x) for x in recs]
        bad1[i]["deliv"] = 1 - bad1[i]["deliv"]
        p1 = os.path.join(tdir, "bad1.ndjson")
        common.write_ndjson(p1, bad1)
        ok1, _ = validate_traces(ctx, p1, "trace-neg1")
        j = rnd.choice([k for k, rr in enumerate(recs) if rr["ev"] == "newchip"])
        bad2 = [x for k, x in enumerate(recs) if k != j]
        p2 = os.path.join(tdir, "bad2.ndjson")
        common.write_ndjson(p2, bad2)
        ok2, _ = validate_traces(ctx, p2, "trace-neg2")
        if ok1 or ok2:
            ctx.deferred.append("trace binding self-test failed: a corrupted trace was accepted (%s,%s)" % (ok1, ok2))  # incomplete run (exit 2 unless a violation was reproduced); the remaining parts still run
        ctx.extra["trace_negative_selftests"] = 2
    # ---- M1 values ------------------------------------------------------------------------------------------------
    vcs = value_cases(ctx)
    vshards = shard_by(vcs, lambda c: (c["sys"], c["mode"], c["kind"], c["bits"]), common.NCPU)

    def onev(i):
        return ctx.run_driver("c06", {"part": "values", "values": vshards[i], "shard": i}, tag="v%d" % i, timeout=3000)

    with ThreadPoolExecutor(max_workers=len(vshards)) as ex:
        for rr in ex.map(onev, range(len(vshards))):
            ctx.absorb(rr, "c06")
    ctx.extra["value_cases"] = len(vcs)


def replay(ctx, rec):
    case = rec["case"]
    if "widths" in case:
        r = ctx.run_driver("c06", {"part": "protocol", "cases": [case], "shard": 0})
    else:
        r = ctx.run_driver("c06", {"part": "values", "values": [case], "shard": 0})
    for v in r["violations"]:
        print("REPRODUCED", v["sig"], "::", v["detail"])
    if r["violations"]:
        print("VIOLATION property=C06 replay=(replayed)")
        return 1
    print("not reproduced on the current tree")
    return 0
