"""Shared machinery for /verif/bin/check: TLC / Apalache runners, Go driver builder and runner,
evidence writer, known-findings handling, replay files.

Exit-code contract (DESIGN.md 3.5):
  0  property held on everything explored (KNOWN-FINDING lines may be printed)
  1  at least one violation not listed in known_findings.json; a line
     "VIOLATION property=<id> replay=<path>" is printed for each
  2  the machinery itself failed (tool crash, timeout, unreproducible counterexample)
"""
import fcntl
import hashlib
import json
import os
import random
import re
import shutil
import subprocess
import sys
import tempfile
import threading
import time
from concurrent.futures import ThreadPoolExecutor

VERIF = os.path.dirname(os.path.dirname(os.path.abspath(__file__)))
REPO = os.environ.get("VERIF_REPO", "/repo")
REPO_GO = os.path.join(REPO, "gnark-plonky2-verifier")
HARNESS = os.path.join(VERIF, "harness")
SPEC = os.path.join(VERIF, "spec")
BUILD = os.path.join(VERIF, ".build")
TLA_JAR = "/opt/veriftools/tla/tla2tools.jar"
NCPU = os.cpu_count() or 4


class MachineryError(Exception):
    pass


def goenv():
    e = dict(os.environ)
    e.update(GOFLAGS="-mod=mod", GOPROXY="off", GOSUMDB="off", GOTOOLCHAIN="local", CGO_ENABLED="0")
    e.pop("USE_BIT_DECOMPOSITION_RANGE_CHECK", None)
    return e


def build_driver(outdir=None):
    """(Re)build the Go driver against the repository's current working tree with the verif tag.  The binary goes into the
    calling check's own scratch directory, so that checks running at the same time never replace each other's driver.
    With VERIF_REPO set (used by bin/seedtest for a scratch worktree) the harness module is copied and its replace directive
    re-pointed, so that /repo itself is never touched."""
    os.makedirs(BUILD, exist_ok=True)
    outdir = outdir or BUILD
    lock = open(os.path.join(BUILD, ".lock"), "w")
    fcntl.flock(lock, fcntl.LOCK_EX)
    try:
        harness = HARNESS
        if REPO != "/repo":
            harness = os.path.join(outdir, "harness")
            shutil.copytree(HARNESS, harness, dirs_exist_ok=True)
            subprocess.run(["go", "mod", "edit", "-replace", "github.com/wormhole-foundation/example-near-light-client=" + REPO_GO],
                           cwd=harness, env=goenv(), check=True)
        shutil.copyfile(os.path.join(REPO_GO, "go.sum"), os.path.join(harness, "go.sum"))
        out = os.path.join(outdir, "verifdrv")
        t0 = time.time()
        p = subprocess.run(["go", "build", "-tags", "verif", "-o", out, "./cmd/verifdrv"], cwd=harness,
                           env=goenv(), stdout=subprocess.PIPE, stderr=subprocess.STDOUT, text=True)
        if p.returncode != 0:
            # The repository (or the harness against it) does not build: machinery failure, not a violation.
            sys.stderr.write(p.stdout)
            raise MachineryError("driver build failed")
        return out, time.time() - t0
    finally:
        fcntl.flock(lock, fcntl.LOCK_UN)
        lock.close()


class Ctx:
    def __init__(self, pid, tier, seed):
        self.pid = pid
        self.tier = tier
        self.seed = seed
        self.t0 = time.time()
        self.tmp = tempfile.mkdtemp(prefix="verif-%s-" % pid)
        self.states = 0
        self.transitions = 0
        self.tlc_runs = []
        self.apalache = []
        self.traces_validated = 0
        self.evaluations = 0
        self.distinct = 0
        self.samples = []
        self.violations = []  # dicts: sig, detail, case(driver, request)
        self.leads = []
        self._drvlock = threading.Lock()
        self.deferred = []  # machinery failures that did not stop the run: exit 2 unless a real-code violation was reproduced
        self.notes = []
        self.assumptions = []
        self.extra = {}
        self.rule = ""
        self.drv = None
        self.exhaustive = None

    # ---- tools ------------------------------------------------------------------------------------
    def driver(self):
        with self._drvlock:
            if self.drv is None:
                self.drv, dt = build_driver(self.scratch("build"))
                self.notes.append("driver rebuilt from %s in %.1fs" % (REPO_GO, dt))
        return self.drv

    def scratch(self, name):
        d = os.path.join(self.tmp, name)
        os.makedirs(d, exist_ok=True)
        return d

    def tlc(self, module, cfg=None, files=(), workers=None, simulate=None, depth=None, timeout=900,
            extra_files=None, expect_violation=False, coverage=False, deadlock=False, jvm=("-Xss1g",),
            name=None, heap=None):
        """Run TLC on spec/<module>.tla with spec/<cfg> in a scratch copy. Returns a dict with
        states/distinct/ok/violated/output. Raises MachineryError on tool failure."""
        name = name or (cfg or module).replace(".cfg", "")
        d = self.scratch("tlc-" + name)
        for f in os.listdir(SPEC):
            p = os.path.join(SPEC, f)
            if os.path.isfile(p) and (f.endswith(".tla") or f.endswith(".cfg")):
                shutil.copy(p, d)
        for src, dst in (extra_files or {}).items():
            shutil.copy(src, os.path.join(d, dst))
        cfg = cfg or (module + ".cfg")
        cmd = ["java"]
        cmd += list(jvm)
        if heap:
            cmd += ["-Xmx" + heap]
        cmd += ["-XX:+UseParallelGC", "-cp", TLA_JAR + ":/opt/veriftools/tla/CommunityModules-deps.jar", "tlc2.TLC"]
        cmd += ["-config", cfg, "-metadir", os.path.join(d, "meta"), "-workers", str(workers or "auto")]
        if not deadlock:
            cmd += ["-deadlock"]
        if simulate:
            cmd += ["-simulate", simulate]
            if depth:
                cmd += ["-depth", str(depth)]
            cmd += ["-seed", str(self.seed)]
        if coverage:
            cmd += ["-coverage", "1"]
        cmd += [module]
        t0 = time.time()
        try:
            p = subprocess.run(cmd, cwd=d, stdout=subprocess.PIPE, stderr=subprocess.STDOUT, text=True, timeout=timeout)
        except subprocess.TimeoutExpired:
            raise MachineryError("TLC timeout on %s/%s" % (module, cfg))
        out = p.stdout
        res = {"module": module, "cfg": cfg, "wall_s": round(time.time() - t0, 2), "dir": d, "output": out}
        m = re.findall(r"(\d+) states generated, (\d+) distinct states found", out)
        if m:
            res["generated"], res["distinct"] = int(m[-1][0]), int(m[-1][1])
        else:
            ms = re.findall(r"The number of states generated: (\d+)", out)
            g = int(ms[-1]) if ms else 0
            res["generated"], res["distinct"] = g, g
        res["violated"] = bool(re.search(r"Error: Invariant .* is violated|Error: Action property .* is violated|is violated|Error: The invariant of \S+ is equal to FALSE", out))
        res["violated_name"] = (re.findall(r"Error: (?:Invariant|Action property) (\S+) is violated", out) or [None])[0]
        finished = "Model checking completed" in out or "Finished in" in out or (simulate and "states checked" in out)
        res["post_false"] = re.search(r"Error: Postcondition .* is false", out) is not None
        hard_error = re.search(r"Error: (?!Invariant|Action property|The behavior up to|Postcondition|The invariant of)", out) is not None and not res["violated"]
        if "Assumption" in out and "is false" in out:
            res["assume_false"] = True
            hard_error = False
        else:
            res["assume_false"] = False
        if hard_error or (p.returncode not in (0, 10, 12, 13, 151) and not res["violated"] and not res["assume_false"] and not res["post_false"]):
            sys.stderr.write(out[-4000:])
            raise MachineryError("TLC failed on %s/%s (rc=%d)" % (module, cfg, p.returncode))
        res["ok"] = not res["violated"] and not res["assume_false"] and not res["post_false"]
        self.states += res["distinct"]
        self.transitions += res["generated"]
        self.tlc_runs.append({k: res[k] for k in ("module", "cfg", "generated", "distinct", "ok", "wall_s")})
        if expect_violation:
            if res["ok"]:
                raise MachineryError("TLC self-test: %s/%s was expected to report a violation and did not" % (module, cfg))
        return res

    def apalache_check(self, tla_path, init, inv, length=0, timeout=300, name=None):
        d = self.scratch("apa-" + (name or os.path.basename(tla_path)))
        shutil.copy(tla_path, d)
        cmd = ["apalache-mc", "check", "--init=" + init, "--inv=" + inv, "--length=%d" % length,
               "--out-dir=" + os.path.join(d, "out"), os.path.basename(tla_path)]
        t0 = time.time()
        try:
            p = subprocess.run(cmd, cwd=d, stdout=subprocess.PIPE, stderr=subprocess.STDOUT, text=True, timeout=timeout)
        except subprocess.TimeoutExpired:
            raise MachineryError("apalache timeout " + tla_path)
        out = p.stdout
        if "The outcome is: NoError" in out:
            r = {"outcome": "NoError"}
        elif "The outcome is: Error" in out:
            r = {"outcome": "Error"}
            # find the counterexample
            for root, _, fs in os.walk(os.path.join(d, "out")):
                for f in fs:
                    if f.startswith("violation") and f.endswith(".itf.json"):
                        r["cex"] = json.load(open(os.path.join(root, f)))
        else:
            sys.stderr.write(out[-3000:])
            raise MachineryError("apalache failed on " + tla_path)
        r["wall_s"] = round(time.time() - t0, 2)
        r["init"], r["inv"], r["file"] = init, inv, os.path.basename(tla_path)
        self.apalache.append({k: r[k] for k in ("file", "init", "inv", "outcome", "wall_s")})
        return r

    def run_driver(self, name, request, timeout=3600, tag=None, env=None):
        """Run one driver process: verifdrv <name> <req.json> <resp.json>."""
        drv = self.driver()
        d = self.scratch("drv")
        h = hashlib.sha1((name + json.dumps(request, sort_keys=True) + str(tag)).encode()).hexdigest()[:12]
        req = os.path.join(d, "%s-%s.req.json" % (name, h))
        resp = os.path.join(d, "%s-%s.resp.json" % (name, h))
        json.dump(request, open(req, "w"))
        e = goenv()
        e["VERIF_SEED"] = str(self.seed)
        e["VERIF_TMP"] = d
        if env:
            e.update(env)
        empty = {"evaluations": 0, "distinct": 0, "trivial": 0, "violations": [], "samples": [], "results": [], "info": {}, "failed": True}
        try:
            p = subprocess.run([drv, name, req, resp], stdout=subprocess.PIPE, stderr=subprocess.STDOUT, text=True,
                               timeout=timeout, env=e, cwd=d)
        except subprocess.TimeoutExpired:
            self.deferred.append("driver %s (%s) timed out after %ds" % (name, tag, timeout))
            return empty
        if p.returncode == 3 and os.path.exists(resp):
            # the driver gave up part of the way (e.g. its guard against a strategy that never applied): incomplete run, but
            # whatever it reproduced on the real code before that still counts
            r = json.load(open(resp))
            self.deferred.append("driver %s (%s) incomplete: %s" % (name, tag, (r.get("info") or {}).get("driver_error")))
            r["failed"] = True
            r["_stdout"] = p.stdout[-2000:]
            return r
        if p.returncode != 0 or not os.path.exists(resp):
            sys.stderr.write(p.stdout[-6000:])
            self.deferred.append("driver %s (%s) failed rc=%d: %s" % (name, tag, p.returncode, p.stdout.strip().splitlines()[-1][:300] if p.stdout.strip() else ""))
            return empty
        r = json.load(open(resp))
        r["_stdout"] = p.stdout[-2000:]
        return r

    def run_driver_sharded(self, name, request, cases, shards=None, timeout=3600, key="cases", env=None):
        """Split `cases` over parallel driver processes; merge the responses."""
        shards = shards or min(NCPU, max(1, len(cases)))
        # seeded shuffle: a driver process then meets the cases in mixed order (larger parameters before smaller ones as well), so that
        # state kept between cases by the code under test - a cache keyed too coarsely, say - has a chance to show
        cases = list(cases)
        random.Random(self.seed * 7 + len(cases)).shuffle(cases)
        parts = [cases[i::shards] for i in range(shards)]
        parts = [p for p in parts if p]
        merged = {"evaluations": 0, "distinct": 0, "trivial": 0, "violations": [], "samples": [], "results": [], "info": {}}

        def one(i_part):
            i, part = i_part
            rq = dict(request)
            rq[key] = part
            rq["shard"] = i
            return self.run_driver(name, rq, timeout=timeout, tag=i, env=env)

        with ThreadPoolExecutor(max_workers=len(parts) or 1) as ex:
            for r in ex.map(one, list(enumerate(parts))):
                merged["evaluations"] += r.get("evaluations", 0)
                merged["distinct"] += r.get("distinct", 0)
                merged["trivial"] += r.get("trivial", 0)
                merged["violations"] += r.get("violations", [])
                merged["samples"] += r.get("samples", [])[:3]
                merged["results"] += r.get("results", [])
                for k, v in (r.get("info") or {}).items():
                    if isinstance(v, (int, float)) and not isinstance(v, bool):
                        merged["info"][k] = merged["info"].get(k, 0) + v
                    else:
                        merged["info"].setdefault(k, v)
        return merged

    def absorb(self, r, driver=None):
        """Fold a driver response into the evidence counters and violation list."""
        self.evaluations += r.get("evaluations", 0)
        self.distinct += r.get("distinct", 0)
        for s in r.get("samples", [])[:4]:
            if len(self.samples) < 12:
                self.samples.append(s)
        for v in r.get("violations", []):
            if driver and "driver" not in v:
                v["driver"] = driver
            self.violations.append(v)

    def foreign(self, filt=(), instances=("testdata",), k=1):
        """Guard against prover-supplied values the specification has no game for (drivers/foreign.go): hint sites other than the chip's four
        (or SplitLimbsHint outside the canonical range check) inside the named code region; generic alternatives are substituted at each."""
        for inst in instances:
            r = self.run_driver("foreign", {"prop": self.pid, "instance": inst, "k": k, "filter": list(filt)}, tag="foreign-" + inst, timeout=1800)
            self.absorb(r, "foreign")
            n = (r.get("info") or {}).get("foreign_sites")
            self.notes.append("prover-supplied values outside GlGadgets' four hints in %s (%s): %s site(s)" % ("/".join(filt) or "the whole verifier", inst, n))

    def absorb_beyond(self, r, module):
        """A replay that belongs to a specification module beyond the listed properties: its mismatches are leads, its
        counts go into the notes - it never decides the property this check is registered for."""
        sigs = {}
        for v in r.get("violations", []):
            sigs.setdefault(v.get("sig", ""), v.get("detail", ""))
        for sig, det in sorted(sigs.items()):
            self.leads.append("BEYOND module=%s %s :: %s" % (module, sig, str(det)[:300]))
        self.notes.append("beyond the listed property - %s: %d behaviours replayed on the real code (%d distinct, %d only partly realisable), %d mismatches"
                          % (module, r.get("evaluations", 0), r.get("distinct", 0), r.get("trivial", 0), len(r.get("violations", []))))

    # ---- verdict ------------------------------------------------------------------------------------
    def finish(self, level="model_checking"):
        known = load_known()
        wall = time.time() - self.t0
        rc = 0
        os.makedirs(os.path.join(VERIF, "replay"), exist_ok=True)
        seen_known = {}
        new = []
        for v in self.violations:
            sig = v.get("sig", "")
            k = match_known(known, self.pid, sig)
            if k is not None:
                seen_known.setdefault(k["id"], (k, sig))
            else:
                new.append(v)
        for kid, (k, sig) in sorted(seen_known.items()):
            print("KNOWN-FINDING: property=%s %s [%s]" % (self.pid, k["text"], sig))
        reported = set()
        for v in new:
            sig = v.get("sig", "")
            if sig in reported:
                continue
            reported.add(sig)
            h = hashlib.sha1(sig.encode()).hexdigest()[:10]
            path = os.path.join(VERIF, "replay", "%s-%s.json" % (self.pid, h))
            json.dump({"property": self.pid, "sig": sig, "detail": v.get("detail"), "driver": v.get("driver"),
                       "case": v.get("case"), "seed": self.seed, "tier": self.tier}, open(path, "w"), indent=1)
            print("VIOLATION property=%s replay=%s" % (self.pid, path))
            print("  " + sig + " :: " + str(v.get("detail"))[:300])
            rc = 1
            if len(reported) >= 25:
                print("  (further violations suppressed: %d total)" % len(new))
                break
        for l in self.leads:
            print("LEAD property=%s %s" % (self.pid, l))
        cov = {
            "states": self.states,
            "transitions": self.transitions,
            "traces_validated_against_impl": self.traces_validated,
            "evaluations": self.evaluations,
            "distinct_nontrivial": self.distinct,
            "rule": self.rule,
            "samples": self.samples[:12] or ["(no samples)"],
            "tlc_runs": self.tlc_runs,
            "apalache": self.apalache,
            "obligations": len(self.apalache),
            "discharged": sum(1 for a in self.apalache if a.get("expected_ok", True) and a["outcome"] == a.get("expected", a["outcome"])),
            "known_findings_seen": sorted(seen_known.keys()),
            "notes": self.notes + ["INCOMPLETE RUN: " + m for m in self.deferred],
        }
        if self.exhaustive is not None:
            cov["exhaustive"] = self.exhaustive
        cov.update(self.extra)
        ev = {
            "property_id": self.pid, "tier": self.tier, "seed": self.seed, "level": level,
            "coverage": cov, "assumptions": self.assumptions, "wall_s": round(wall, 2),
            "violations": len(reported),
        }
        evdir = os.environ.get("VERIF_EVIDENCE_DIR") or os.path.join(VERIF, "evidence")
        os.makedirs(evdir, exist_ok=True)
        json.dump(ev, open(os.path.join(evdir, self.pid + ".json"), "w"), indent=1)
        print("%s %s seed=%d: states=%d transitions=%d traces=%d evaluations=%d distinct=%d violations=%d known=%d wall=%.1fs" % (
            self.pid, self.tier, self.seed, self.states, self.transitions, self.traces_validated, self.evaluations,
            self.distinct, len(reported), len(seen_known), wall))
        if self.deferred:
            for m in self.deferred[:10]:
                print("%s property=%s %s" % ("NOTE machinery:" if rc == 1 else "MACHINERY-ERROR", self.pid, m))
            if rc == 0:
                return 2  # an incomplete run decides nothing
        return rc

    def cleanup(self):
        shutil.rmtree(self.tmp, ignore_errors=True)


def load_known():
    p = os.path.join(VERIF, "known_findings.json")
    if not os.path.exists(p):
        return []
    return json.load(open(p)).get("findings", [])


def match_known(known, pid, sig):
    for k in known:
        if k.get("status") != "open" or k.get("property") != pid:
            continue
        if re.search(k["match"], sig):
            return k
    return None


def write_ndjson(path, records):
    with open(path, "w") as f:
        for r in records:
            f.write(json.dumps(r) + "\n")
