"""TLC runs that emit the schedules / plans consumed by the Go reference evaluator (harness/ref)."""
import os


def emit(ctx, gl=True, bn=True, plans=True):
    files = {"gl_sched": "", "bn_sched": "", "plans": ""}
    if gl:
        r = ctx.tlc("PoseidonGl", "PoseidonGl.cfg", workers=1)
        files["gl_sched"] = os.path.join(r["dir"], "poseidon_gl_schedule.json")
    if bn:
        r = ctx.tlc("PoseidonBn", "PoseidonBn.cfg", workers=1)
        files["bn_sched"] = os.path.join(r["dir"], "poseidon_bn_schedule.json")
    if plans:
        r = ctx.tlc("Sponges", "Sponges.cfg", workers=1)
        files["plans"] = os.path.join(r["dir"], "sponge_plans.json")
    for k, v in files.items():
        if v and not os.path.exists(v):
            from . import common
            raise common.MachineryError("TLC did not write " + v)
    return files
