"""C04 - the wrapper accepts proofs of one fixed inner circuit only.

M3: Verifier.tla with the verifier key as prover-chosen data unless KeyPinned: with the key pinned no single key change is accepted
    (Verifier.cfg); with the key left to the prover TLC exhibits the accepted behaviour - a commitment entry that no query
    selects (Verifier_unpinned.cfg must report it).
M1: wrappers (VerifierCircuit and CircuitFixed) instantiated from a build-time template and a proving-time assignment with a
    different key: each of the 17 key elements x {+1, random, zero}, the other circuit's complete key, random keys, the right key with its
    commitment entries permuted (a selected entry swapped with another, the cap rotated); the key is
    delivered as a JSON document through the repository's own request readers in a process that has already read the build-time key; the query
    indices of the proof at hand are computed by the real circuit, so "selected by no query" is known per case.
"""
import random
from concurrent.futures import ThreadPoolExecutor

from . import common
from .verifier_common import pick_instances, CIRCUIT


# prover-supplied decompositions inside the FRI query phase (the query index decides which cap entry of the key is compared): hint sites
# outside GlGadgets' four are probed with generic alternatives after run() (bin/check, common.Ctx.foreign)
FOREIGN = (("fri.",), ("testdata",))


def run(ctx):
    ctx.rule = ("(template instance, k, wrapper, alternative key): every key element (16 cap entries + digest) x {+1, random, zero}, the other circuit's key, "
                "seeded random keys; distinct = distinct tuples")
    ctx.assumptions += ["'built from a template' is modelled by gnark's test engine evaluating the template circuit on an assignment carrying another key, which is what a "
                        "prover can do with the compiled constraint system, where the key is an ordinary secret input"]
    thorough = ctx.tier == "thorough"
    ctx.tlc("Verifier", "Verifier.cfg", workers=8)
    ctx.tlc("Verifier", "Verifier_unpinned.cfg", workers=8, expect_violation=True)
    insts = pick_instances(ctx)
    jobs = []
    for inst in insts:
        paths = ["VD.CircuitDigest"] + ["VD.ConstantSigmasCap[%d]" % i for i in range(16)]
        other = [x for x in ("testdata", "random") if CIRCUIT[x] != CIRCUIT[inst]][0]
        wrappers = ["vc"] + (["fixed"] if CIRCUIT[inst] == "A" else [])
        for w in wrappers:
            for k in ([1, 28] if thorough else [4]):  # quick: four query rounds, so that several cap entries are selected
                cases = [{"kind": "entry", "path": p, "op": op, "wrapper": w} for p in paths for op in ("+1", "random", "zero")]
                cases += [{"kind": "other", "other": other, "wrapper": w}] + [{"kind": "random", "wrapper": w} for _ in range(3)]
                cases += [{"kind": "permute", "wrapper": w}, {"kind": "alias", "wrapper": w}]
                for i in range(4):
                    jobs.append({"part": "c04", "instance": inst, "k": k, "c04": cases[i::4], "shard": i + 10 * k})

    # one verifier chip used for two proofs (a batching caller): the key presented with the second proof is bound like the first one's
    for pair in (("testdata+roottest", "epochCb+epoch4R") if thorough else ("testdata+roottest",)):
        jobs.append({"part": "two", "instance": pair, "k": 1, "ks": ["key"], "shard": 72, "c04": [{"wrapper": "vc"}]})

    def one(j):
        return ctx.run_driver("wrapper", j, tag="c04-%s-%d-%s" % (j["instance"], j["shard"], j["c04"][0]["wrapper"]), timeout=3400)

    with ThreadPoolExecutor(max_workers=common.NCPU) as ex:
        for rr in ex.map(one, jobs):
            ctx.absorb(rr, "wrapper")

    service(ctx, thorough)


def service(ctx, thorough):
    """Beyond the listed property (leads only): ProverService.tla - the /proof handler of cmd/web-api.go, which takes the verifier key
    from the request.  The real handler is driven with httptest; its request/response records must be behaviours of the module."""
    import json
    import os
    ctx.tlc("ProverService", "ProverService.cfg", workers=2)
    ctx.tlc("ProverService", "ProverService_unpinned.cfg", workers=2, expect_violation=True)
    tf = os.path.join(ctx.scratch("service"), "service.ndjson")
    rr = ctx.run_driver("service", {"part": "full" if thorough else "cheap", "trace_file": tf}, tag="service", timeout=3400)
    tr = ctx.tlc("ProverServiceTrace", "ProverServiceTrace.cfg", workers=1, extra_files={tf: "service_trace.ndjson"}, name="service-trace")
    recs = [json.loads(x) for x in open(tf) if x.strip()]
    # negative self-test of the binding: one response status changed must be rejected
    bad = [dict(x) for x in recs]
    for x in bad:
        if x["ev"] == "response" and x["status"] == 500:
            x["status"] = 200
            x["inputsOk"] = x["proofOk"] = True
            break
    bp = os.path.join(ctx.scratch("service"), "bad.ndjson")
    common.write_ndjson(bp, bad)
    neg = ctx.tlc("ProverServiceTrace", "ProverServiceTrace.cfg", workers=1, extra_files={bp: "service_trace.ndjson"}, name="service-neg")
    if neg["ok"]:
        ctx.deferred.append("service trace self-test: a corrupted response status was accepted")  # incomplete run (exit 2 unless a violation was reproduced); the remaining parts still run
    summary = "; ".join("%s->%s" % (x["request"], x["status"]) for x in rr.get("results", []))
    note = "beyond the listed property - ProverService: %d requests to the real handler (%s); trace %s by ProverServiceTrace (KeyPinned = FALSE, what the code does)" % (
        len(recs) // 2, summary, "accepted" if tr["ok"] else "REJECTED")
    if thorough:
        pin = ctx.tlc("ProverServiceTrace", "ProverServiceTrace_pinned.cfg", workers=1, extra_files={tf: "service_trace.ndjson"}, name="service-pinned")
        note += "; under KeyPinned = TRUE the same trace is %s (finding F4 seen at the service: a 200 response for a key with a changed unselected entry)" % (
            "rejected" if not pin["ok"] else "accepted")
    ctx.notes.append(note)
    if not tr["ok"]:
        ctx.leads.append("BEYOND module=ProverService the handler's request/response records are not a behaviour of ProverService.tla: " + summary)


def replay(ctx, rec):
    c = rec["case"]
    r = ctx.run_driver("wrapper", {"part": "c04", "instance": c["instance"], "k": c["k"], "c04": [c["c04"]], "shard": 0})
    for v in r["violations"]:
        print("REPRODUCED", v["sig"], "::", v["detail"])
    print("VIOLATION property=C04 replay=(replayed)" if r["violations"] else "not reproduced on the current tree")
    return 1 if r["violations"] else 0
