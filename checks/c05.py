"""C05 - witnessed Goldilocks arithmetic is wrap-free and admits a single result.

M3: GlGadgets.tla games reduce/muladd/inverse (exhaustive on the mini field; the over-wide quotient config
    GlGadgets_c05_wide.cfg must be reported), apalache/SiteLemma (generated from the recorded per-site table,
    real constants): no wrap + honest fit for every static site class.
M2: the per-static-site table (hint, enforced widths, exact interval bounds of the inputs) is recorded from the
    real verifier on both circuits; it is the constant of the Apalache obligations.
M1: at every static site (first and a seeded occurrence) the adversarial alternatives of the model are injected
    into the whole verifier: every one must be rejected.
"""
import os
import random
from concurrent.futures import ThreadPoolExecutor

from . import common

P = 18446744069414584321
R = 21888242871839275222246405745257275088548364400416034343698204186575808495617

STRATS = {
    "ReduceHint": ["k1", "k2", "k7", "q-1", "q+1", "solve"],
    "MulAddHint": ["k1", "k2", "q-1", "q+1", "solve"],
    "SplitLimbsHint": ["hi-1", "hi+1", "solve-hi"],
    "InverseHint": ["inv+p", "inv+1", "zero"],
}


def site_classes(rows):
    """Group static sites into obligation classes: (hint, enforced quotient width | 'canon', input bound)."""
    classes = {}
    for r in rows:
        mi = [int(m) if m else None for m in r["max_in"]]
        if r["hint"] == "ReduceHint":
            widths = r["out_bits"][0].split("|") if r["out_bits"][0] else []
            w = max(int(x) for x in widths) if widths else -1
            key = ("reduce", w, mi[0])
        elif r["hint"] == "MulAddHint":
            s = mi[0] * mi[1] + mi[2]
            canon = r["out_canon"][0] > 0 and r["out_canon"][1] > 0
            key = ("muladd", "canon" if canon else "unchecked", s)
        elif r["hint"] == "InverseHint":
            key = ("inverse", "canon" if r["out_canon"][0] > 0 else "unchecked", mi[0])
        elif r["hint"] == "SplitLimbsHint":
            key = ("split", r["out_bits"][0] + "," + r["out_bits"][1], 0)
        else:
            # a hint GlGadgets.tla has no game for: probed by the FOREIGN guard (generic alternatives), not by the site lemma
            key = ("foreign", r["hint"], 0)
        classes.setdefault(key, []).append(r)
    return classes


def site_lemma_tla(classes):
    """Generate the typed Apalache module with literal constants for the recorded classes."""
    # both obligations are monotone in the bound: one class per (hint, enforced width) with the largest bound
    grouped = {}
    for k, v in classes.items():
        if k[0] in ("reduce", "muladd"):
            g = grouped.setdefault((k[0], k[1]), [0, []])
            g[0] = max(g[0], k[2])
            g[1] += v
    red = [((k[0], k[1], g[0]), g[1]) for k, g in sorted(grouped.items(), key=str)]
    lines = []
    lines.append("------------------------------- MODULE SiteLemma -------------------------------")
    lines.append("(* GENERATED from the per-static-site table recorded from the real verifier (checks/c05.py).")
    lines.append("   For every class c of hint sites (quotient width T[c] enforced on the quotient, exact interval bound U[c] of the")
    lines.append("   reduced integer): NoWrap: the constraint  q*P + rem = x  (mod R)  with q < T[c], rem < P, x <= U[c] < R holds over the")
    lines.append("   integers (k = 0), hence rem = x mod P is the only accepted result; Fit: the honest quotient x div P is below T[c]. *)")
    lines.append("EXTENDS Integers")
    lines.append("P == %d" % P)
    lines.append("R == %d" % R)
    lines.append("VARIABLES\n  \\* @type: Int;\n  cls,\n  \\* @type: Int;\n  x,\n  \\* @type: Int;\n  q,\n  \\* @type: Int;\n  rem,\n  \\* @type: Int;\n  k")
    nw, fit, fitinv = [], [], []
    for i, (k, v) in enumerate(red, 1):
        kind, w, U = k
        T = P if w == "canon" else (R if w in (-1, "unchecked") else 2 ** w)
        U = min(U, R - 1)
        nw.append("  \\/ (cls = %d /\\ x <= %d /\\ q < %d)" % (i, U, T))
        fit.append("  \\/ (cls = %d /\\ x <= %d)" % (i, U))
        fitinv.append("  /\\ (cls = %d => q < %d)" % (i, T))
    lines.append("ClsNoWrap ==\n" + "\n".join(nw))
    lines.append("ClsFit ==\n" + "\n".join(fit))
    lines.append("InitNoWrap ==\n  /\\ cls \\in Int /\\ x \\in Nat /\\ q \\in Nat /\\ rem \\in Nat /\\ rem < P /\\ k \\in Nat\n  /\\ q * P + rem = x + k * R\n  /\\ ClsNoWrap")
    lines.append("InvNoWrap == k = 0")
    lines.append("InitFit ==\n  /\\ cls \\in Int /\\ x \\in Nat /\\ q \\in Nat /\\ rem \\in Nat /\\ rem < P /\\ k = 0\n  /\\ q * P + rem = x\n  /\\ ClsFit")
    lines.append("InvFit ==\n" + "\n".join(fitinv))
    lines.append("Next == UNCHANGED <<cls, x, q, rem, k>>")
    lines.append("================================================================================")
    return "\n".join(lines) + "\n", red


# hint sites outside GlGadgets' four inside this code region are probed with generic alternatives after run() (bin/check, common.Ctx.foreign)
FOREIGN = (("goldilocks.",), ("testdata",))


def run(ctx):
    ctx.rule = ("every static hint site of the whole verifier (call chain of depth <= 6 inside the repository), first occurrence and "
                "one seeded occurrence, x every adversarial alternative of the model for that hint; trivial = the alternative coincides "
                "with the honest hint output (counted separately)")
    ctx.assumptions += [
        "the test engine's arithmetic and gnark's ToBinary/IsZero/Select are trusted",
        "interval bounds are exact upper bounds derived from range facts the proxy saw delivered; a value that went through the "
        "complete canonical check (C06) is bounded by p-1",
        "public inputs of the plain verifier circuit are assumed < 2^64 by the caller (stated in verifier.go); leaf-fed reduce sites use that bound",
    ]
    ctx.tlc("GlGadgets", "GlGadgets_c05.cfg")
    ctx.tlc("GlGadgets", "GlGadgets_c05_wide.cfg", expect_violation=True)
    insts = ["testdata", "random"]
    tables = {}
    for inst in insts:
        r = ctx.run_driver("c05", {"part": "sites", "instance": inst, "k": 1, "mode": "native"}, tag="sites-" + inst)
        tables[inst] = r["results"]
        ctx.extra["sites_" + inst] = {"static_sites": len(r["results"]), "hint_calls": r["info"].get("hint_calls")}
        ctx.traces_validated += 1
    allrows = {}
    for inst in insts:
        for row in tables[inst]:
            allrows.setdefault(row["site"], (inst, row))
    rows = [v[1] for v in allrows.values()]
    classes = site_classes(rows)
    ctx.extra["site_classes"] = [{"class": [str(x) if isinstance(x, int) and x > 2**62 else x for x in k], "sites": len(v),
                                  "calls": sum(r["count"] for r in v)} for k, v in sorted(classes.items(), key=str)]
    # leaf-fed public-input reduce: replace the unconstrained bound by the declared domain 2^64-1
    adj = {}
    for k, v in classes.items():
        if k[0] == "reduce" and k[2] >= R - 1 and all("HashNoPad<-verifier.(*VerifierChip).GetPublicInputsHash" in r["site"] for r in v):
            adj[("reduce", k[1], 2**64 - 1)] = v
        else:
            adj[k] = v
    text, red = site_lemma_tla(adj)
    d = ctx.scratch("sitelemma")
    path = os.path.join(d, "SiteLemma.tla")
    open(path, "w").write(text)
    nowrap = ctx.apalache_check(path, "InitNoWrap", "InvNoWrap", name="nowrap")
    fit = ctx.apalache_check(path, "InitFit", "InvFit", name="fit")
    bad_sites = set()
    for res, what in ((nowrap, "no-wrap"), (fit, "honest-fit")):
        if res["outcome"] != "NoError":
            st = res.get("cex", {}).get("states", [{}])[-1]
            ci = st.get("cls")
            if isinstance(ci, dict):
                ci = int(ci.get("#bigint", 0))
            cls = red[ci - 1] if ci and 0 < ci <= len(red) else None
            msg = "SiteLemma %s fails for class %s" % (what, [str(x) for x in cls[0]] if cls else "?")
            ctx.leads.append(msg + " sites=" + "; ".join(r["site"] for r in (cls[1] if cls else [])[:3]))
            if cls:
                for r in cls[1]:
                    bad_sites.add(r["site"])
            ctx.apalache[-1 if what == "honest-fit" else -2]["expected"] = "NoError"
    # ---- the generic moves against prover-supplied values GlGadgets has no game for (ForeignMoves.tla): which move wins against which
    #      set of constraints, decided by TLC and replayed on gnark's bit decomposition and a two-limb split; the FOREIGN guard of the checks
    #      plays exactly these moves at foreign hint sites, so a table mismatch is a drift of the machinery (incomplete run), not a violation
    fm = ctx.tlc("ForeignMoves", "ForeignMoves.cfg", workers=1, timeout=900)
    fr = ctx.run_driver("foreignself", {"table": os.path.join(fm["dir"], "foreign_table.json"), "shard": 0}, tag="foreignself")
    for v in fr.get("violations", []):
        ctx.deferred.append("ForeignMoves table mismatch: " + str(v.get("detail"))[:300])
    idle = [k for k in fr.get("info", {}).get("rows_move_never_applied", []) if not k.endswith("/plusR")]
    if idle:
        # a move that the model applies but the harness never played: the replay of that row is vacuous (machinery drift, not a violation)
        ctx.deferred.append("ForeignMoves replay: rows never exercised: " + ", ".join(idle[:5]))
    ctx.notes.append("ForeignMoves.tla table replayed on real gadgets: %d rows, %d mismatches; rows whose move applied to no input: %d "
                     "(expected: only 'the digits of x + r' at a narrow width, where the model's move does not apply either)"
                     % (fr.get("evaluations", 0), len(fr.get("violations", [])), len(fr.get("info", {}).get("rows_move_never_applied", []))))
    # ---- M1 at gadget level: operand classes on which an alternative would pass a weakened width check ------
    ctx.absorb(ctx.run_driver("c05", {"part": "gadget", "instance": "testdata"}, tag="gadget"), "c05")
    # ---- M1 on the gate evaluators with parameters the shipped circuits do not have: honest fit and the field-wrap alternative ----------
    for sh in range(4 if ctx.tier == "thorough" else 1):
        ctx.absorb(ctx.run_driver("c05", {"part": "gates", "instance": "testdata", "shard": ctx.seed * 10 + sh}, tag="gates-%d" % sh), "c05")
    # ---- M1 injection -------------------------------------------------------------------------------------
    rnd = random.Random(ctx.seed * 31 + 5)
    per_inst = {i: [] for i in insts}
    for site, (inst, row) in sorted(allrows.items()):
        samp = row["sample"]  # (occurrence, global hint index): occurrence 0 first, then a seeded reservoir
        picks = [samp[0]]
        rest = [x for x in samp[1:] if x[0] != 0]
        if rest:
            if ctx.tier == "thorough":
                picks += rest
            else:
                picks.append(rnd.choice(rest))
        strats = STRATS.get(row["hint"], [])
        if not strats:
            continue
        if ctx.tier == "quick" and site not in bad_sites:
            # quick: every site gets the field-wrap alternative and one seeded other alternative
            strats = [strats[0]] + ([rnd.choice(strats[1:])] if len(strats) > 1 else [])
        for occ, glob in picks:
            for st in strats:
                per_inst[inst].append({"site": site, "hint": row["hint"], "occ": occ, "global": glob, "strat": st})
    for inst in insts:
        cases = per_inst[inst]
        if not cases:
            continue
        r = ctx.run_driver_sharded("c05", {"part": "inject", "instance": inst, "k": 1, "mode": "native"}, cases, timeout=3000)
        ctx.absorb(r, "c05")
        ctx.extra["inject_" + inst] = {"cases": len(cases), "trivial": r["trivial"]}


def replay(ctx, rec):
    c = rec["case"]
    out = 0
    for inst in ("testdata", "random"):
        try:
            r = ctx.run_driver("c05", {"part": "inject", "instance": inst, "k": 1, "mode": "native", "cases": [c]})
        except common.MachineryError:
            continue
        for v in r["violations"]:
            print("REPRODUCED", v["sig"], "::", v["detail"])
            out = 1
    if out:
        print("VIOLATION property=C05 replay=(replayed)")
    else:
        print("not reproduced on the current tree")
    return out
