"""C08 - extension-field arithmetic matches GF(p^2) and its degree-2 algebra.

M3: ExtField.tla - the algorithms in the shape of the code (schoolbook product with one deferred reduction, fused multiply-add and
    sub-multiply, inverse through the Frobenius conjugate, the exponentiation bit loop with its special cases, Horner reduction from
    the last term, inner products, the algebra product through two inner products) against the field-theoretic definitions,
    exhaustively on GF(13^2) (all 169^2 pairs where binary), including the unreduced bounds of the deferred reductions.
M1: the real gadgets on edge coordinates {0, 1, p-1, 2^32-1, 2^32} and seeded random operands, exponents {0,1,2,...,2^20, 2^63,
    2^64-1, random}, term lists of length 0..300, the algebra operations and partial barycentric interpolation; zero
    inversion / division must be rejected.  Oracle: math/big GF(p^2) arithmetic (harness/gf) - the interpretation of the
    definitions at the real p.
"""
from concurrent.futures import ThreadPoolExecutor

from . import common


# hint sites other than GlGadgets' four inside the extension gadgets of the whole verifier are probed with generic alternatives
FOREIGN = (("Extension",), ("testdata",))


def run(ctx):
    ctx.rule = ("operation x operand tuple x mode; operands: every third drawn from the edge-coordinate set, others seeded random; exponents: fixed boundary set + "
                "seeded; list lengths {0,1,2,3,7,16,100,300} + seeded; distinct = distinct operand tuples per operation")
    ctx.assumptions += ["harness/gf (math/big) is the interpretation of the definitions at the real p",
                        "InnerProductExtension is exercised up to 14 pairs: its single deferred reduction is specified for accumulations within RANGE_CHECK_NB_BITS"]
    ctx.tlc("ExtField", "ExtField.cfg", workers=1)
    thorough = ctx.tier == "thorough"
    jobs = []
    for mode in ("native", "plain"):
        m = 40 if thorough else 2
        for part, nr in (("binary", 60 * m), ("unary", 40 * m), ("zero", 0), ("exp", 15 * m), ("batch", 4 * m), ("lists", 3 * m), ("algebra", 15 * m)):
            if mode == "plain" and part in ("lists",):
                nr = 0
            for i in range((12 if thorough else 3) if part in ("binary", "algebra", "exp", "unary") else 1):
                jobs.append({"part": part, "mode": mode, "nrandom": nr, "shard": i})
    # programs of extension-field operations compiled with gnark's real builders (R1CS, SCS): registers used again after they were
    # operands, a register given as compile-time constant
    for i in range(6 if thorough else 2):
        jobs.append({"part": "real", "mode": "plain", "nrandom": 40 if thorough else 12, "shard": 40 + i})

    def one(j):
        return ctx.run_driver("c08", j, tag="%s-%s-%d" % (j["part"], j["mode"], j["shard"]), timeout=3000)

    with ThreadPoolExecutor(max_workers=common.NCPU) as ex:
        for rr in ex.map(one, jobs):
            ctx.absorb(rr, "c08")


def replay(ctx, rec):
    run(ctx)
    for v in ctx.violations:
        print("REPRODUCED", v["sig"], "::", v.get("detail"))
    return 1 if ctx.violations else 0
