"""C13 - FRI query algebra equals the reference fold, combination and final evaluation.

M3: FriAlgebra.tla - domain point, initial combination, coset fold (Lagrange form, total in beta) and final polynomial as TERMS,
    checked on the scaled field GF(241^2) (LDE domain 16, arity 4) against the polynomial definitions (basis argument: exhaustive
    in the polynomial and in beta); FriQuery.tla - the control structure of VerifyFriProof (checks per round, path lengths).
M1: the terms instantiated by TLC for the real parameters (FriAlgebraEmit) evaluated by harness/terms and compared with the real
    sub-gadgets (export wrappers): all 16 within-coset bit patterns, beta on the coset / zero / random / edge, real and small batch
    sizes, domain indices incl. 0, 2^n-1 and random; final polynomials of several lengths.
M2: the FRI hook trace of whole honest verifier runs must equal the behaviour FriQuery.tla prescribes for the configuration
    (index-bit provenance, cap selection, path lengths, one index challenge per round, proof-of-work width).
"""
import json
import os
import random
from concurrent.futures import ThreadPoolExecutor

from . import common
from .c11 import INSTANCES

COMMON = {
    "testdata": "gnark-plonky2-verifier/testdata/test_circuit/common_circuit_data.json",
    "roottest": "gnark-plonky2-verifier/testdata/test_circuit/common_circuit_data.json",
    "random": "near_bft_finality/proofs/random/CGZPhFRkL3NvmGaXWBc6N7qJD519EUe6vyNpaEyDe2Ev/common_data.json",
    "epochCb": "near_bft_finality/proofs/epoch/CbAHBGJ8VQot2m6KhH9PLasMgcDtkPJBfp9bjAEMJ8UK/common_data.json",
    "epoch4R": "near_bft_finality/proofs/epoch/4RjXBrNcu39wutFTuFpnRHgNqgHxLMcGBKNEQdtkSBhy/common_data.json",
}


def common_of(inst):
    return json.load(open(os.path.join(common.REPO, COMMON[inst])))


def friquery_files(ctx, inst, k, trace_path):
    """Generate the instance module (sequence constants) and cfg for FriQueryTrace."""
    cd = common_of(inst)
    cfgc = cd["config"]
    nc = cfgc["num_challenges"]
    ar = cd["fri_params"]["reduction_arity_bits"]
    lde = cd["fri_params"]["degree_bits"] + cd["fri_params"]["config"]["rate_bits"]
    leaf = [cd["num_constants"] + cfgc["num_routed_wires"], cfgc["num_wires"], nc * (1 + cd["num_partial_products"]), nc * cd["quotient_degree_factor"]]
    name = "FriQueryInst_" + inst
    mod = ("---- MODULE %s ----\nEXTENDS FriQueryTrace\nInstArities == <<%s>>\nInstLeafLens == <<%s>>\n====\n"
           % (name, ", ".join(map(str, ar)), ", ".join(map(str, leaf))))
    cfg = ("CONSTANTS NRounds = %d  Arities <- InstArities  LdeBits = %d  CapH = %d  LeafLens <- InstLeafLens  PowBits = %d  NChallengesBefore = %d\n"
           "SPECIFICATION Spec\nINVARIANTS AllChecksDone PathLengths PrefixMatches TraceMatches\n"
           % (k, lde, cd["fri_params"]["config"]["cap_height"], cd["fri_params"]["config"]["proof_of_work_bits"], 3 * nc + 4 + 2 * len(ar) + 1))
    d = ctx.scratch("fq-" + inst)
    open(os.path.join(d, name + ".tla"), "w").write(mod)
    open(os.path.join(d, name + ".cfg"), "w").write(cfg)
    return name, {os.path.join(d, name + ".tla"): name + ".tla", os.path.join(d, name + ".cfg"): name + ".cfg", trace_path: "friquery_trace.ndjson"}


def validate_fri_trace(ctx, inst, k, tag=""):
    tf = os.path.join(ctx.scratch("fqtrace"), inst + tag + ".ndjson")
    ctx.run_driver("fritrace", {"instance": inst, "k": k, "trace_file": tf}, tag="fq-" + inst + tag)
    name, files = friquery_files(ctx, inst, k, tf)
    res = ctx.tlc(name, name + ".cfg", workers=1, extra_files=files, name="fq-" + inst + tag)
    return res, tf, name


# hint sites outside GlGadgets' four inside this code region are probed with generic alternatives after run() (bin/check, common.Ctx.foreign)
FOREIGN = (("fri.",), ("testdata",))


def run(ctx):
    ctx.rule = ("sub-gadget x parameterisation x operand tuple: domain indices {0,1,2^n-1,seeded}; batch sizes of the real circuits and small ones with seeded "
                "evaluations/openings/alpha/x; all 16 within-coset positions x {beta on the coset, structured values, beta = 0, seeded}; final polynomials; distinct = distinct tuples")
    ctx.assumptions += ["real-field values of the terms are computed by harness/terms (math/big); the scaled-field check shows the formula is the interpolant",
                        "1- and 3-step FRI configurations are covered at sub-gadget level only (no honest proofs with those shapes exist in the repository)"]
    thorough = ctx.tier == "thorough"
    ctx.tlc("FriAlgebraCheck", "FriAlgebraCheck.cfg", workers=8)
    ctx.tlc("FriQuery", "FriQuery.cfg", workers=1)
    rnd = random.Random(ctx.seed * 29 + 13)
    # request for the term generator
    reqs = {}
    sizes = []
    nlogs = set()
    for inst in ("testdata", "random"):
        cd = common_of(inst)
        c = cd["config"]
        nc = c["num_challenges"]
        b0 = cd["num_constants"] + c["num_routed_wires"] + c["num_wires"] + nc * (1 + cd["num_partial_products"]) + nc * cd["quotient_degree_factor"]
        sizes.append([b0, nc])
        nlogs.add(cd["fri_params"]["degree_bits"] + cd["fri_params"]["config"]["rate_bits"])
    sizes += [[1], [3, 1], [2, 2, 2], [0, 1], [1, 4], [2, 5], [1, 6], [3, 8], [2, 12]]   # second-batch sizes are the exponents of alpha
    final_lens = sorted({1, 2, 16, len(json.load(open(os.path.join(common.REPO, INSTANCES["testdata"][0])))["proof"]["opening_proof"]["final_poly"]["coeffs"])})
    tfiles = []
    for nlog in sorted(nlogs | {4, 9}):
        idxs = sorted({0, 1, 2 ** nlog - 1, 2 ** (nlog - 1)} | {rnd.randrange(2 ** nlog) for _ in range(40 if thorough else 10)})
        d = ctx.scratch("friemit-%d" % nlog)
        rq = os.path.join(d, "fri_request.json")
        json.dump({"nlog": nlog, "indices": idxs, "sizes": sizes if nlog == max(nlogs) else [[1]], "arity_bits": 4, "final_lens": final_lens}, open(rq, "w"))
        r = ctx.tlc("FriAlgebraEmit", "FriAlgebraEmit.cfg", workers=1, extra_files={rq: "fri_request.json"}, name="friemit-%d" % nlog)
        tfiles.append((nlog, os.path.join(r["dir"], "fri_terms.json")))
    jobs = []
    main_terms = [t for n, t in tfiles if n == max(nlogs)][0]
    # the subgroup points of all domain sizes in one process, sizes in descending and then ascending order (a root of unity or a
    # power table remembered from another size must not leak)
    by_size = [t for n, t in sorted(tfiles, reverse=True)]
    jobs.append({"terms": by_size[0], "more_terms": by_size[1:] + by_size[::-1], "part": "subgroup", "shard": 0, "nshards": 1})
    nsh = 6
    for i in range(nsh):
        jobs.append({"terms": main_terms, "part": "fold", "nrandom": 40 if thorough else 2, "shard": i, "nshards": nsh})
    for i in range(4):
        jobs.append({"terms": main_terms, "part": "combine", "nrandom": 25 if thorough else 3, "shard": i, "nshards": 4})
    jobs.append({"terms": main_terms, "part": "final", "nrandom": 80 if thorough else 4, "shard": 0})
    jobs.append({"terms": main_terms, "part": "round", "shard": 0})

    def one(j):
        return ctx.run_driver("c13", j, tag="%s-%d-%s" % (j["part"], j["shard"], os.path.basename(os.path.dirname(j["terms"]))), timeout=3000)

    with ThreadPoolExecutor(max_workers=common.NCPU) as ex:
        for rr in ex.map(one, jobs):
            ctx.absorb(rr, "c13")
    # ---- M2 --------------------------------------------------------------------------------------------------
    for inst in (list(INSTANCES) if thorough else ["testdata", "random"]):
        k = 3 if not thorough else 28
        res, tf, name = validate_fri_trace(ctx, inst, k)
        if res["ok"]:
            ctx.traces_validated += 1
        else:
            ctx.leads.append("FriQueryTrace rejected the FRI hook trace of %s (%s)" % (inst, res.get("violated_name")))
            ctx.extra["fq_tail_" + inst] = res["output"][-1500:]
            continue
        if inst == "testdata":
            recs = [json.loads(x) for x in open(tf)]
            j = rnd.choice([i for i, r in enumerate(recs) if r["ev"] == "merkle"])
            bad = [dict(x) for x in recs]
            bad[j]["nsib"] -= 1
            b1 = os.path.join(ctx.scratch("fqtrace"), "bad1.ndjson")
            common.write_ndjson(b1, bad)
            _, files = friquery_files(ctx, inst, k, b1)
            r1 = ctx.tlc(name, name + ".cfg", workers=1, extra_files=files, name="fq-neg1")
            b2 = os.path.join(ctx.scratch("fqtrace"), "bad2.ndjson")
            common.write_ndjson(b2, [x for t, x in enumerate(recs) if t != j])
            _, files = friquery_files(ctx, inst, k, b2)
            r2 = ctx.tlc(name, name + ".cfg", workers=1, extra_files=files, name="fq-neg2")
            if r1["ok"] or r2["ok"]:
                ctx.deferred.append("FRI trace binding self-test failed (corrupted trace accepted)")  # incomplete run (exit 2 unless a violation was reproduced); the remaining parts still run
            ctx.extra["trace_negative_selftests"] = 2


def replay(ctx, rec):
    run(ctx)
    for v in ctx.violations:
        print("REPRODUCED", v["sig"])
    return 1 if ctx.violations else 0
