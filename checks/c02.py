"""C02 - valid plonky2 proofs are accepted under every range-check configuration.

M3: Verifier.tla (Completeness: no perturbation => accept), RangeChip.tla (every mode delivers every request; the commit mode needs the
    base width 16 and aligned widths), Challenger.tla (PrefixStable: the first k query indices do not depend on how many are drawn -
    what makes k-round restrictions valid instances), apalache SiteLemma "Fit" generated from the recorded site table (an honest
    quotient always fits the enforced width for every operand within the site's interval bound: acceptance never depends on luck).
M1: every available valid proof x k x {native, commit, bit decomposition} x {VerifierCircuit, CircuitFixed (16-input circuit; the
    97-input circuit must be refused by the wrapper)} on the real code; all must accept.
M2: the per-site table of the honest run is the constant of the Apalache obligation.
"""
import os
import random
from concurrent.futures import ThreadPoolExecutor

from . import common
from . import c05
from .verifier_common import ALL_INSTANCES, CIRCUIT


def run(ctx):
    ctx.rule = ("(instance, k, range-check mode, wrapper); quick: all five proofs x k in {1, 28} x three modes (commit at k = 28 for one proof per circuit), "
                "thorough: k = 1..28 x three modes; distinct = distinct tuples")
    ctx.assumptions += ["'all valid proofs' are the five valid instances in the repository and their query-round prefixes",
                        "interval bounds of the site table are sound upper bounds (C05)"]
    thorough = ctx.tier == "thorough"
    ctx.tlc("Verifier", "Verifier.cfg", workers=8)
    ctx.tlc("RangeChip", "RangeChip.cfg")
    ctx.tlc("Challenger", "Challenger.cfg", workers=8, timeout=900)
    # honest fit at the real sizes from the recorded site table
    rows = {}
    for inst in ("testdata", "random"):
        r = ctx.run_driver("c05", {"part": "sites", "instance": inst, "k": 1, "mode": "native"}, tag="sites-" + inst)
        if r.get("failed"):
            # the honest run of the site recorder was itself rejected: the acceptance cases below decide (and report) that
            ctx.leads.append("the site table of %s could not be recorded: %s" % (inst, (r.get("info") or {}).get("driver_error")))
            continue
        ctx.traces_validated += 1
        for row in r.get("results", []):
            rows.setdefault(row["site"], row)
    classes = c05.site_classes(list(rows.values()))
    adj = {}
    for k, v in classes.items():
        if k[0] == "reduce" and k[2] >= c05.R - 1 and all("GetPublicInputsHash" in r["site"] for r in v):
            adj[("reduce", k[1], 2**64 - 1)] = v
        else:
            adj[k] = v
    text, red = c05.site_lemma_tla(adj)
    path = os.path.join(ctx.scratch("sitelemma"), "SiteLemma.tla")
    open(path, "w").write(text)
    fit = ctx.apalache_check(path, "InitFit", "InvFit", name="fit")
    ctx.apalache[-1]["expected"] = "NoError"
    if fit["outcome"] != "NoError":
        ctx.leads.append("SiteLemma honest-fit fails: an honest quotient may not fit at some site (see C05)")
    rnd = random.Random(ctx.seed * 83 + 2)
    cases = []
    for inst in ALL_INSTANCES:
        ks = range(1, 29) if thorough else [1, 28]
        for k in ks:
            for mode in ("native", "plain", "commit"):
                if mode == "commit" and not thorough and k == 28 and inst not in ("testdata", "random"):
                    continue
                cases.append({"instance": inst, "k": k, "mode": mode, "wrapper": "vc"})
                if (k in (1, 28) or thorough) and (mode != "commit" or k == 1 or thorough):
                    cases.append({"instance": inst, "k": k, "mode": mode, "wrapper": "fixed"})
    if not thorough:
        # the number of collected range checks grows with the number of query rounds; anything keyed to that count (batching, base-width
        # selection) may misbehave at some k only: a few seeded k under the commit checker for one proof of each circuit
        for inst in ("testdata", "random"):
            for k in rnd.sample(range(2, 28), 3):
                cases.append({"instance": inst, "k": k, "mode": "commit", "wrapper": "vc"})
    # compiled with gnark's real builders (what `cmd compile` does) and solved with the honest witness: a builder's variables are linear
    # expressions / terms, it folds constants and orders deferred callbacks - none of which exists on the test engine
    real = [{"instance": "testdata", "k": 1, "mode": "commit", "wrapper": "vc", "sys": "r1cs"},
            {"instance": "testdata", "k": 1, "mode": "commit", "wrapper": "fixed", "sys": "r1cs"},
            {"instance": "random", "k": 1, "mode": "commit", "wrapper": "vc", "sys": "scs"}]
    if thorough:
        real += [{"instance": "random", "k": 1, "mode": "commit", "wrapper": "vc", "sys": "r1cs"},
                 {"instance": "testdata", "k": 2, "mode": "commit", "wrapper": "vc", "sys": "scs"},
                 {"instance": "testdata", "k": 1, "mode": "commit", "wrapper": "fixed", "sys": "scs"}]
        # the bit-decomposition override on a real builder needs about 15 GB: alone, before the parallel part
        ctx.absorb(ctx.run_driver("wrapper", {"part": "accept", "accept": [{"instance": "testdata", "k": 1, "mode": "plain", "wrapper": "vc", "sys": "r1cs"}], "shard": 99},
                                  tag="acc-real-plain", timeout=3500), "wrapper")
    cases += real
    # heavy cases first
    cost = {"commit": 24, "plain": 15, "native": 3}
    cases.sort(key=lambda c: -(cost[c["mode"]] * c["k"] + (200 if c.get("sys") else 0)))
    ctx.extra["cases"] = len(cases)

    def balance(cs, nsh):
        shards = [[] for _ in range(nsh)]
        load = [0] * nsh
        for c in cs:
            j = load.index(min(load))
            shards[j].append(c)
            load[j] += cost[c["mode"]] * c["k"] + (200 if c.get("sys") else 0)
        return [sh for sh in shards if sh]

    # memory: a whole-verifier run under the commit checker with many query rounds holds every collected check (up to 10 GB), a real
    # builder 3-5 GB: those run four at a time, everything else on all cores
    heavy = [c for c in cases if c.get("sys") or (c["mode"] == "commit" and c["k"] >= 10)]
    light = [c for c in cases if not (c.get("sys") or (c["mode"] == "commit" and c["k"] >= 10))]
    for part, cs, nw in (("heavy", heavy, 4), ("light", light, common.NCPU)):
        shards = balance(cs, nw)

        def one(i, shards=shards, part=part):
            return ctx.run_driver("wrapper", {"part": "accept", "accept": shards[i], "shard": i}, tag="acc-%s-%d" % (part, i), timeout=7000)

        with ThreadPoolExecutor(max_workers=nw) as ex:
            for rr in ex.map(one, range(len(shards))):
                ctx.absorb(rr, "wrapper")


def replay(ctx, rec):
    r = ctx.run_driver("wrapper", {"part": "accept", "accept": [rec["case"]], "shard": 0})
    for v in r["violations"]:
        print("REPRODUCED", v["sig"], "::", v["detail"])
    print("VIOLATION property=C02 replay=(replayed)" if r["violations"] else "not reproduced on the current tree")
    return 1 if r["violations"] else 0
