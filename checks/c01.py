"""C01 - tampered or mismatched proofs are rejected by the verifier circuit.

M3: Verifier.tla - the verifier as a phase machine over abstract data (ideal Fiat-Shamir, ideal algebra, ideal Merkle): with the
    verifier key pinned every non-trivial single perturbation ends in reject (Sound); the model of the implementation (key not
    pinned) yields, per leaf class / kind / "selected" flag, the allowed verdicts and the check that fails first.
M1: leaf perturbations (+1, -1, random, swap with neighbour, zero) of every leaf class of real proofs, the circuit digest, the
    other circuit's verifier data, and single-constant changes of the circuit description (coset shifts, selector indices / group
    bounds, gate identifiers, degree factors) replayed on the whole real verifier circuit; verdict must be one the model allows.
M2: FRI and challenger hook traces of the honest runs validated against FriQuery.tla / Challenger.tla+Transcript.tla.
"""
import json
import os
import random
from concurrent.futures import ThreadPoolExecutor

from . import common
from .verifier_common import model_table, inventory, pick_instances, CIRCUIT
from .c13 import validate_fri_trace, common_of

KINDS = ["+1", "-1", "random", "swap", "zero"]


def sample_cases(ctx, inv, rnd, per_pair):
    """Every (class, perturbation) pair at least `per_pair` times, positions chosen from the seed."""
    by_cls = {}
    for li in inv:
        if li["cls"] == "VD.cap":
            continue  # a changed key commitment entry is C04's subject
        by_cls.setdefault((li["cls"], li["sel"]), []).append(li)
    cases = []
    for (cls, sel), leaves in sorted(by_cls.items()):
        for kind in KINDS:
            for li in rnd.sample(leaves, min(per_pair, len(leaves))):
                cases.append({"path": li["path"], "kind": kind, "cls": cls, "sel": sel})
    return cases


def cd_cases(inst, rnd, thorough):
    cd = common_of(inst)
    cases = []
    nr = cd["config"]["num_routed_wires"]
    js = range(nr) if thorough else sorted(rnd.sample(range(nr), 6) + [0, nr - 1])
    for j in js:
        cases.append({"field": "k_is.%d" % j, "op": "+1"})
    ng = len(cd["gates"])
    # a gate without constraints (Gates.tla: NumConstraints(NoopGate) = 0) contributes nothing to the identity, whatever its filter:
    # the proof does not depend on its selector index, so changing it is not a case of the property
    constrained = [g for g in range(ng) if not cd["gates"][g].startswith("NoopGate")]
    for g in (constrained if thorough else rnd.sample(constrained, 3)):
        cases.append({"field": "selectors_info.selector_indices.%d" % g, "op": "set:%d" % ((cd["selectors_info"]["selector_indices"][g] + 1) % len(cd["selectors_info"]["groups"]))})
    for gi in range(len(cd["selectors_info"]["groups"])):
        cases.append({"field": "selectors_info.groups.%d.start" % gi, "op": "+1"})
        cases.append({"field": "selectors_info.groups.%d.end" % gi, "op": "-1"})
    # gate identifiers: swap a gate for its neighbour's identifier; change one numeric parameter
    import re
    swaps = set(range(ng) if thorough else rnd.sample(range(ng), 4))
    for g in range(ng):  # every gate's parameters in both tiers (a run at one query round is cheap); identifier swaps sampled in the quick tier
        gid = cd["gates"][g]
        other = cd["gates"][(g + 1) % ng]
        if g in swaps:
            cases.append({"field": "gates.%d" % g, "op": "set:" + json.dumps(other)})
        m = list(re.finditer(r"(num_ops|num_limbs|num_consts|num_coeffs|num_power_bits|bits|num_copies|degree): (\d+)", gid))
        for mm in m[:2]:
            v = int(mm.group(2))
            ng2 = gid[:mm.start(2)] + str(v + 1) + gid[mm.end(2):]
            cases.append({"field": "gates.%d" % g, "op": "set:" + json.dumps(ng2)})
    cases.append({"field": "quotient_degree_factor", "op": "-1"})
    cases.append({"field": "num_partial_products", "op": "-1"})
    # a grinding difficulty far above the leading zeros any shipped response has (16..18): the copy the proof-of-work check reads
    cases.append({"field": "fri_params.config.proof_of_work_bits", "op": "set:40"})
    cases.append({"field": "fri_params.config.proof_of_work_bits", "op": "set:27"})
    cases.append({"field": "fri_params.degree_bits", "op": "+1"})
    cases.append({"field": "fri_params.degree_bits", "op": "-1"})
    return cases


# hint sites outside GlGadgets' four inside this code region are probed with generic alternatives after run() (bin/check, common.Ctx.foreign)
FOREIGN = ((), ("testdata", "random"))


def run(ctx):
    ctx.rule = ("(instance, k, leaf, perturbation): every (leaf class, selected flag) x {+1,-1,random,swap,zero} with seeded positions, the circuit digest, "
                "the other circuit's verifier data; circuit-description changes: coset shifts k_is[j], selector indices, group bounds, gate identifiers and "
                "parameters, degree factors; trivial (counted separately) = perturbed value equals the original / equal neighbours")
    ctx.assumptions += ["ideal Fiat-Shamir / algebra / Merkle in Verifier.tla; the real runs decide the verdicts (spurious accept probability <= 2^-16 via proof-of-work luck, "
                        "which the model exposes as powLuck)",
                        "a changed verifier-key commitment entry is the subject of C04, not of C01",
                        "circuit-description changes are expected to be rejected or refused generically (the vanishing identity at a random zeta); no independent native verifier is used"]
    thorough = ctx.tier == "thorough"
    table = model_table(ctx)
    ctx.extra["model_table_rows"] = len(table)
    rnd = random.Random(ctx.seed * 53 + 1)
    insts = pick_instances(ctx)
    jobs = []
    for inst in insts:
        k = 2
        inv = inventory(ctx, inst, k)
        unclassified = [li["path"] for li in inv if li["cls"].startswith("unclassified")]
        if unclassified:
            raise common.MachineryError("leaf classes missing for %s" % unclassified[:3])
        ctx.extra["leaves_" + inst] = len(inv)
        cases = sample_cases(ctx, inv, rnd, 6 if thorough else 1)
        if thorough:
            # every transcript-bound leaf (not in a query round) x every perturbation; one query round suffices for these (and halves the cost)
            tb = []
            for li in inventory(ctx, inst, 1):
                if li["round"] < 0 and li["cls"] != "VD.cap":
                    for kind in KINDS:
                        tb.append({"path": li["path"], "kind": kind, "cls": li["cls"], "sel": li["sel"]})
            for i in range(common.NCPU):
                if tb[i::common.NCPU]:
                    jobs.append({"part": "perturb", "instance": inst, "k": 1, "cases": tb[i::common.NCPU], "table": table, "shard": 100 + i})
        other = [x for x in ("testdata", "random") if CIRCUIT[x] != CIRCUIT[inst]][0]
        cases.append({"path": "", "kind": "vd_other:" + other, "cls": "VD", "sel": False})
        nsh = common.NCPU if thorough else 6
        for i in range(nsh):
            part = cases[i::nsh]
            if part:
                jobs.append({"part": "perturb", "instance": inst, "k": k, "cases": part, "table": table, "shard": i})
        cds = cd_cases(inst, rnd, thorough)
        for i in range(4):
            if cds[i::4]:
                jobs.append({"part": "cdconst", "instance": inst, "k": 1, "cdcases": cds[i::4], "shard": 50 + i})

    def one(j):
        if j["part"] == "two":
            return ctx.run_driver("wrapper", j, tag="two-" + j["instance"], timeout=3400)
        return ctx.run_driver("c01", j, tag="%s-%s-%d" % (j["part"], j["instance"], j["shard"]), timeout=3400)

    # one verifier chip used for two proofs: a changed leaf of the second proof must be rejected as it is alone
    for pair in (("testdata+roottest", "epochCb+epoch4R") if thorough else ("testdata+roottest",)):
        jobs.append({"part": "two", "instance": pair, "k": 1, "ks": ["value"], "stride": 24 if thorough else 6, "shard": 71})

    fb = 0
    with ThreadPoolExecutor(max_workers=common.NCPU) as ex:
        for rr in ex.map(one, jobs):
            ctx.absorb(rr, "c01")
            fb += (rr.get("info") or {}).get("first_blame_mismatch", 0)
            if (rr.get("info") or {}).get("first_blame_example"):
                ctx.extra.setdefault("first_blame_examples", []).append(rr["info"]["first_blame_example"])
    ctx.extra["first_failing_check_differs_from_model"] = fb
    if fb:
        ctx.leads.append("SPEC-DRIFT: %d rejected cases failed at another check than Verifier.tla names first (verdicts agree)" % fb)
    # ---- M2 ---------------------------------------------------------------------------------------------
    for inst in insts[:2]:
        res, tf, name = validate_fri_trace(ctx, inst, 2, tag="-c01")
        if res["ok"]:
            ctx.traces_validated += 1
        else:
            ctx.leads.append("FriQueryTrace rejected the honest trace of " + inst)


def replay(ctx, rec):
    c = rec["case"]
    table = model_table(ctx)
    if "cd" in c:
        r = ctx.run_driver("c01", {"part": "cdconst", "instance": c["instance"], "k": 1, "cdcases": [c["cd"]], "shard": 0})
    else:
        r = ctx.run_driver("c01", {"part": "perturb", "instance": c["instance"], "k": c["k"], "cases": [c["case"]], "table": table, "shard": 0})
    for v in r["violations"]:
        print("REPRODUCED", v["sig"], "::", v["detail"])
    print("VIOLATION property=C01 replay=(replayed)" if r["violations"] else "not reproduced on the current tree")
    return 1 if r["violations"] else 0
