"""C19 - proof and circuit-data deserialization is faithful and position-preserving.

M3: Deser.tla - the path correspondence between document leaves and assignment leaves (one rule per leaf kind, for the proof, the
    verifier-only data and the common circuit data); for every small shape the instantiated correspondence is a bijection with the
    leaf count the shape prescribes.
M1: documents of seeded random shapes with a distinct random value at every leaf (64-bit values up to 2^64-1, BN254-sized decimal
    strings up to r-1) are read by the real functions and every assignment leaf is compared at the path the rules give (and the
    leaf counts must agree); single-value corruptions (non-numeric / hexadecimal / padded / empty strings, negative, >= 2^64 or
    fractional numbers, wrong JSON types, scalars for lists) must be refused at reading or at witness creation.
Beyond the property (leads only): CompileArtifacts.tla - save / crash / load histories of the build artifacts replayed on the real
    SaveVerifierCircuitGroth / LoadGroth16* with crash points produced through the code's own write path.
"""
import os
from concurrent.futures import ThreadPoolExecutor

from . import common


def run(ctx):
    ctx.rule = ("documents: seeded shapes (cap size, rounds, steps, trees, leaf widths, sibling counts, opening counts all random per list) with distinct random values; "
                "corruptions: seeded leaf x malformed variant of its type; distinct = distinct documents / (leaf, variant) pairs")
    ctx.assumptions += ["a hash string denoting an integer >= r (or negative) is taken modulo r by gnark's witness assignment: the property's 'same residue'"]
    r = ctx.tlc("Deser", "Deser.cfg", workers=1, timeout=900)
    rules = os.path.join(r["dir"], "deser_rules.json")
    thorough = ctx.tier == "thorough"
    nsh = 8

    def one(i):
        return ctx.run_driver("c19", {"rules": rules, "ndocs": 40 if thorough else 6, "ncorr": 40 if thorough else 12, "shard": i}, tag="c19-%d" % i, timeout=3000)

    with ThreadPoolExecutor(max_workers=nsh) as ex:
        for rr in ex.map(one, range(nsh)):
            ctx.absorb(rr, "c19")

    # ---- beyond the listed property: the build artifacts written by cmd/compile.go and read by cmd/web-api.go ----------
    ctx.tlc("CompileArtifacts", "CompileArtifacts.cfg", workers=2)
    ctx.tlc("CompileArtifacts", "CompileArtifacts_resave.cfg", workers=2, expect_violation=True)
    r = ctx.tlc("CompileArtifacts", "CompileArtifacts_emit.cfg", workers=1)
    step = 1 if thorough else 7
    for drvname, label in (("artifacts", "CompileArtifacts (Groth16 files)"), ("artifacts_plonk", "CompileArtifacts (Plonk files)")):
        rr = ctx.run_driver(drvname, {"cases": os.path.join(r["dir"], "artifact_cases.json"), "from": ctx.seed % step, "step": step}, tag=drvname, timeout=1800)
        ctx.absorb_beyond(rr, label)


def replay(ctx, rec):
    run(ctx)
    for v in ctx.violations:
        print("REPRODUCED", v["sig"], "::", v.get("detail"))
    return 1 if ctx.violations else 0
