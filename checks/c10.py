"""C10 - BN254 Poseidon hashing and hash/field conversions are exact and collision-free.

M3: PoseidonBn.tla (the optimised schedule of the Rust reference: every C and S constant used exactly once, in order) and
    Sponges.tla (kinds "bn"/"bnnoop": chunks of 9, 3 per state element, shortcut iff n <= 3) checked by TLC;
    apalache/Packing.tla at the real constants: 3-limb packing injective and wrap-free, 56-bit chunk digit lemma, every chunk
    canonical; the 64-bit chunk variant is shown to collide.
M1: 4-element states (0, 1, r-1, random), Goldilocks input lengths 0..30, two-to-one, ToVec on boundary hashes, on the real chip;
    oracle = the emitted schedule/plans with constants and vectors parsed from the repository's own Rust reference.
"""
import os
from concurrent.futures import ThreadPoolExecutor

from . import common, oracles


# hint sites outside GlGadgets' four inside this code region are probed with generic alternatives after run() (bin/check, common.Ctx.foreign)
FOREIGN = (("poseidon.(*BN254Chip)",), ("testdata",))


def run(ctx):
    ctx.rule = ("states: 6 structured (0, 0..3, r-1, single-hot) + seeded random; HashNoPad and HashOrNoop for every length 0..30 (edge + random "
                "inputs); two-to-one on boundary and random pairs; ToVec on 0, 1, r-1, 2^56 boundaries, 2^253, random; distinct = distinct inputs per function")
    ctx.assumptions += ["the reference is crypto/plonky2_bn128 (Rust) of the same repository: constants and test vectors are parsed from it, independent of the Go tables",
                        "gnark's full-width ToBinary is canonical (trusted); the five-chunk injectivity follows from the one-step digit lemma by induction"]
    files = oracles.emit(ctx, gl=False)
    for init, inv, want in (("InitPack3", "InvPack3", "NoError"), ("InitChunks", "InvChunks", "NoError"), ("InitChunks64", "InvChunks64", "Error")):
        a = ctx.apalache_check(os.path.join(common.SPEC, "apalache", "Packing.tla"), init, inv, name="pack-" + init)
        ctx.apalache[-1]["expected"] = want
        if a["outcome"] != want:
            raise common.MachineryError("Packing %s/%s: expected %s, got %s" % (init, inv, want, a["outcome"]))
    thorough = ctx.tier == "thorough"
    jobs = []
    for i in range(4):
        jobs.append({"part": "bnperm", "mode": "native", "nrandom": 600 if thorough else 30, "shard": i})
    for i in range(16 if thorough else 4):
        jobs.append({"part": "bnhash", "mode": "native", "maxlen": 30, "nrandom": 8 if thorough else 2, "shard": 20 + i})
    jobs.append({"part": "bnhash", "mode": "plain", "maxlen": 30, "nrandom": 0, "shard": 30})
    jobs.append({"part": "tovec", "mode": "native", "nrandom": 3000 if thorough else 120, "shard": 40})
    jobs.append({"part": "tovec", "mode": "plain", "nrandom": 40, "shard": 41})
    # compiled with gnark's real builders (R1CS, SCS) on witness inputs: linear-expression aliasing exists only there
    for i in range(3 if thorough else 1):
        jobs.append({"part": "bnreal", "mode": "plain", "shard": 50 + i})

    def one(j):
        rq = dict(files)
        rq.update(j)
        return ctx.run_driver("poseidon", rq, tag="%s-%s-%d" % (j["part"], j["mode"], j["shard"]), timeout=3000)

    with ThreadPoolExecutor(max_workers=common.NCPU) as ex:
        for rr in ex.map(one, jobs):
            ctx.absorb(rr, "poseidon")


def replay(ctx, rec):
    files = oracles.emit(ctx, gl=False)
    out = 0
    for part in ("bnperm", "bnhash", "tovec"):
        rq = dict(files)
        rq.update({"part": part, "mode": "native", "nrandom": 10, "maxlen": 30, "shard": 0})
        r = ctx.run_driver("poseidon", rq)
        for v in r["violations"]:
            print("REPRODUCED", v["sig"], "::", v["detail"][:300])
            out = 1
    print("VIOLATION property=C10 replay=(replayed)" if out else "not reproduced on the current tree")
    return out
