"""Shared pieces of the whole-verifier checks (C01, C04, C17, C20): the Verifier.tla table, leaf inventories, sampling."""
import json
import os
import random

from . import common

ALL_INSTANCES = ["testdata", "roottest", "random", "epochCb", "epoch4R"]
CIRCUIT = {"testdata": "A", "roottest": "A", "random": "B", "epochCb": "B", "epoch4R": "B"}


def model_table(ctx):
    """Run Verifier.tla (pinned: Sound must hold; unpinned: TLC must report the unselected-cap hole) and return the
    (class, kind, selected) -> allowed (verdict, first failing check) table of the model of the implementation."""
    ctx.tlc("Verifier", "Verifier.cfg", workers=8)
    ctx.tlc("Verifier", "Verifier_unpinned.cfg", workers=8, expect_violation=True)
    r = ctx.tlc("Verifier", "Verifier_emit.cfg", workers=1)
    cases = json.load(open(os.path.join(r["dir"], "verifier_cases.json")))
    table = {}
    for c in cases:
        k = "%s|%s|%s" % (c["cls"], c["kind"], "true" if c["sel"] else "false")
        v = [c["verdict"], c["first"]]
        if v not in table.setdefault(k, []):
            table[k].append(v)
    return table


def inventory(ctx, inst, k):
    r = ctx.run_driver("c01", {"part": "inventory", "instance": inst, "k": k}, tag="inv-%s-%d" % (inst, k))
    ctx.evaluations += r.get("evaluations", 0)
    return r["results"]


def pick_instances(ctx, n_quick=2):
    if ctx.tier == "thorough":
        return list(ALL_INSTANCES)
    rnd = random.Random(ctx.seed * 101 + 1)
    a = rnd.choice(["testdata", "roottest"])
    b = rnd.choice(["random", "epochCb", "epoch4R"])
    return [a, b][:n_quick]
