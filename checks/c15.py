"""C15 - gate evaluators equal plonky2 gate polynomials, with exact selector filtering.

M3: Gates.tla - every gate type as an operator from its parameters to plonky2's constraint terms (wire layouts included), the selector
    filter and the position-wise combination; GatesCheck.tla on the scaled field: rows built by the gates' generator semantics
    vanish, a changed defined wire does not (arithmetic, base sum incl. a non-digit limb, exponentiation = the power, random
    access, reducing), the filter is non-zero on its own row and zero on the others and on the unused marker.
M1: GatesEmit instantiates the terms for every parameterisation in the quantifier and for seeded selector layouts; the real
    Gate.EvalUnfiltered (resolved through GateInstanceFromId) and EvaluateGateConstraints are compared position by position with
    the evaluated terms on random and structured rows over GF(p^2).  The Poseidon gate: rows generated from the reference
    permutation (PoseidonGl schedule) must vanish for both swap values, every wire must matter, an output wire touches exactly its
    own constraint, 123 constraints.
"""
import json
import os
import random
from concurrent.futures import ThreadPoolExecutor

from . import common, oracles


def gate_requests(rnd, thorough):
    gs = []

    def add(kind, *p):
        gs.append({"kind": kind, "p": list(p) or [0]})
    ops = range(1, 21) if thorough else sorted(set([1, 2, 10, 13, 20] + rnd.sample(range(1, 21), 3)))
    for n in ops:
        add("ArithmeticGate", n)
        if n <= 16:
            add("ArithmeticExtensionGate", n)
        add("MulExtensionGate", n)
    limbs = range(1, 64) if thorough else sorted(set([1, 2, 32, 63] + rnd.sample(range(1, 64), 3)))
    for l in limbs:
        for b in (2, 3, 4):
            if thorough or b == 2 or l in (1, 63):
                add("BaseSumGate", l, b)
    for n in (1, 2, 4):
        add("ConstantGate", n)
    add("PublicInputGate")
    add("NoopGate")
    add("PoseidonMdsGate")
    for n in (range(1, 68) if thorough else sorted(set([1, 2, 9, 67] + rnd.sample(range(1, 68), 3)))):
        add("ExponentiationGate", n)
    for bits in range(1, 6):
        for copies in range(1, 5):
            if (2 + 2 ** bits) * copies + 2 + copies * bits <= 150 and (thorough or (bits + copies) % 2 == 0 or (bits, copies) == (4, 4)):
                add("RandomAccessGate", bits, copies, 2 if (bits + copies) % 3 else 0)
    for n in (range(1, 44) if thorough else sorted(set([1, 2, 32, 43] + rnd.sample(range(1, 44), 3)))):
        add("ReducingGate", n)
        if 6 + 4 * n <= 150:
            add("ReducingExtensionGate", n)
    for sb in (2, 3, 4):
        for d in range(2, 7):
            if d > 2 ** sb:
                continue  # plonky2 never builds an interpolation gate whose degree exceeds its number of points (degree = (n-2)/(k+1)+2 <= n)
            if thorough or (sb, d) in ((2, 2), (3, 3), (4, 6), (4, 2), (3, 6)):
                add("CosetInterpolationGate", sb, d)
    return gs


def layouts(rnd, n):
    cheap = [{"kind": "NoopGate", "p": [0]}, {"kind": "ConstantGate", "p": [2]}, {"kind": "ArithmeticGate", "p": [3]}, {"kind": "PublicInputGate", "p": [0]},
             {"kind": "BaseSumGate", "p": [4, 2]}, {"kind": "MulExtensionGate", "p": [2]}, {"kind": "ReducingGate", "p": [2]}, {"kind": "ExponentiationGate", "p": [3]}]
    ncons = {"NoopGate": 0, "ConstantGate": 2, "ArithmeticGate": 3, "PublicInputGate": 4, "BaseSumGate": 5, "MulExtensionGate": 4, "ReducingGate": 4, "ExponentiationGate": 4}
    out = []
    for _ in range(n):
        ng = rnd.randint(1, 6)
        gs = [rnd.choice(cheap) for _ in range(ng)]
        # split the gate list into consecutive selector groups
        cuts = sorted(rnd.sample(range(1, ng), min(rnd.randint(0, 2), ng - 1))) if ng > 1 else []
        bounds = [0] + cuts + [ng]
        groups = [[bounds[i], bounds[i + 1]] for i in range(len(bounds) - 1)]
        sel = []
        for gi in range(ng):
            sel.append([k for k, g in enumerate(groups) if g[0] <= gi < g[1]][0])
        out.append({"gates": gs, "sel": sel, "groups": groups, "nsel": len(groups), "ncons": max(ncons[g["kind"]] for g in gs) + rnd.randint(0, 2)})
    return out


# hint sites outside GlGadgets' four inside this code region are probed with generic alternatives after run() (bin/check, common.Ctx.foreign)
FOREIGN = (("gates.",), ("testdata",))


def run(ctx):
    ctx.rule = ("(gate type, parameters, row): every parameterisation listed in the quantifier (quick: boundary + seeded values) x a random row and a 0/1 digit row over "
                "GF(p^2); selector layouts: seeded gate lists split into 1..3 selector groups with selector values on / off the row, the unused marker and random; "
                "distinct = distinct (gate, parameters, row) / (layout, row)")
    ctx.assumptions += ["the gate polynomials are transcribed from plonky2's definitions into Gates.tla (plonky2's source is not in the sandbox)",
                        "the Poseidon gate's constraint VALUES on non-honest rows involve plonky2's fast partial-round tables and are covered structurally only"]
    thorough = ctx.tier == "thorough"
    ctx.tlc("GatesCheck", "GatesCheck.cfg", workers=1)
    files = oracles.emit(ctx, bn=False, plans=False)
    rnd = random.Random(ctx.seed * 89 + 15)
    req = {"gates": gate_requests(rnd, thorough), "layouts": layouts(rnd, 160 if thorough else 10)}
    d = ctx.scratch("gatesemit")
    rq = os.path.join(d, "gates_request.json")
    json.dump(req, open(rq, "w"))
    r = ctx.tlc("GatesEmit", "GatesEmit.cfg", workers=1, extra_files={rq: "gates_request.json"}, timeout=1500)
    terms = os.path.join(r["dir"], "gates_terms.json")
    ctx.extra["gate_parameterisations"] = len(req["gates"])
    nsh = common.NCPU
    jobs = [{"terms": terms, "part": "gates", "nrandom": 12 if thorough else 1, "shard": i, "nshards": nsh} for i in range(nsh)]
    # the whole list once more in one process and in reverse order (larger parameters before smaller): a gate's constraints are a
    # function of its identifier and the row, not of what the process evaluated before
    jobs.append({"terms": terms, "part": "gates", "nrandom": 0, "shard": 90, "nshards": 0, "reverse": True})
    jobs += [{"terms": terms, "part": "layouts", "nrandom": 10 if thorough else 2, "shard": i, "nshards": 4} for i in range(4)]
    pj = dict(files)
    pj.update({"part": "poseidon", "nrandom": 24 if thorough else 2, "shard": 99})
    jobs.append(pj)

    def one(j):
        return ctx.run_driver("c15", j, tag="%s-%d" % (j["part"], j["shard"]), timeout=3000)

    with ThreadPoolExecutor(max_workers=common.NCPU) as ex:
        for rr in ex.map(one, jobs):
            ctx.absorb(rr, "c15")


def replay(ctx, rec):
    run(ctx)
    for v in ctx.violations:
        print("REPRODUCED", v["sig"], "::", v.get("detail"))
    return 1 if ctx.violations else 0
