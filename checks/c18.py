"""C18 - gate identifiers resolve to exactly one gate with stated parameters, or fail.

M3: GateId.tla - plonky2's Debug formats as string templates, the implementation's table as patterns with unanchored matching;
    for every generated identifier (all supported gates over their parameter ranges, the unimplemented gates of plonky2 and of the
    gadget crates, wrong extension degrees) the match set is a singleton naming the right gate, or empty / refused by the handler.
M1: every generated identifier is (a) matched against all expressions of the real table through the read-only accessor - the
    deterministic view that decides order-independence without relying on luck - and compared with the model's match set, and
    (b) resolved 200 times by the real GateInstanceFromId (fresh map iteration each time): the returned gate's type and
    parameters must be the stated ones, unimplemented identifiers must be refused every time; hiding must be refused.
"""
import json
import os
from concurrent.futures import ThreadPoolExecutor

from . import common


def run(ctx):
    ctx.rule = ("identifier strings: supported gates over num_ops 1..20, limbs 1..63 x bases 2..4, bits 1..5 x copies 1..4, power bits 1..67, coefficient counts 1..43, "
                "subgroup bits 2..4 x degrees 2..6, parameterless gates; unimplemented: lookup, lookup-table, u32 arithmetic/add-many/subtraction/range-check, comparison, "
                "interleave gates; wrong <D=..>; each resolved 200 times; distinct = distinct identifier strings")
    ctx.assumptions += ["the Debug formats of the unimplemented gates are taken from crypto/plonky2_u32 (struct definitions) and, for the lookup gates, from their field names"]
    r = ctx.tlc("GateId", "GateId_full.cfg" if True else "GateId.cfg", workers=1, timeout=900)
    cases = os.path.join(r["dir"], "gateid_cases.json")
    n = len(json.load(open(cases)))
    ctx.extra["identifiers"] = n
    nsh = 8

    def one(i):
        return ctx.run_driver("c18", {"cases": cases, "reps": 200 if ctx.tier == "quick" else 1000, "shard": i, "nshards": nsh}, tag="c18-%d" % i, timeout=3000)

    drift = 0
    with ThreadPoolExecutor(max_workers=nsh) as ex:
        for rr in ex.map(one, range(nsh)):
            ctx.absorb(rr, "c18")
            drift += (rr.get("info") or {}).get("matchset_drift", 0)
            ctx.extra["table_entries"] = (rr.get("info") or {}).get("table_entries")
    if drift:
        ctx.leads.append("SPEC-DRIFT: %d identifiers have another (harmless) match set in the code than in GateId.tla" % drift)
    ctx.traces_validated = 0


def replay(ctx, rec):
    d = ctx.scratch("replay")
    p = os.path.join(d, "one.json")
    json.dump([rec["case"]] if "id" in rec["case"] else [], open(p, "w"))
    r = ctx.run_driver("c18", {"cases": p, "reps": 2000, "shard": 0, "nshards": 1})
    for v in r["violations"]:
        print("REPRODUCED", v["sig"], "::", v["detail"])
    print("VIOLATION property=C18 replay=(replayed)" if r["violations"] else "not reproduced on the current tree")
    return 1 if r["violations"] else 0
