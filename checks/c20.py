"""C20 - proof shapes inconsistent with the circuit description are never accepted.

M3: Shape.tla - one row per list kind of the proof structure (explicit guard / implicit index guard / bound by transcript or hash,
    written from the code) and the rule that derives refuse / reject / accept for the five mutations; NeverAccept; FriQuery.tla -
    the configured number of query rounds and fold steps is executed (AllChecksDone).
M1: every (list kind, mutation) applied to a seeded occurrence (round / tree / step) of every list of real proofs, and every effective
    configuration change, on the whole real verifier (both wrappers); never accepted; the refuse/reject class is compared with the
    model (a class mismatch is reported as SPEC-DRIFT, not as a violation).
M2: the FRI hook trace of honest runs equals FriQuery's behaviour for the configuration (number of rounds, checks per round).
"""
import json
import os
import random
from concurrent.futures import ThreadPoolExecutor

from . import common
from .verifier_common import pick_instances, CIRCUIT
from .c13 import validate_fri_trace


def run(ctx):
    ctx.rule = ("(instance, k=2, wrapper, list kind, mutation in {drop first, drop last, duplicate last, append zero, empty}, seeded occurrence) and "
                "(instance, configuration parameter, +1/-1); trivial = the list is already empty")
    ctx.assumptions += ["template and witness carry the same mutated shape (what a prover controlling the proof template would present)",
                        "the description stores the FRI configuration twice; Shape.tla lists per parameter which stored copies the verifier reads (both for the number of query rounds, fri_params.config only for cap height and rate bits) and every such copy is also changed alone; config.fri_config.cap_height / rate_bits are never read, changing only them is not a case"]
    thorough = ctx.tier == "thorough"
    r = ctx.tlc("Shape", "Shape.cfg", workers=1)
    cases = json.load(open(os.path.join(r["dir"], "shape_cases.json")))
    ctx.tlc("FriQuery", "FriQuery.cfg", workers=1)
    insts = pick_instances(ctx)
    jobs = []
    for inst in insts:
        wrappers = ["vc"] + (["fixed"] if CIRCUIT[inst] == "A" else [])
        for w in wrappers:
            reps = 3 if thorough else 1
            for rep in range(reps):
                lists = cases["lists"]
                nsh = 6
                for i in range(nsh):
                    jobs.append({"instance": inst, "k": 2, "wrapper": w, "lists": lists[i::nsh], "config": cases["config"] if (i == 0 and rep == 0) else [], "shard": i + 10 * rep})

    def one(j):
        return ctx.run_driver("c20", j, tag="c20-%s-%s-%d" % (j["instance"], j["wrapper"], j["shard"]), timeout=3400)

    mism = 0
    with ThreadPoolExecutor(max_workers=common.NCPU) as ex:
        for rr in ex.map(one, jobs):
            ctx.absorb(rr, "c20")
            mism += (rr.get("info") or {}).get("class_mismatch", 0)
            if (rr.get("info") or {}).get("class_mismatch_example"):
                ctx.extra.setdefault("class_mismatch_examples", []).append(rr["info"]["class_mismatch_example"])
    ctx.extra["refuse_reject_class_differs_from_model"] = mism
    if mism:
        ctx.leads.append("SPEC-DRIFT: %d shape cases were not accepted but with another class (refuse/reject) than Shape.tla derives" % mism)
    res, tf, name = validate_fri_trace(ctx, insts[0], 2, tag="-c20")
    if res["ok"]:
        ctx.traces_validated += 1
    else:
        ctx.leads.append("FriQueryTrace rejected the honest trace of " + insts[0])


def replay(ctx, rec):
    c = rec["case"]
    rq = {"instance": c["instance"], "k": c.get("k", 2), "wrapper": c.get("wrapper", "vc"), "lists": [], "config": [], "shard": 0}
    if "case" in c:
        rq["lists"] = [c["case"]] * 6
    else:
        rq["config"] = [c["config"]]
    r = ctx.run_driver("c20", rq)
    for v in r["violations"]:
        print("REPRODUCED", v["sig"], "::", v["detail"])
    print("VIOLATION property=C20 replay=(replayed)" if r["violations"] else "not reproduced on the current tree")
    return 1 if r["violations"] else 0
