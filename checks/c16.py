"""C16 - the PLONK check accepts exactly when the vanishing identity holds at zeta.

M3: Plonk.tla - L0, Z_H, the permutation numerators / denominators, the chunked partial-product checks, the alpha-combination over
    all terms and the quotient reconstruction as TERMS; TLC checks on the scaled field that the chunks cover every routed wire
    exactly once (for every routed-wire count and degree factor), that L0 is the first Lagrange polynomial of the subgroup and that
    an identity permutation with unit accumulators vanishes; PlonkEmit instantiates the terms for the real and synthetic shapes.
M1: (a) on the real proofs the code's evalVanishingPoly equals the term and the identity holds; (b) random openings and challenges with
    the quotient openings SOLVED so that the identity holds must be accepted by PlonkChip.Verify - for the real descriptions (with
    the real gates) and for synthetic ones (1..3 rounds, 2..80 routed wires, degree factors 1..8, Noop gate; also Noop + Constant gate in one / two selector groups) - and (c) any single
    perturbed opening or challenge must be rejected.
"""
import json
import os
import random
from concurrent.futures import ThreadPoolExecutor

from . import common, oracles
from .c13 import common_of


# hint sites outside GlGadgets' four inside this code region are probed with generic alternatives after run() (bin/check, common.Ctx.foreign)
FOREIGN = (("plonk.(*PlonkChip)",), ("testdata",))


def run(ctx):
    ctx.rule = ("(description, opening/challenge set): real descriptions of both circuits with the proof's own data and seeded random data; synthetic descriptions "
                "nc in 1..3 x routed wires x degree factor (seeded, including non-divisible pairs); each accepted set x seeded single perturbations; distinct = distinct data sets / perturbations")
    ctx.assumptions += ["gate constraint values of the real descriptions are taken from the repository's own gate code (C15 decides them)",
                        "synthetic descriptions use the Noop gate only (no gate constraints) or Noop + ConstantGate{2} in one or two selector groups, with the gate "
                        "constraints written out from plonky2's definition in the driver (not the repository's evaluator)",
                        "at zeta = 1 the code (like plonky2's recursive verifier) cannot form L0 and accepts nothing, although the identity can hold there "
                        "(Z(1) = 1): that single point is modelled as 'rejects' and its accept case is not replayed"]
    thorough = ctx.tier == "thorough"
    files = oracles.emit(ctx, bn=False)
    rnd = random.Random(ctx.seed * 97 + 16)
    shapes = []
    for inst in ("testdata", "random"):
        cd = common_of(inst)
        shapes.append({"nc": cd["config"]["num_challenges"], "rw": cd["config"]["num_routed_wires"], "qd": cd["quotient_degree_factor"],
                       "ng": cd["num_gate_constraints"], "db": cd["fri_params"]["degree_bits"], "_inst": inst})
    syn = [(1, 2, 1), (1, 2, 2), (2, 4, 2), (3, 6, 3), (2, 80, 8), (1, 12, 4), (1, 8, 8)]
    # pairs where the degree factor does not divide the routed-wire count (plonky2 allows a shorter last chunk)
    syn += [(1, 5, 2), (2, 7, 3), (1, 80, 7)]
    # several rounds with very few partial products (0, 1, 2 per round)
    syn += [(2, 2, 2), (3, 4, 2), (3, 6, 2), (3, 3, 4)]
    for _ in range(60 if thorough else 5):
        syn.append((rnd.randint(1, 3), rnd.randint(2, 80), rnd.randint(1, 8)))
    for nc, rw, qd in syn:
        shapes.append({"nc": nc, "rw": rw, "qd": qd, "ng": 0, "db": rnd.randint(2, 12)})
    # synthetic descriptions WITH gate constraints: Noop + ConstantGate{2} in one selector group (layout 1: filter (0 - s), no unused-selector
    # factor) and in two groups (layout 2: filter (UNUSED - s)); the gate values come from plonky2's definition written out in the driver
    gsyn = [(1, 2, 2, 1), (2, 4, 2, 2), (1, 5, 2, 1), (2, 9, 4, 2)]
    for _ in range(12 if thorough else 2):
        gsyn.append((rnd.randint(1, 3), rnd.randint(2, 40), rnd.randint(1, 8), rnd.randint(1, 2)))
    for nc, rw, qd, lay in gsyn:
        shapes.append({"nc": nc, "rw": rw, "qd": qd, "ng": 2, "db": rnd.randint(2, 12), "_layout": lay})
    d = ctx.scratch("plonkemit")
    rq = os.path.join(d, "plonk_request.json")
    json.dump([{k: v for k, v in s.items() if not k.startswith("_")} for s in shapes], open(rq, "w"))
    r = ctx.tlc("PlonkEmit", "PlonkEmit.cfg", workers=1, extra_files={rq: "plonk_request.json"}, timeout=900)
    terms = os.path.join(r["dir"], "plonk_terms.json")
    env = {"VERIF_GL_SCHED": files["gl_sched"], "VERIF_PLANS": files["plans"]}
    jobs = []
    for i, s in enumerate(shapes):
        if "_layout" in s:
            jobs.append({"terms": terms, "part": "synthetic", "index": i, "layout": s["_layout"], "nrandom": 12 if thorough else 3, "nperturb": 10 if thorough else 4, "shard": 200 + i})
        elif "_inst" in s:
            jobs.append({"terms": terms, "part": "real", "instance": s["_inst"], "index": i, "nrandom": 16 if thorough else 2, "nperturb": 10 if thorough else 3, "shard": i})
        else:
            jobs.append({"terms": terms, "part": "synthetic", "index": i, "nrandom": 12 if thorough else 2, "nperturb": 8 if thorough else 2, "shard": i})
            # zeta on the subgroup H (Z_H(zeta) = 0): zeta = 1 with Z(1) != 1 must not be accepted; zeta = w^j with a vanishing combination
            # is accepted and rejected after one change in the permutation argument
            jobs.append({"terms": terms, "part": "degenerate", "index": i, "nrandom": 8 if thorough else 1, "nperturb": 6 if thorough else 2, "shard": 100 + i})

    def one(j):
        return ctx.run_driver("c16", j, tag="c16-%d" % j["shard"], timeout=3000, env=env)

    with ThreadPoolExecutor(max_workers=common.NCPU) as ex:
        for rr in ex.map(one, jobs):
            ctx.absorb(rr, "c16")


def replay(ctx, rec):
    run(ctx)
    for v in ctx.violations:
        print("REPRODUCED", v["sig"], "::", v.get("detail"))
    return 1 if ctx.violations else 0
