"""C09 - in-circuit Goldilocks Poseidon equals plonky2's Poseidon for all inputs.

M3: PoseidonGl.tla (the reference round schedule: shape, constant indexing, S-box counts) and Sponges.tla (hash_n_to_m_no_pad
    as a plan machine: absorption boundaries, permutation counts, empty input) checked by TLC, which also writes the schedule
    and the plans out.
M1: states (zero, all p-1, single-hot edge values, random) and hash inputs of every length 0..40 (random, edge, non-canonical
    value + k*p) are run through the real chip in the three range-check modes; the oracle is the emitted schedule applied
    with naive layer functions and the constant snapshot /verif/data/poseidon_gl.json (validated on published vectors).
"The permutation is a function": GlGadgets' Unique invariants (C05) for the S-box / MDS reduction sites; in this check the model's
    adversarial alternatives are injected at sampled hint sites inside one permutation and must fail the local constraints.
"""
from concurrent.futures import ThreadPoolExecutor

from . import common, oracles


# hint sites outside GlGadgets' four inside this code region are probed with generic alternatives after run() (bin/check, common.Ctx.foreign)
FOREIGN = (("poseidon.(*GoldilocksChip)",), ("testdata",))


def run(ctx):
    ctx.rule = ("permutation: all-zero, all p-1, single-hot edge values at three positions, seeded random states; hash: every input length "
                "0..40 x output lengths (seeded, and {1,4,8,9,12} at multiples of 7) x {HashNToMNoPad canonical, HashNoPad with value+k*p}; "
                "x range-check mode; distinct = distinct (function, mode, inputs)")
    ctx.assumptions += ["the constant snapshot /verif/data/poseidon_gl.json (round constants, MDS) is validated by the all-zero permutation vector and the "
                        "public-input-hash vector quoted in the repository's tests, and by C11's replay of real proof transcripts",
                        "plonky2's source is not in the sandbox: 'plonky2's Poseidon' is the reference schedule of PoseidonGl.tla"]
    files = oracles.emit(ctx, bn=False)
    ctx.tlc("GlGadgets", "GlGadgets_c05.cfg")
    ctx.tlc("GlGadgets", "GlGadgets_c05_wide.cfg", expect_violation=True)
    thorough = ctx.tier == "thorough"
    jobs = []
    for mode in ("native", "plain", "commit"):
        nr = {"native": 40, "plain": 10, "commit": 2}[mode] * (10 if thorough else 1)
        for i in range(4 if mode != "commit" else 1):
            jobs.append({"part": "glperm", "mode": mode, "nrandom": nr // (4 if mode != "commit" else 1), "shard": i})
        reps = (3 if thorough else 1) if mode != "commit" else 1
        for i in range(reps):
            jobs.append({"part": "glhash", "mode": mode, "maxlen": 40 if mode != "commit" else 12, "shard": 10 + i})

    for i in range(3 if thorough else 1):
        jobs.append({"part": "glunique", "mode": "native", "nrandom": 200 if thorough else 0, "shard": 50 + i})
    # compiled with gnark's real builders, the state given as compile-time constants
    for i in range(3 if thorough else 1):
        jobs.append({"part": "glconst", "mode": "plain", "shard": 60 + i})
    # ... and on witness inputs (an operand overwritten by a builder's in-place multiply-accumulate exists only there)
    for i in range(3 if thorough else 1):
        jobs.append({"part": "glreal", "mode": "plain", "shard": 70 + i})

    def one(j):
        rq = dict(files)
        rq.update(j)
        return ctx.run_driver("poseidon", rq, tag="%s-%s-%d" % (j["part"], j["mode"], j["shard"]), timeout=3000)

    with ThreadPoolExecutor(max_workers=common.NCPU) as ex:
        for rr in ex.map(one, jobs):
            ctx.absorb(rr, "poseidon")


def replay(ctx, rec):
    files = oracles.emit(ctx, bn=False)
    out = 0
    for part in ("glperm", "glhash"):
        rq = dict(files)
        rq.update({"part": part, "mode": "native", "nrandom": 20, "maxlen": 40, "shard": 0})
        r = ctx.run_driver("poseidon", rq)
        for v in r["violations"]:
            print("REPRODUCED", v["sig"], "::", v["detail"][:300])
            out = 1
    print("VIOLATION property=C09 replay=(replayed)" if out else "not reproduced on the current tree")
    return out
