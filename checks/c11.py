"""C11 - Fiat-Shamir challenges follow plonky2's transcript exactly and bind all data.

M3: Challenger.tla (duplex sponge with uninterpreted permutation; Binding, Discard, BufBounds, PrefixStable, NoReuse) exhaustively
    for small rate / depth and by simulation at rate 8; Transcript.tla (the verifier's script for a proof shape).
M1: TLC-generated histories replayed on the real challenger.Chip; the scripted transcript evaluated with the leaf values of the
    five real proofs and of random transcripts of the same shape against VerifierChip.GetChallenges; seeded leaf perturbations
    must change every later challenge and no earlier one.
M2: the challenger hook trace of whole honest verifier runs validated against Challenger's primitive steps and the script order
    (ChallengerTrace.tla), with negative self-tests.
"""
import json
import os
import random
from concurrent.futures import ThreadPoolExecutor

from . import common, oracles

INSTANCES = {
    "testdata": ("gnark-plonky2-verifier/testdata/test_circuit/proof_with_public_inputs.json",),
    "roottest": ("test.json",),
    "random": ("near_bft_finality/proofs/random/CGZPhFRkL3NvmGaXWBc6N7qJD519EUe6vyNpaEyDe2Ev/proof.json",),
    "epochCb": ("near_bft_finality/proofs/epoch/CbAHBGJ8VQot2m6KhH9PLasMgcDtkPJBfp9bjAEMJ8UK/proof.json",),
    "epoch4R": ("near_bft_finality/proofs/epoch/4RjXBrNcu39wutFTuFpnRHgNqgHxLMcGBKNEQdtkSBhy/proof.json",),
}


def shape_of(inst, k):
    p = json.load(open(os.path.join(common.REPO, INSTANCES[inst][0])))["proof"]
    o = p["openings"]
    return {
        "NumChallenges": len(o["plonk_zs"]), "CapSize": len(p["wires_cap"]), "NConstants": len(o["constants"]),
        "NSigmas": len(o["plonk_sigmas"]), "NWires": len(o["wires"]), "NZs": len(o["plonk_zs"]),
        "NPartial": len(o["partial_products"]), "NQuotient": len(o["quotient_polys"]),
        "NCommitCaps": len(p["opening_proof"]["commit_phase_merkle_caps"]), "FinalLen": len(p["opening_proof"]["final_poly"]["coeffs"]),
        "NQueries": k,
    }


def transcript_cfg(shape, trace=False):
    consts = "  ".join("%s = %d" % kv for kv in shape.items())
    if trace:
        return ("CONSTANTS RATE = 8  MaxOps = 0  Emit = FALSE\n  %s\n  Script <- VerifierScript\nSPECIFICATION TraceSpec\n"
                "INVARIANTS Discard BufBounds HighWater OrderMatches\nPOSTCONDITION TraceAccepted\n" % consts)
    return ("CONSTANTS RATE = 8  MaxOps = 0  Emit = TRUE\n  %s\n  Script <- VerifierScript\nSPECIFICATION Spec\n"
            "INVARIANTS Binding Discard BufBounds NoReuse Collect\nPOSTCONDITION Post\n" % consts)


def tlc_with_cfg(ctx, module, cfgtext, name, extra=None):
    d = ctx.scratch("cfg-" + name)
    p = os.path.join(d, name + ".cfg")
    open(p, "w").write(cfgtext)
    ef = {p: name + ".cfg"}
    ef.update(extra or {})
    return ctx.tlc(module, name + ".cfg", workers=1, extra_files=ef, name=name, timeout=900)


# hint sites outside GlGadgets' four inside this code region are probed with generic alternatives after run() (bin/check, common.Ctx.foreign)
FOREIGN = (("challenger.",), ("testdata",))


def run(ctx):
    ctx.rule = ("histories: TLC-simulated sequences of 40 compound challenger operations (element / extension / hash / BN254-hash observations, "
                "single / multiple / extension / hash squeezes) with seeded symbol values (canonical, edge, value+p); transcripts: every available "
                "proof and a random transcript of the same shape; perturbations: seeded observed leaves; distinct = distinct (history, values) / "
                "(instance, variant) / perturbed leaf")
    ctx.assumptions += ["the permutation oracle is C09's (schedule + constant snapshot, validated on published vectors)",
                        "plonky2's Challenger is transcribed in Challenger.tla from its documented algorithm (observe_element / get_challenge / duplexing); "
                        "the real proofs' proof-of-work responses and Merkle-consistent query indices corroborate the transcript (C01/C02 runs)"]
    files = oracles.emit(ctx, bn=False)
    thorough = ctx.tier == "thorough"
    ctx.tlc("Challenger", "Challenger.cfg", timeout=900, workers=8)
    r = ctx.tlc("Challenger", "Challenger_sim.cfg", workers=1, simulate="num=%d" % (400 if thorough else 40), depth=45, timeout=1200)
    hfile = os.path.join(r["dir"], "challenger_histories.json")
    hs = json.load(open(hfile))
    # dedupe and sample
    seen, uniq = set(), []
    for h in hs:
        key = json.dumps(h["hist"], sort_keys=True)
        if key not in seen:
            seen.add(key)
            uniq.append(h)
    rnd = random.Random(ctx.seed)
    rnd.shuffle(uniq)
    uniq = uniq[: (2000 if thorough else 160)]
    hsel = os.path.join(ctx.scratch("hist"), "histories.json")
    json.dump(uniq, open(hsel, "w"))
    ctx.extra["histories"] = len(uniq)
    nsh = common.NCPU
    jobs = []
    for i in range(nsh):
        rq = dict(files)
        rq.update({"part": "histories", "histories": hsel, "shard": i, "nshards": nsh})
        jobs.append(("c11", rq, "h%d" % i))
    # transcripts
    insts = list(INSTANCES) if thorough else ["testdata", "random", rnd.choice(["roottest", "epochCb", "epoch4R"])]
    for inst in insts:
        k = 28 if thorough else 3
        sh = shape_of(inst, k)
        tr = tlc_with_cfg(ctx, "Transcript", transcript_cfg(sh), "Transcript_" + inst)
        hf = os.path.join(tr["dir"], "challenger_histories.json")
        rq = dict(files)
        rq.update({"part": "transcript", "histories": hf, "instance": inst, "k": k, "variants": ["real", "random", "real+pow0", "random+pow0", "random+pow1", "random+pow20", "random+npi0", "random+npi1", "random+npi9"],
                   "nperturb": 60 if thorough else 12, "shard": len(jobs)})
        jobs.append(("c11", rq, "t-" + inst))
        # the same with a final polynomial of 1..3 coefficients: the sponge's input block is then partly filled when the proof-of-work
        # witness is observed (every shipped proof has 16 coefficients = four full blocks)
        for fl in ([1, 2, 3, 5] if thorough else [1 + (ctx.seed + len(jobs)) % 3]):
            sh2 = dict(sh)
            sh2["FinalLen"] = fl
            tr2 = tlc_with_cfg(ctx, "Transcript", transcript_cfg(sh2), "Transcript_%s_f%d" % (inst, fl))
            rq2 = dict(files)
            rq2.update({"part": "transcript", "histories": os.path.join(tr2["dir"], "challenger_histories.json"), "instance": inst, "k": k, "final_len": fl,
                        "variants": ["real", "random"], "nperturb": 8 if thorough else 3, "shard": len(jobs)})
            jobs.append(("c11", rq2, "t-%s-f%d" % (inst, fl)))

    # caps and the circuit digest enter the transcript through the hash-to-Goldilocks conversion: that conversion must be a function
    # (the decomposition of h + r must not be accepted where it is prover-supplied) - C10's ToVec part, here for the binding clause
    rq = dict(files)
    rq.update({"part": "tovec", "mode": "native", "nrandom": 5, "shard": 77})
    jobs.append(("poseidon", rq, "tovec"))

    def one(j):
        return ctx.run_driver(j[0], j[1], tag=j[2], timeout=3000)

    with ThreadPoolExecutor(max_workers=common.NCPU) as ex:
        for rr in ex.map(one, jobs):
            ctx.absorb(rr, "c11")
    # ---- M2 ---------------------------------------------------------------------------------------------------
    for inst in (["testdata", "random"] if not thorough else list(INSTANCES)):
        tf = os.path.join(ctx.scratch("ctrace"), inst + ".ndjson")
        rq = dict(files)
        rq.update({"part": "trace", "instance": inst, "k": 1, "trace_file": tf})
        ctx.run_driver("c11", rq, tag="trace-" + inst)
        cfgt = transcript_cfg(shape_of(inst, 1), trace=True)
        res = tlc_with_cfg(ctx, "ChallengerTrace", cfgt, "CTrace_" + inst, extra={tf: "challenger_trace.ndjson"})
        if res["ok"]:
            ctx.traces_validated += 1
        else:
            ctx.leads.append("ChallengerTrace rejected the hook trace of %s: %s" % (inst, res.get("violated_name") or "trace not fully consumed"))
            ctx.extra["ctrace_tail_" + inst] = res["output"][-1200:]
            continue
        if inst == "testdata":
            recs = [json.loads(x) for x in open(tf)]
            i = rnd.choice([j for j, rr in enumerate(recs) if rr["ev"] == "observe" and rr["dup"] == -1])
            bad = [dict(x) for x in recs]
            bad[i]["inlen"] += 1
            b1 = os.path.join(ctx.scratch("ctrace"), "bad1.ndjson")
            common.write_ndjson(b1, bad)
            r1 = tlc_with_cfg(ctx, "ChallengerTrace", cfgt, "CTrace_neg1", extra={b1: "challenger_trace.ndjson"})
            j = rnd.choice([j for j, rr in enumerate(recs) if rr["ev"] == "observe"])
            b2 = os.path.join(ctx.scratch("ctrace"), "bad2.ndjson")
            common.write_ndjson(b2, [x for t, x in enumerate(recs) if t != j])
            r2 = tlc_with_cfg(ctx, "ChallengerTrace", cfgt, "CTrace_neg2", extra={b2: "challenger_trace.ndjson"})
            if r1["ok"] or r2["ok"]:
                ctx.deferred.append("challenger trace binding self-test failed (corrupted trace accepted)")  # incomplete run (exit 2 unless a violation was reproduced); the remaining parts still run
            ctx.extra["trace_negative_selftests"] = 2


def replay(ctx, rec):
    print("replay: re-run `bin/check C11 quick` with VERIF_SEED=%s (the case depends on TLC-generated histories)" % rec.get("seed"))
    ctx2 = ctx
    run(ctx2)
    for v in ctx2.violations:
        print("REPRODUCED", v["sig"])
    return 1 if ctx2.violations else 0
