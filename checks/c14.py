"""C14 - FRI proof-of-work condition is enforced for every response value.

M3: Pow.tla (width check <=> leading-zero count for every response/difficulty of the scaled word; refusal of undeliverable widths
    under the commit checker), RangeChip.tla (every mode delivers the request), Transcript.tla (response squeezed after the witness).
M1: the proof-of-work gadget (export wrapper) on boundary and random responses for every difficulty 1..63 (native, bit
    decomposition) and the alignable / unalignable difficulties under the commit checker; substituted proof-of-work witnesses on real
    proofs: the response must be the one the reference transcript predicts and the whole verification must reject.
M2: the FRI hook trace of honest runs shows the width request 64 - proof_of_work_bits on the very value squeezed after the
    witness observation (FriQueryTrace + ChallengerTrace).
"""
import os
import random
from concurrent.futures import ThreadPoolExecutor

from . import common, oracles
from .c11 import shape_of, transcript_cfg, tlc_with_cfg
from .c13 import validate_fri_trace

P = 18446744069414584321


# hint sites outside GlGadgets' four inside this code region are probed with generic alternatives after run() (bin/check, common.Ctx.foreign)
FOREIGN = (("assertLeadingZeros", "GetFriChallenges"), ("testdata",))


def run(ctx):
    ctx.rule = ("gadget: difficulty b x response in {0, 2^(64-b)-1, 2^(64-b), 2^(64-b)+1, p-1, seeded} x mode; witness: +1, -1, 0, 1, p-1 and seeded "
                "witnesses substituted into real proofs (k=1); distinct = distinct (mode, b, response) / (instance, witness)")
    ctx.assumptions += ["a substituted witness passes the difficulty with probability 2^-16; the changed query indices then reject",
                        "under the commit checker the circuit is padded to 70000 checks so that the base width is 16"]
    thorough = ctx.tier == "thorough"
    ctx.tlc("Pow", "Pow.cfg", workers=1)
    ctx.tlc("RangeChip", "RangeChip.cfg")
    files = oracles.emit(ctx, bn=False)
    rnd = random.Random(ctx.seed * 37 + 14)
    cases = []
    bs = range(1, 64) if thorough else sorted(set([1, 2, 15, 16, 17, 31, 32, 47, 48, 62, 63] + rnd.sample(range(1, 64), 8)))
    for b in bs:
        lim = 2 ** (64 - b)
        vals = [0, lim - 1, lim, lim + 1, P - 1, rnd.randrange(lim), rnd.randrange(lim, P)]
        for v in vals:
            for mode in ("native", "plain"):
                cases.append({"b": b, "resp": str(v), "mode": mode})
            if b % 16 == 0 or b in (1, 17, 63):
                if v in (lim - 1, lim) or thorough:
                    cases.append({"b": b, "resp": str(v), "mode": "commit"})
    jobs = []
    ncom = [c for c in cases if c["mode"] == "commit"]
    oth = [c for c in cases if c["mode"] != "commit"]
    for i in range(4):
        jobs.append(("c14", {"part": "gadget", "cases": oth[i::4], "shard": i}))
    for i in range(4):
        if ncom[i::4]:
            jobs.append(("c14", {"part": "gadget", "cases": ncom[i::4], "shard": 10 + i}))
    for inst in (["testdata", "random"] if not thorough else ["testdata", "roottest", "random", "epochCb", "epoch4R"]):
        tr = tlc_with_cfg(ctx, "Transcript", transcript_cfg(shape_of(inst, 1)), "Transcript_" + inst)
        rq = dict(files)
        rq.update({"part": "witness", "instance": inst, "histories": os.path.join(tr["dir"], "challenger_histories.json"),
                   "nwitness": 40 if thorough else 6, "shard": 20})
        jobs.append(("c14", rq))
        if inst == "testdata" or thorough:
            # no query rounds at all (num_query_rounds = 0 in both copies of the configuration): the condition on the response is the only
            # thing left of FRI, and it is still enforced
            rq0 = dict(rq)
            rq0.update({"zero_rounds": True, "nwitness": 12 if thorough else 3, "shard": 25})
            jobs.append(("c14", rq0))
        # the response must be derived from the witness actually supplied also when the sponge's input block is partly filled at
        # that moment (a final polynomial of 1 or 2 coefficients; every shipped proof has 16 = four full blocks)
        for fl in (1, 2):
            sh = shape_of(inst, 1)
            sh["FinalLen"] = fl
            tr2 = tlc_with_cfg(ctx, "Transcript", transcript_cfg(sh), "Transcript_%s_f%d" % (inst, fl))
            rq2 = dict(files)
            rq2.update({"part": "witness", "instance": inst, "histories": os.path.join(tr2["dir"], "challenger_histories.json"),
                        "nwitness": 10 if thorough else 3, "final_len": fl, "shard": 30 + fl})
            jobs.append(("c14", rq2))

    def one(j):
        return ctx.run_driver(j[0], j[1], tag=str(j[1].get("shard")) + j[1].get("instance", "") + str(j[1].get("final_len", "")) + ("z" if j[1].get("zero_rounds") else ""), timeout=3000)

    with ThreadPoolExecutor(max_workers=common.NCPU) as ex:
        for rr in ex.map(one, jobs):
            ctx.absorb(rr, "c14")
    res, tf, name = validate_fri_trace(ctx, "testdata", 1, tag="-pow")
    if res["ok"]:
        ctx.traces_validated += 1
    else:
        ctx.leads.append("FriQueryTrace rejected the trace (pow width / order): " + str(res.get("violated_name")))


def replay(ctx, rec):
    c = rec["case"]
    if "b" in c:
        r = ctx.run_driver("c14", {"part": "gadget", "cases": [c], "shard": 0})
    else:
        run(ctx)
        r = {"violations": ctx.violations}
    for v in r["violations"]:
        print("REPRODUCED", v["sig"], "::", v.get("detail"))
    print("VIOLATION property=C14 replay=(replayed)" if r["violations"] else "not reproduced on the current tree")
    return 1 if r["violations"] else 0
