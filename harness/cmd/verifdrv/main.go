package main

import (
	"verifharness/drv"
	_ "verifharness/drivers"
)

func main() { drv.Main() }
