// Package engine is the binding point between the TLA+ specifications and the repository's code:
// a proxy frontend.API that forwards every operation to gnark's own test engine (so accept/reject
// is decided by gnark executing the repository's code) while it records hook events, attributes
// hint calls to static call sites, substitutes adversarial hint outputs, selects the range-check
// mechanism the repository's chip will pick (by the optional interfaces it exposes) and tracks
// exact integer upper bounds and proof-leaf provenance of values.
package engine

import (
	"fmt"
	"math/big"
	"math/rand"
	"reflect"
	"runtime"
	"strings"
	"sync"

	"github.com/consensys/gnark/constraint/solver"
	"github.com/consensys/gnark/frontend"
	gl "github.com/wormhole-foundation/example-near-light-client/goldilocks"
)

// Mode selects which optional interfaces the proxy exposes, and therefore which range-check
// mechanism goldilocks.New selects.
type Mode int

const (
	Plain  Mode = iota // neither Rangechecker nor Committer  => bit decomposition
	Commit             // Committer                           => commit range checker
	Native             // Rangechecker                        => "native" range checker
)

func (m Mode) String() string { return [...]string{"plain", "commit", "native"}[m] }

func ParseMode(s string) Mode {
	switch s {
	case "plain", "bitdecomp":
		return Plain
	case "commit":
		return Commit
	case "native":
		return Native
	}
	panic("unknown mode " + s)
}

var R, _ = new(big.Int).SetString("21888242871839275222246405745257275088548364400416034343698204186575808495617", 10)
var P, _ = new(big.Int).SetString("18446744069414584321", 10)

// Event is one hook-level or API-level event.
type Event struct {
	Seq  int
	Kind string
	Args []any
}

// HintCall describes one call of Compiler.NewHint as seen by the proxy.
type HintCall struct {
	Name    string
	Site    string // static call chain inside the repository, innermost first
	Occ     int    // occurrence number of this site in this run (0-based)
	Global  int    // global hint counter
	Depth   int    // number of repository frames on the stack at the call
	Inputs  []*big.Int
	Honest  []*big.Int // nil if the honest hint failed
	HonestE string
}

// HintStrategy may return substituted outputs for a hint call (nil = keep honest outputs).
type HintStrategy func(c *HintCall) []*big.Int

// SiteStat aggregates hint calls per static site.
type SiteStat struct {
	Name     string
	Site     string
	Count    int
	MaxIn    []*big.Int // per input: max exact upper bound seen (interval analysis), nil if not tracked
	QBits    int        // unused
	FirstOcc int
	OutBits  []map[int]int // per output: enforced n-bit widths seen on that output (width -> count)
	OutCanon []int         // per output: number of times the output went into a canonical RangeCheck
	NOut     int
	Sample   [][2]int // seeded reservoir of (occurrence, global hint index) pairs; entry 0 is occurrence 0
}

type pendRef struct {
	st  *SiteStat
	idx int
}

// Config configures one run of a circuit against the proxy.
type Config struct {
	Mode             Mode
	Strategy         HintStrategy
	Permissive       bool // when the honest hint fails (panic/error), fall back to a permissive generic hint
	PermissiveFlavor int  // 0: the integer quotient / limbs; 1: for limb splits the pair (0, x) - another value a prover may supply when the honest hint refuses; 2: gnark's bit decomposition of a value that does not fit: everything in digit 0
	TrackBounds      bool
	Leaves           map[*big.Int]string // witness leaf identity -> path
	RecordEvts       map[string]bool     // hook kinds to record (nil = none, "*" = all)
	NoNativeChk      bool                // Native mode: do not enforce Check (used only for self tests)
	AlsoRangechecker bool                // expose frontend.Rangechecker in addition to what Mode implies
	AlsoCommitter    bool                // expose frontend.Committer in addition to what Mode implies
	Typer            bool                // expose the chip's own FrontendTyper interface
	FT               int                 // value returned by FrontendType(): 0 = R1CS, 1 = SCS

	mu       sync.Mutex
	cmu      sync.Mutex
	Events   []Event
	seq      int
	Sites    map[string]*SiteStat
	siteOcc  map[string]int
	nHints   int
	Checks   []CheckRec // native Check calls / ToBinary widths / Decompose hints
	bounds   map[*big.Int]*big.Int
	pending  map[*big.Int]pendRef
	canon    map[*big.Int][2]*big.Int  // x -> (hi, lo) of a canonical range check in progress
	LeafUse  map[string]map[string]int // leaf -> consumer kind -> count
	Counters map[string]int
	Deferred int
	Commits  int

	// local verdict of a substitution: set when the first hint call at the same or a shallower nesting depth
	// is reached after the substituted one, i.e. when the substituted gadget has returned without a failed constraint
	SampleRng       *rand.Rand // seeded sampling of occurrences per static site
	TargetGlobal    int        // >0: the Strategy is consulted only for the hint call with this global index (and its site computed only there)
	AbortAfterLocal bool
	LocalAccepted   bool
	watching        bool
	watchFn         string
	inHint          bool
	watchDepth      int
}

// EndOfDefine is called by the harness circuits when Define returned normally.
func (c *Config) EndOfDefine() {
	if c.watching {
		c.watching = false
		c.LocalAccepted = true
	}
}

type CheckRec struct {
	Via  string // native | nbits | decompose
	Bits int
	Val  *big.Int
	Leaf string
}

func (c *Config) count(k string) {
	c.cmu.Lock()
	defer c.cmu.Unlock()
	if c.Counters == nil {
		c.Counters = map[string]int{}
	}
	c.Counters[k]++
}

func (c *Config) wants(kind string) bool {
	if c.RecordEvts == nil {
		return false
	}
	return c.RecordEvts["*"] || c.RecordEvts[kind]
}

// ---------------------------------------------------------------------------------------------

type base struct {
	frontend.API // gnark's engine
	cfg          *Config
	self         frontend.API // the outermost wrapper (mode specific type)
	comp         frontend.Compiler
}

type kv interface {
	SetKeyValue(key, value any)
	GetKeyValue(key any) any
}

func (b *base) SetKeyValue(k, v any)        { b.API.(kv).SetKeyValue(k, v) }
func (b *base) GetKeyValue(k any) any       { return b.API.(kv).GetKeyValue(k) }
func (b *base) Compiler() frontend.Compiler { return b.comp }

// VerifEvent is the optional interface looked up by the repository's verifEvent hook.
func (b *base) VerifEvent(kind string, args ...any) {
	c := b.cfg
	c.count("ev:" + kind)
	if kind == "rcreq" && c.pending != nil {
		if p, ok := args[1].(*big.Int); ok {
			if pr, ok := c.pending[p]; ok {
				if pr.st.OutBits[pr.idx] == nil {
					pr.st.OutBits[pr.idx] = map[int]int{}
				}
				pr.st.OutBits[pr.idx][args[2].(int)]++
			}
		}
	}
	if !c.wants(kind) {
		return
	}
	c.mu.Lock()
	c.seq++
	c.Events = append(c.Events, Event{Seq: c.seq, Kind: kind, Args: args})
	c.mu.Unlock()
}

func (b *base) big(v frontend.Variable) *big.Int {
	switch t := v.(type) {
	case *big.Int:
		return t
	}
	return ToBig(v)
}

// ToBig converts a constant-like frontend.Variable into a big.Int reduced mod R.
func ToBig(v frontend.Variable) *big.Int {
	switch t := v.(type) {
	case *big.Int:
		return t
	case big.Int:
		return &t
	case uint64:
		return new(big.Int).SetUint64(t)
	case int:
		return new(big.Int).Mod(big.NewInt(int64(t)), R)
	case int64:
		return new(big.Int).Mod(big.NewInt(t), R)
	case uint32:
		return new(big.Int).SetUint64(uint64(t))
	case uint8:
		return new(big.Int).SetUint64(uint64(t))
	case uint:
		return new(big.Int).SetUint64(uint64(t))
	case string:
		x, ok := new(big.Int).SetString(t, 10)
		if !ok {
			panic("bad string constant " + t)
		}
		return x.Mod(x, R)
	}
	rv := reflect.ValueOf(v)
	switch rv.Kind() {
	case reflect.Uint, reflect.Uint8, reflect.Uint16, reflect.Uint32, reflect.Uint64:
		return new(big.Int).SetUint64(rv.Uint())
	case reflect.Int, reflect.Int8, reflect.Int16, reflect.Int32, reflect.Int64:
		return new(big.Int).Mod(big.NewInt(rv.Int()), R)
	}
	// field elements of gnark-crypto (e.g. goldilocks.Element): BigInt is defined on the pointer receiver
	pv := reflect.New(rv.Type())
	pv.Elem().Set(rv)
	if m, ok := pv.Interface().(interface{ BigInt(*big.Int) *big.Int }); ok {
		x := m.BigInt(new(big.Int))
		return x.Mod(x, R)
	}
	if m, ok := v.(interface{ BigInt(*big.Int) *big.Int }); ok {
		x := m.BigInt(new(big.Int))
		return x.Mod(x, R)
	}
	panic(fmt.Sprintf("ToBig: unsupported %T", v))
}

// ---- bounds (interval analysis) ----------------------------------------------------------------

var rMinus1 = new(big.Int).Sub(R, big.NewInt(1))
var pMinus1 = new(big.Int).Sub(P, big.NewInt(1))
var max32 = new(big.Int).SetUint64(1<<32 - 1)

func (b *base) bound(v frontend.Variable) *big.Int {
	c := b.cfg
	if p, ok := v.(*big.Int); ok {
		if bd, ok := c.bounds[p]; ok {
			if hl, ok := c.canon[p]; ok && bd.Cmp(pMinus1) > 0 {
				// x = hi*2^32 + lo was asserted (its bound is then at most 2^64-1) and both limbs have received their
				// 32-bit check: together with the top-limb rule the value is canonical (C06 establishes that composition)
				if b.bound(hl[0]).Cmp(max32) <= 0 && b.bound(hl[1]).Cmp(max32) <= 0 {
					return pMinus1
				}
			}
			return bd
		}
		if _, isLeaf := c.Leaves[p]; isLeaf {
			return rMinus1
		}
		// unknown pointer: a value produced before tracking or a constant big.Int
		return new(big.Int).Set(p)
	}
	return ToBig(v) // constants are exact
}

func capR(x *big.Int) *big.Int {
	if x.Cmp(rMinus1) > 0 {
		return rMinus1
	}
	return x
}

func (b *base) setBound(v frontend.Variable, bd *big.Int) {
	if p, ok := v.(*big.Int); ok {
		b.cfg.bounds[p] = capR(bd)
	}
}

func (b *base) tighten(v frontend.Variable, bd *big.Int) {
	if p, ok := v.(*big.Int); ok {
		if b.bound(v).Cmp(bd) > 0 {
			b.cfg.bounds[p] = bd
		}
	}
}

// fresh returns a copy of r if r aliases one of the operands (gnark's engine returns operands
// themselves from Mul-by-one, Select, Lookup2), so that bounds are attached per value occurrence.
func fresh(r frontend.Variable, ops ...frontend.Variable) frontend.Variable {
	p, ok := r.(*big.Int)
	if !ok {
		return r
	}
	for _, o := range ops {
		if q, ok := o.(*big.Int); ok && q == p {
			return new(big.Int).Set(p)
		}
	}
	return r
}

func (b *base) Add(i1, i2 frontend.Variable, in ...frontend.Variable) frontend.Variable {
	b.cfg.checkReturned()
	r := b.API.Add(i1, i2, in...)
	if b.cfg.TrackBounds {
		s := new(big.Int).Add(b.bound(i1), b.bound(i2))
		for _, x := range in {
			s.Add(s, b.bound(x))
		}
		if s.Cmp(rMinus1) > 0 {
			b.cfg.count("wrap:add")
		}
		b.setBound(r, s)
	}
	return r
}

func (b *base) Mul(i1, i2 frontend.Variable, in ...frontend.Variable) frontend.Variable {
	b.cfg.checkReturned()
	r := b.API.Mul(i1, i2, in...)
	if b.cfg.TrackBounds {
		r = fresh(r, i1, i2)
		s := new(big.Int).Mul(b.bound(i1), b.bound(i2))
		for _, x := range in {
			s.Mul(s, b.bound(x))
			s = new(big.Int).Set(capR(s))
		}
		if s.Cmp(rMinus1) > 0 {
			b.cfg.count("wrap:mul")
		}
		b.setBound(r, s)
	}
	return r
}

func (b *base) MulAcc(a, x, y frontend.Variable) frontend.Variable {
	b.cfg.checkReturned()
	var ba *big.Int
	if b.cfg.TrackBounds {
		ba = b.bound(a) // before the call: the engine may reuse a's storage
		ba = new(big.Int).Set(ba)
	}
	r := b.API.MulAcc(a, x, y)
	if b.cfg.TrackBounds {
		s := new(big.Int).Mul(b.bound(x), b.bound(y))
		s.Add(s, ba)
		if s.Cmp(rMinus1) > 0 {
			b.cfg.count("wrap:mulacc")
		}
		b.setBound(r, s)
	}
	return r
}

func (b *base) Sub(i1, i2 frontend.Variable, in ...frontend.Variable) frontend.Variable {
	b.cfg.checkReturned()
	r := b.API.Sub(i1, i2, in...)
	if b.cfg.TrackBounds {
		// exact only for const - small; otherwise unknown
		bd := rMinus1
		if _, ok := i1.(*big.Int); !ok && len(in) == 0 {
			c1 := ToBig(i1)
			if b.bound(i2).Cmp(c1) <= 0 {
				bd = c1
			}
		}
		b.setBound(r, bd)
	}
	return r
}

func (b *base) Neg(i1 frontend.Variable) frontend.Variable {
	r := b.API.Neg(i1)
	if b.cfg.TrackBounds {
		b.setBound(r, rMinus1)
	}
	return r
}

func (b *base) Select(s, i1, i2 frontend.Variable) frontend.Variable {
	b.cfg.checkReturned()
	r := b.API.Select(s, i1, i2)
	if b.cfg.TrackBounds {
		m := b.bound(i1)
		if x := b.bound(i2); x.Cmp(m) > 0 {
			m = x
		}
		// Select returns one of its operands (same pointer) in gnark's engine: allocate a copy so that the
		// bound is not attached to the operand itself.
		if p, ok := r.(*big.Int); ok {
			r = new(big.Int).Set(p)
		}
		b.setBound(r, m)
	}
	return r
}

func (b *base) Lookup2(b0, b1, i0, i1, i2, i3 frontend.Variable) frontend.Variable {
	b.cfg.checkReturned()
	r := b.API.Lookup2(b0, b1, i0, i1, i2, i3)
	if b.cfg.TrackBounds {
		m := b.bound(i0)
		for _, x := range []frontend.Variable{i1, i2, i3} {
			if y := b.bound(x); y.Cmp(m) > 0 {
				m = y
			}
		}
		if p, ok := r.(*big.Int); ok {
			r = new(big.Int).Set(p)
		}
		b.setBound(r, m)
	}
	return r
}

func (b *base) IsZero(i1 frontend.Variable) frontend.Variable {
	b.cfg.checkReturned()
	r := b.API.IsZero(i1)
	if b.cfg.TrackBounds {
		if p, ok := r.(*big.Int); ok {
			r = new(big.Int).Set(p)
		}
		b.setBound(r, big.NewInt(1))
	}
	return r
}

func (b *base) ToBinary(i1 frontend.Variable, n ...int) []frontend.Variable {
	b.cfg.checkReturned()
	r := b.API.ToBinary(i1, n...) // panics (reject) if the value does not fit
	nb := 254
	if len(n) > 0 {
		nb = n[0]
	}
	b.cfg.count("tobinary")
	if b.cfg.Leaves != nil || b.cfg.TrackBounds {
		// the engine returns bits as plain uints: give each bit an identity so that provenance and bounds can follow it
		for i, x := range r {
			if _, ok := x.(*big.Int); !ok {
				r[i] = ToBig(x)
			}
		}
	}
	b.cfg.Emit("tobinary", i1, r)
	if b.cfg.TrackBounds {
		for _, x := range r {
			b.setBound(x, big.NewInt(1))
		}
		if nb < 254 {
			m := new(big.Int).Lsh(big.NewInt(1), uint(nb))
			b.tighten(i1, m.Sub(m, big.NewInt(1)))
		}
	}
	if b.cfg.Leaves != nil {
		if p, ok := i1.(*big.Int); ok {
			if lf, ok := b.cfg.Leaves[p]; ok {
				b.useLeaf(lf, "tobinary")
				// provenance for chunks built from these bits
				for i, x := range r {
					if bp, ok := x.(*big.Int); ok {
						b.cfg.Leaves[bp] = fmt.Sprintf("%s#bit%d", lf, i)
					}
				}
			}
		}
	}
	return r
}

func (b *base) FromBinary(v ...frontend.Variable) frontend.Variable {
	b.cfg.checkReturned()
	r := b.API.FromBinary(v...)
	if b.cfg.TrackBounds {
		m := new(big.Int).Lsh(big.NewInt(1), uint(len(v)))
		b.setBound(r, m.Sub(m, big.NewInt(1)))
	}
	if b.cfg.Leaves != nil && len(v) > 0 {
		if p, ok := v[0].(*big.Int); ok {
			if lf, ok := b.cfg.Leaves[p]; ok && strings.Contains(lf, "#bit") {
				if rp, ok := r.(*big.Int); ok {
					b.cfg.Leaves[rp] = strings.Replace(lf, "#bit", "#chunk@", 1)
				}
			}
		}
	}
	return r
}

func (b *base) AssertIsEqual(i1, i2 frontend.Variable) {
	b.cfg.checkReturned()
	b.cfg.count("asserteq")
	b.API.AssertIsEqual(i1, i2)
	if b.cfg.TrackBounds {
		x, y := b.bound(i1), b.bound(i2)
		if x.Cmp(y) < 0 {
			b.tighten(i2, x)
		} else {
			b.tighten(i1, y)
		}
	}
}

func (b *base) useLeaf(leaf, kind string) {
	c := b.cfg
	if c.LeafUse == nil {
		c.LeafUse = map[string]map[string]int{}
	}
	m := c.LeafUse[leaf]
	if m == nil {
		m = map[string]int{}
		c.LeafUse[leaf] = m
	}
	m[kind]++
}

// Emit records a proxy-level event (same stream and sequence numbering as the hook events).
func (c *Config) Emit(kind string, args ...any) {
	if !c.wants(kind) {
		return
	}
	c.mu.Lock()
	c.seq++
	c.Events = append(c.Events, Event{Seq: c.seq, Kind: kind, Args: args})
	c.mu.Unlock()
}

func (b *base) noteCheck(via string, v frontend.Variable, bits int) {
	c := b.cfg
	c.Emit("deliver", via, bits)
	if !c.wants("check") {
		return
	}
	rec := CheckRec{Via: via, Bits: bits}
	if p, ok := v.(*big.Int); ok {
		rec.Val = p
		if c.Leaves != nil {
			rec.Leaf = c.Leaves[p]
		}
	}
	c.Checks = append(c.Checks, rec)
}

// nativeCheck is frontend.Rangechecker.Check for the Native mode: exact semantics.
func (b *base) nativeCheck(v frontend.Variable, bits int) {
	b.cfg.count("nativecheck")
	b.noteCheck("native", v, bits)
	x := b.big(v)
	if !b.cfg.NoNativeChk && x.BitLen() > bits {
		panic(fmt.Sprintf("[native range check] %s does not fit in %d bits", x.String(), bits))
	}
	if b.cfg.TrackBounds {
		m := new(big.Int).Lsh(big.NewInt(1), uint(bits))
		b.tighten(v, m.Sub(m, big.NewInt(1)))
	}
}

// ---- compiler wrapper --------------------------------------------------------------------------

type comp struct {
	frontend.Compiler
	b *base
}

func (c *comp) SetKeyValue(k, v any)  { c.Compiler.(kv).SetKeyValue(k, v) }
func (c *comp) GetKeyValue(k any) any { return c.Compiler.(kv).GetKeyValue(k) }
func (c *comp) Defer(cb func(frontend.API) error) {
	c.b.cfg.cmu.Lock()
	c.b.cfg.Deferred++
	c.b.cfg.cmu.Unlock()
	self := c.b.self
	c.Compiler.Defer(func(_ frontend.API) error { return cb(self) })
}

type commitComp struct{ *comp }

func (c commitComp) Commit(v ...frontend.Variable) (frontend.Variable, error) {
	c.b.cfg.Commits++
	return c.Compiler.(frontend.Committer).Commit(v...)
}

func HintName(f solver.Hint) string {
	n := solver.GetHintName(f)
	if i := strings.LastIndex(n, "."); i >= 0 {
		n = n[i+1:]
	}
	return n
}

const repoPkg = "github.com/wormhole-foundation/example-near-light-client/"

// callSite returns the chain of function names inside the repository's packages, innermost first (at most
// six frames), and the total number of repository frames on the stack (the nesting depth of the call).
func callSite() (string, int) {
	var pcs [96]uintptr
	n := runtime.Callers(3, pcs[:])
	fr := runtime.CallersFrames(pcs[:n])
	var parts []string
	depth := 0
	for {
		f, more := fr.Next()
		if strings.HasPrefix(f.Function, repoPkg) {
			depth++
			if len(parts) < 6 {
				parts = append(parts, strings.TrimPrefix(f.Function, repoPkg))
			}
		}
		if !more {
			break
		}
	}
	return strings.Join(parts, "<-"), depth
}

// checkReturned decides the local verdict of a substitution: the gadget whose hint output was substituted is the innermost repository
// function around that hint call; its constraints have all been evaluated once that invocation has returned, i.e. when the current
// call (a later hint call or any proxied API call) is no longer inside it: not deeper than it, or deeper but with another function at
// its stack position.
func (cfg *Config) checkReturned() {
	if !cfg.watching {
		return
	}
	site, d := callSite()
	returned := d <= cfg.watchDepth
	if !returned {
		parts := strings.Split(site, "<-")
		if i := d - cfg.watchDepth; i < len(parts) && parts[i] != cfg.watchFn {
			returned = true
		}
	} else if d == cfg.watchDepth && strings.Split(site, "<-")[0] == cfg.watchFn && !cfg.inHint {
		returned = false // still in the gadget itself (an API call of the gadget's own body)
	}
	if returned {
		cfg.watching = false
		cfg.LocalAccepted = true
		if cfg.AbortAfterLocal {
			panic(LocalPass)
		}
	}
}

// LocalPass is the panic value used to stop a run as soon as the substituted gadget has returned.
const LocalPass = "verif: the gadget's local constraints passed"

func (c *comp) NewHint(f solver.Hint, nbOutputs int, inputs ...frontend.Variable) ([]frontend.Variable, error) {
	cfg := c.b.cfg
	name := HintName(f)
	needSite := (cfg.Strategy != nil && (cfg.TargetGlobal <= 0 || cfg.TargetGlobal == cfg.nHints+1)) || cfg.Sites != nil
	cfg.nHints++
	call := &HintCall{Name: name, Global: cfg.nHints}
	cfg.count("hint:" + name)
	cfg.inHint = true
	cfg.checkReturned()
	cfg.inHint = false
	if needSite {
		call.Site, call.Depth = callSite()
		if cfg.siteOcc == nil {
			cfg.siteOcc = map[string]int{}
		}
		call.Occ = cfg.siteOcc[call.Site]
		cfg.siteOcc[call.Site]++
	}
	targeted := cfg.Strategy != nil && (cfg.TargetGlobal <= 0 || cfg.TargetGlobal == call.Global)
	if targeted || cfg.Permissive {
		call.Inputs = make([]*big.Int, len(inputs))
		for i, x := range inputs {
			call.Inputs[i] = c.b.big(x)
		}
	}
	var out []frontend.Variable
	var err error
	func() {
		if cfg.Permissive {
			defer func() {
				if r := recover(); r != nil {
					err = fmt.Errorf("honest hint failed: %v", r)
					out = nil
				}
			}()
		}
		out, err = c.Compiler.NewHint(f, nbOutputs, inputs...)
	}()
	if err == nil {
		call.Honest = make([]*big.Int, len(out))
		for i, o := range out {
			call.Honest[i] = o.(*big.Int)
		}
	} else {
		call.HonestE = err.Error()
	}
	if targeted {
		if sub := cfg.Strategy(call); sub != nil {
			cfg.count("subst")
			if !cfg.watching && !cfg.LocalAccepted {
				cfg.watching, cfg.watchDepth = true, call.Depth
				cfg.watchFn = strings.Split(call.Site, "<-")[0]
			}
			out = make([]frontend.Variable, len(sub))
			for i, s := range sub {
				out[i] = new(big.Int).Mod(s, R)
			}
			err = nil
		}
	}
	if err == nil && cfg.Permissive && cfg.PermissiveFlavor == 2 && name == "nBits" && len(call.Inputs) == 1 && call.Inputs[0].BitLen() > nbOutputs {
		// a value that does not fit the requested number of bits: the honest digits cannot recompose to it; a prover would put the
		// whole value into digit 0 (ForeignMoves.tla, allInDigit0) - rejected exactly when the digits are constrained to be bits
		cfg.count("permissive")
		out = make([]frontend.Variable, nbOutputs)
		for i := range out {
			out[i] = new(big.Int)
		}
		out[0] = new(big.Int).Mod(call.Inputs[0], R)
	}
	if err != nil && cfg.Permissive {
		g := GenericHint(name, call.Inputs, nbOutputs)
		if g != nil && cfg.PermissiveFlavor == 1 && name == "SplitLimbsHint" {
			g = []*big.Int{new(big.Int), new(big.Int).Mod(call.Inputs[0], R)}
		}
		if g != nil {
			cfg.count("permissive")
			out = make([]frontend.Variable, len(g))
			for i, s := range g {
				out[i] = new(big.Int).Mod(s, R)
			}
			err = nil
		}
	}
	if err != nil {
		return nil, err
	}
	if cfg.Sites != nil {
		st := cfg.Sites[call.Site]
		if st == nil {
			st = &SiteStat{Name: name, Site: call.Site, QBits: -1, FirstOcc: call.Global, NOut: nbOutputs,
				OutBits: make([]map[int]int, nbOutputs), OutCanon: make([]int, nbOutputs)}
			if cfg.TrackBounds {
				st.MaxIn = make([]*big.Int, len(inputs))
			}
			cfg.Sites[call.Site] = st
		}
		st.Count++
		// the reservoir: 5 occurrences for the chip's own hints, 16 for any other hint (a generic move may apply to a fraction of the
		// inputs only, e.g. "the digits of x + r" to the values below 2^254 - r)
		resv := 5
		if !KnownHint(name) {
			resv = 16
		}
		if len(st.Sample) < resv {
			st.Sample = append(st.Sample, [2]int{st.Count - 1, call.Global})
		} else if cfg.SampleRng != nil {
			if j := cfg.SampleRng.Intn(st.Count); j < resv-1 {
				st.Sample[1+j] = [2]int{st.Count - 1, call.Global}
			}
		}
		if cfg.pending == nil {
			cfg.pending = map[*big.Int]pendRef{}
		}
		if name == "SplitLimbsHint" && strings.Contains(call.Site, "goldilocks.(*Chip).RangeCheck") {
			if p, ok := inputs[0].(*big.Int); ok {
				if pr, ok := cfg.pending[p]; ok {
					pr.st.OutCanon[pr.idx]++
				}
			}
		}
		for i, o := range out {
			if p, ok := o.(*big.Int); ok {
				cfg.pending[p] = pendRef{st, i}
			}
		}
		if cfg.TrackBounds {
			for i, x := range inputs {
				bd := c.b.bound(x)
				if st.MaxIn[i] == nil || st.MaxIn[i].Cmp(bd) < 0 {
					st.MaxIn[i] = bd
				}
			}
		}
	}
	if cfg.TrackBounds {
		for _, o := range out {
			c.b.setBound(o, rMinus1)
		}
		if name == "SplitLimbsHint" && len(out) == 2 && strings.Contains(callSiteOr(call), "goldilocks.(*Chip).RangeCheck") {
			if p, ok := inputs[0].(*big.Int); ok {
				if cfg.canon == nil {
					cfg.canon = map[*big.Int][2]*big.Int{}
				}
				cfg.canon[p] = [2]*big.Int{out[0].(*big.Int), out[1].(*big.Int)}
				if _, has := cfg.bounds[p]; !has {
					cfg.bounds[p] = c.b.bound(p)
				}
			}
		}
	}
	if name == "DecomposeHint" {
		c.b.noteCheck("decompose", inputs[2], int(c.b.big(inputs[0]).Int64()))
	} else if strings.EqualFold(name, "nbits") {
		cfg.count("nbitscheck")
		c.b.noteCheck("nbits", inputs[0], nbOutputs)
		if cfg.TrackBounds {
			m := new(big.Int).Lsh(big.NewInt(1), uint(nbOutputs))
			c.b.tighten(inputs[0], m.Sub(m, big.NewInt(1)))
			for _, o := range out {
				c.b.setBound(o, big.NewInt(1))
			}
		}
	}
	return out, nil
}

func callSiteOr(c *HintCall) string {
	if c.Site == "" {
		c.Site, c.Depth = callSite()
	}
	return c.Site
}

// GenericHint is what an unconstrained prover would compute: the same arithmetic as the honest hint
// functions without their input guards.
func GenericHint(name string, in []*big.Int, nOut int) []*big.Int {
	switch name {
	case "MulAddHint":
		s := new(big.Int).Mul(in[0], in[1])
		s.Add(s, in[2])
		q, r := new(big.Int).QuoRem(s, P, new(big.Int))
		return []*big.Int{q, r}
	case "ReduceHint":
		q, r := new(big.Int).QuoRem(in[0], P, new(big.Int))
		return []*big.Int{q, r}
	case "SplitLimbsHint":
		t := new(big.Int).Lsh(big.NewInt(1), 32)
		q, r := new(big.Int).QuoRem(in[0], t, new(big.Int))
		return []*big.Int{q, r}
	case "InverseHint":
		x := new(big.Int).Mod(in[0], P)
		if x.Sign() == 0 {
			return []*big.Int{big.NewInt(0)}
		}
		return []*big.Int{x.ModInverse(x, P)}
	}
	return nil
}

// ---- mode specific outer types -------------------------------------------------------------------
//
// Go method sets are static, so every combination of optional interfaces is its own type:
// {Rangechecker?} x {Committer?} x {the chip's FrontendTyper?}.

type PlainAPI struct{ *base }
type CommitAPI struct{ *base }
type NativeAPI struct{ *base }
type NativeCommitAPI struct{ *base }
type PlainFT struct{ PlainAPI }
type CommitFT struct{ CommitAPI }
type NativeFT struct{ NativeAPI }
type NativeCommitFT struct{ NativeCommitAPI }

func (a CommitAPI) Commit(v ...frontend.Variable) (frontend.Variable, error) {
	a.cfg.Commits++
	return a.base.API.(frontend.Committer).Commit(v...)
}
func (a NativeCommitAPI) Commit(v ...frontend.Variable) (frontend.Variable, error) {
	a.cfg.Commits++
	return a.base.API.(frontend.Committer).Commit(v...)
}
func (a NativeAPI) Check(v frontend.Variable, bits int)       { a.nativeCheck(v, bits) }
func (a NativeCommitAPI) Check(v frontend.Variable, bits int) { a.nativeCheck(v, bits) }

func (a PlainFT) FrontendType() gl.Type        { return gl.Type(a.cfg.FT) }
func (a CommitFT) FrontendType() gl.Type       { return gl.Type(a.cfg.FT) }
func (a NativeFT) FrontendType() gl.Type       { return gl.Type(a.cfg.FT) }
func (a NativeCommitFT) FrontendType() gl.Type { return gl.Type(a.cfg.FT) }

// Wrap builds the proxy around gnark's engine.
func Wrap(api frontend.API, cfg *Config) frontend.API {
	if cfg.TrackBounds && cfg.bounds == nil {
		cfg.bounds = map[*big.Int]*big.Int{}
	}
	b := &base{API: api, cfg: cfg}
	cw := &comp{Compiler: api.Compiler(), b: b}
	rc := cfg.Mode == Native || cfg.AlsoRangechecker
	cm := cfg.Mode == Commit || cfg.AlsoCommitter
	b.comp = cw
	if cm {
		b.comp = commitComp{cw}
	}
	switch {
	case rc && cm && cfg.Typer:
		b.self = NativeCommitFT{NativeCommitAPI{b}}
	case rc && cm:
		b.self = NativeCommitAPI{b}
	case rc && cfg.Typer:
		b.self = NativeFT{NativeAPI{b}}
	case rc:
		b.self = NativeAPI{b}
	case cm && cfg.Typer:
		b.self = CommitFT{CommitAPI{b}}
	case cm:
		b.self = CommitAPI{b}
	case cfg.Typer:
		b.self = PlainFT{PlainAPI{b}}
	default:
		b.self = PlainAPI{b}
	}
	return b.self
}

// Bound exposes the interval bound of a value after a run (for tests of the tracker).
func (c *Config) Bound(v frontend.Variable) *big.Int {
	if p, ok := v.(*big.Int); ok {
		if bd, ok := c.bounds[p]; ok {
			return bd
		}
	}
	return nil
}

// CanonBound returns the interval bound of a witness leaf after the run, taking a completed canonical check into account.
func (c *Config) CanonBound(p *big.Int) *big.Int {
	b := &base{cfg: c}
	if _, ok := c.bounds[p]; !ok {
		return nil
	}
	return b.bound(p)
}

// ---- alternatives for prover-supplied values the specification does not know -----------------------------------------
//
// GlGadgets.tla specifies the four hint functions of the Goldilocks chip.  A hint call of any other name (gnark's own bit
// decomposition used directly, a hint added by a change) is a prover-supplied value the specification has no game for; the
// families below are the generic moves of that prover, recognised from the honest call's shape:
//
//	bits   all outputs 0/1 and sum b_i 2^i = input:   one low bit flipped, compensated by a non-boolean top digit (field inverse of
//	       2^(n-1));  the bits of input + r (when they fit);  everything in digit 0
//	split  two outputs and input = lo + 2^k hi (either order, k <= 128):  lo with its lowest bit flipped, hi solved in the field
//	other  every output + p (Goldilocks-valued ones) and + 1, one at a time: a hinted value must be pinned by the gadget that asks for it
type Alternative struct {
	Family string
	Out    []*big.Int
	Global bool // verdict by the whole run instead of the local one
}

var knownHints = map[string]bool{"ReduceHint": true, "MulAddHint": true, "SplitLimbsHint": true, "InverseHint": true}

func KnownHint(name string) bool { return knownHints[name] }

func ForeignAlternatives(c *HintCall) []Alternative {
	if c.Honest == nil || len(c.Honest) == 0 {
		return nil
	}
	var alts []Alternative
	h := c.Honest
	n := len(h)
	one := big.NewInt(1)
	// bits?
	for xi := len(c.Inputs) - 1; xi >= 0 && n >= 2; xi-- {
		x := c.Inputs[xi]
		isBits := true
		sum := new(big.Int)
		for i := n - 1; i >= 0; i-- {
			if h[i].Sign() != 0 && h[i].Cmp(one) != 0 {
				isBits = false
				break
			}
			sum.Lsh(sum, 1).Add(sum, h[i])
		}
		if isBits && new(big.Int).Mod(sum, R).Cmp(new(big.Int).Mod(x, R)) == 0 {
			cp := func() []*big.Int {
				o := make([]*big.Int, n)
				for i := range o {
					o[i] = new(big.Int).Set(h[i])
				}
				return o
			}
			// (a) low bit flipped, top digit absorbs the difference
			a := cp()
			delta := big.NewInt(1) // new - old of digit 0
			if a[0].Sign() != 0 {
				delta.SetInt64(-1)
			}
			a[0] = new(big.Int).Add(a[0], delta)
			inv := new(big.Int).ModInverse(new(big.Int).Lsh(one, uint(n-1)), R)
			a[n-1] = new(big.Int).Mod(new(big.Int).Sub(a[n-1], new(big.Int).Mul(delta, inv)), R)
			alts = append(alts, Alternative{Family: "bits/nonboolean-top-digit", Out: a})
			// (b) the bits of x + r
			y := new(big.Int).Add(new(big.Int).Mod(x, R), R)
			if y.BitLen() <= n {
				b := make([]*big.Int, n)
				for i := range b {
					b[i] = big.NewInt(int64(y.Bit(i)))
				}
				alts = append(alts, Alternative{Family: "bits/of-input-plus-r", Out: b})
			}
			// (a') two top digits shifted against each other (+1 and -2): the sum and every low digit stay as they are
			if n >= 3 {
				t := cp()
				t[n-1] = new(big.Int).Mod(new(big.Int).Add(t[n-1], one), R)
				t[n-2] = new(big.Int).Mod(new(big.Int).Sub(t[n-2], big.NewInt(2)), R)
				alts = append(alts, Alternative{Family: "bits/two-top-digits-shifted", Out: t})
			}
			// (c) everything in digit 0
			if sum.Cmp(one) > 0 {
				z := make([]*big.Int, n)
				for i := range z {
					z[i] = new(big.Int)
				}
				z[0] = new(big.Int).Mod(x, R)
				alts = append(alts, Alternative{Family: "bits/all-in-digit-0", Out: z})
			}
			return alts
		}
	}
	// split?
	for xi := len(c.Inputs) - 1; xi >= 0 && n == 2; xi-- {
		x := new(big.Int).Mod(c.Inputs[xi], R)
		for k := uint(1); k <= 128; k++ {
			for ord := 0; ord < 2; ord++ {
				lo, hi := h[ord], h[1-ord]
				v := new(big.Int).Lsh(hi, k)
				v.Add(v, lo).Mod(v, R)
				if v.Cmp(x) != 0 || (hi.Sign() == 0 && lo.Cmp(x) == 0 && k > 1) {
					continue
				}
				lo2 := new(big.Int).Xor(lo, one)
				hi2 := new(big.Int).Sub(x, lo2)
				hi2.Mul(hi2, new(big.Int).ModInverse(new(big.Int).Lsh(one, k), R)).Mod(hi2, R)
				out := make([]*big.Int, 2)
				out[ord], out[1-ord] = lo2, hi2
				alts = append(alts, Alternative{Family: fmt.Sprintf("split/low-bit-flipped-high-solved k=%d", k), Out: out})
				// everything in the low part / everything in the high part
				if hi.Sign() != 0 {
					o2 := make([]*big.Int, 2)
					o2[ord], o2[1-ord] = new(big.Int).Set(x), new(big.Int)
					alts = append(alts, Alternative{Family: fmt.Sprintf("split/all-in-low k=%d", k), Out: o2})
				}
				if lo.Sign() != 0 {
					o3 := make([]*big.Int, 2)
					h3 := new(big.Int).Mul(x, new(big.Int).ModInverse(new(big.Int).Lsh(one, k), R))
					o3[ord], o3[1-ord] = new(big.Int), h3.Mod(h3, R)
					alts = append(alts, Alternative{Family: fmt.Sprintf("split/all-in-high k=%d", k), Out: o3})
				}
				return alts
			}
		}
	}
	// radix? n >= 3 digits of a uniform width w >= 2 (either order) recomposing to an input: ForeignMoves.tla, shape "digits" with W > 1
	for xi := len(c.Inputs) - 1; xi >= 0 && n >= 3; xi-- {
		x := new(big.Int).Mod(c.Inputs[xi], R)
		for ord := 0; ord < 2; ord++ {
			d := make([]*big.Int, n) // little-endian view
			for i := range d {
				if ord == 0 {
					d[i] = h[i]
				} else {
					d[i] = h[n-1-i]
				}
			}
			high := false
			for i := 1; i < n; i++ {
				if d[i].Sign() != 0 {
					high = true
				}
			}
			if !high {
				continue // the width cannot be read off a value that fits the lowest digit
			}
			for w := uint(2); w <= 128; w++ {
				lim := new(big.Int).Lsh(one, w)
				ok := true
				sum := new(big.Int)
				for i := n - 1; i >= 0; i-- {
					if d[i].Cmp(lim) >= 0 {
						ok = false
						break
					}
					sum.Lsh(sum, w).Add(sum, d[i])
				}
				if !ok || new(big.Int).Mod(sum, R).Cmp(x) != 0 {
					continue
				}
				emit := func(fam string, le []*big.Int) {
					o := make([]*big.Int, n)
					for i := range o {
						if ord == 0 {
							o[i] = le[i]
						} else {
							o[i] = le[n-1-i]
						}
					}
					alts = append(alts, Alternative{Family: fmt.Sprintf("%s w=%d", fam, w), Out: o})
				}
				cp := func() []*big.Int {
					o := make([]*big.Int, n)
					for i := range o {
						o[i] = new(big.Int).Set(d[i])
					}
					return o
				}
				top := new(big.Int).Lsh(one, w*uint(n-1))
				// the digits of x + r, the top digit taking whatever is left
				y := new(big.Int).Add(x, R)
				if new(big.Int).Rsh(y, w*uint(n-1)).Cmp(lim) < 0 {
					b := make([]*big.Int, n)
					rest := new(big.Int).Set(y)
					for i := 0; i < n; i++ {
						if i == n-1 {
							b[i] = new(big.Int).Set(rest)
						} else {
							b[i] = new(big.Int).And(rest, new(big.Int).Sub(lim, one))
							rest.Rsh(rest, w)
						}
					}
					emit("radix/of-input-plus-r", b)
				}
				// a unit borrowed from the top digit: top - 1, next + 2^w (accepted when the digit bound is wider than the radix)
				if d[n-1].Sign() > 0 {
					t := cp()
					t[n-1].Sub(t[n-1], one)
					t[n-2].Add(t[n-2], lim)
					emit("radix/borrow-from-top", t)
				}
				// the two top digits shifted the other way: top + 1, next - 2^w in the field
				t2 := cp()
				t2[n-1].Add(t2[n-1], one)
				t2[n-2] = new(big.Int).Mod(new(big.Int).Sub(t2[n-2], lim), R)
				emit("radix/two-top-digits-shifted", t2)
				// lowest bit flipped, the top digit solved in the field
				a := cp()
				delta := big.NewInt(1)
				if a[0].Bit(0) == 1 {
					delta.SetInt64(-1)
				}
				a[0].Add(a[0], delta)
				a[n-1] = new(big.Int).Mod(new(big.Int).Sub(a[n-1], new(big.Int).Mul(delta, new(big.Int).ModInverse(new(big.Int).Mod(top, R), R))), R)
				emit("radix/low-bit-flipped-top-solved", a)
				// everything in digit 0
				z := make([]*big.Int, n)
				for i := range z {
					z[i] = new(big.Int)
				}
				z[0] = new(big.Int).Set(x)
				emit("radix/all-in-digit-0", z)
				return alts
			}
		}
	}
	// quotient / remainder pairs of a reduction modulo p that is not one of the chip's own (GlGadgets.tla's reduce game played at a foreign
	// hint): outputs (a, b) with a p + b = an input; moves: the remainder moved by one with the quotient solved in the field, the
	// decomposition of the input + r, and (a - 1, b + p)
	if n >= 2 {
		pInv := new(big.Int).ModInverse(P, R)
		for xi := range c.Inputs {
			x := new(big.Int).Mod(c.Inputs[xi], R)
			for qi := 0; qi < n; qi++ {
				for ri := 0; ri < n; ri++ {
					if qi == ri || h[ri].Cmp(P) >= 0 {
						continue
					}
					v := new(big.Int).Mul(h[qi], P)
					v.Add(v, h[ri]).Mod(v, R)
					if v.Cmp(x) != 0 || (h[qi].Sign() == 0 && n > 2 && x.Sign() == 0) {
						continue
					}
					mk := func(q, r *big.Int) []*big.Int {
						o := make([]*big.Int, n)
						for j := range o {
							o[j] = new(big.Int).Set(h[j])
						}
						o[qi], o[ri] = new(big.Int).Mod(q, R), new(big.Int).Mod(r, R)
						return o
					}
					r2 := new(big.Int).Add(h[ri], one)
					if r2.Cmp(P) >= 0 {
						r2.SetInt64(0)
					}
					q2 := new(big.Int).Sub(x, r2)
					q2.Mul(q2, pInv).Mod(q2, R)
					alts = append(alts, Alternative{Family: fmt.Sprintf("reduce/remainder-moved-quotient-solved out=%d,%d", qi, ri), Out: mk(q2, r2)})
					y := new(big.Int).Add(x, R)
					q3, r3 := new(big.Int).QuoRem(y, P, new(big.Int))
					alts = append(alts, Alternative{Family: fmt.Sprintf("reduce/of-input-plus-r out=%d,%d", qi, ri), Out: mk(q3, r3)})
					alts = append(alts, Alternative{Family: fmt.Sprintf("reduce/quotient-minus-one out=%d,%d", qi, ri), Out: mk(new(big.Int).Sub(h[qi], one), new(big.Int).Add(h[ri], P))})
				}
			}
		}
		if len(alts) > 0 {
			return alts
		}
	}
	// other: a Goldilocks-valued output given as value + p (the same residue, not canonical), then every output + 1
	for i := range h {
		if h[i].Cmp(P) < 0 {
			o := make([]*big.Int, n)
			for j := range o {
				o[j] = new(big.Int).Set(h[j])
			}
			o[i] = new(big.Int).Add(o[i], P)
			alts = append(alts, Alternative{Family: fmt.Sprintf("other/output-%d-plus-p", i), Out: o})
		}
	}
	for i := range h {
		o := make([]*big.Int, n)
		for j := range o {
			o[j] = new(big.Int).Set(h[j])
		}
		o[i] = new(big.Int).Mod(new(big.Int).Add(o[i], one), R)
		alts = append(alts, Alternative{Family: fmt.Sprintf("other/output-%d-plus-1", i), Out: o})
	}
	return alts
}
