// Package drv is the driver registry: `verifdrv <name> <request.json> <response.json>`.
package drv

import (
	"encoding/json"
	"fmt"
	"github.com/consensys/gnark/logger"
	"math/big"
	"math/rand"
	"os"
	"strconv"
)

type Violation struct {
	Sig    string `json:"sig"`
	Detail string `json:"detail"`
	Case   any    `json:"case"`
	Driver string `json:"driver,omitempty"`
}

type Response struct {
	Evaluations int            `json:"evaluations"`
	Distinct    int            `json:"distinct"`
	Trivial     int            `json:"trivial"`
	Violations  []Violation    `json:"violations"`
	Samples     []any          `json:"samples"`
	Results     []any          `json:"results,omitempty"`
	Info        map[string]any `json:"info,omitempty"`
	seen        map[string]bool
}

func (r *Response) Note(k string, v any) {
	if r.Info == nil {
		r.Info = map[string]any{}
	}
	r.Info[k] = v
}

func (r *Response) Inc(k string, d int) {
	if r.Info == nil {
		r.Info = map[string]any{}
	}
	if x, ok := r.Info[k].(int); ok {
		r.Info[k] = x + d
	} else {
		r.Info[k] = d
	}
}

// Count registers one evaluated case; key identifies the concrete instantiation for the
// distinct-nontrivial count; trivial cases are counted separately.
func (r *Response) Count(key string, trivial bool) {
	r.Evaluations++
	if trivial {
		r.Trivial++
		return
	}
	if r.seen == nil {
		r.seen = map[string]bool{}
	}
	if !r.seen[key] {
		r.seen[key] = true
		r.Distinct++
	}
}

func (r *Response) Sample(s any) {
	if len(r.Samples) < 6 {
		r.Samples = append(r.Samples, s)
	}
}

func (r *Response) Violate(sig, detail string, c any) {
	if len(r.Violations) < 200 {
		r.Violations = append(r.Violations, Violation{Sig: sig, Detail: detail, Case: c})
	}
}

type Driver func(req json.RawMessage, resp *Response) error

var registry = map[string]Driver{}

func Register(name string, d Driver) { registry[name] = d }

func Main() {
	logger.Disable()
	if len(os.Args) < 4 {
		fmt.Fprintln(os.Stderr, "usage: verifdrv <driver> <request.json> <response.json>")
		names := []string{}
		for k := range registry {
			names = append(names, k)
		}
		fmt.Fprintln(os.Stderr, "drivers:", names)
		os.Exit(2)
	}
	d, ok := registry[os.Args[1]]
	if !ok {
		fmt.Fprintln(os.Stderr, "unknown driver", os.Args[1])
		os.Exit(2)
	}
	raw, err := os.ReadFile(os.Args[2])
	if err != nil {
		fmt.Fprintln(os.Stderr, err)
		os.Exit(2)
	}
	resp := &Response{Violations: []Violation{}, Samples: []any{}}
	derr := d(raw, resp)
	if derr != nil {
		// what the driver established before it gave up (violations reproduced on the real code included) is still reported;
		// exit status 3 tells the check that the run is incomplete
		fmt.Fprintln(os.Stderr, "driver error:", derr)
		resp.Note("driver_error", derr.Error())
	}
	out, _ := json.Marshal(resp)
	if err := os.WriteFile(os.Args[3], out, 0644); err != nil {
		fmt.Fprintln(os.Stderr, err)
		os.Exit(2)
	}
	if derr != nil {
		os.Exit(3)
	}
}

func Seed() int64 {
	s, _ := strconv.ParseInt(os.Getenv("VERIF_SEED"), 10, 64)
	if s == 0 {
		s = 1
	}
	return s
}

func Rng(salt int64) *rand.Rand { return rand.New(rand.NewSource(Seed()*1000003 + salt)) }

func Tmp() string {
	if d := os.Getenv("VERIF_TMP"); d != "" {
		return d
	}
	return os.TempDir()
}

func BigStr(s string) *big.Int {
	x, ok := new(big.Int).SetString(s, 10)
	if !ok {
		panic("bad integer " + s)
	}
	return x
}

func RandBelow(r *rand.Rand, n *big.Int) *big.Int { return new(big.Int).Rand(r, n) }
