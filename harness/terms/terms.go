// Package terms evaluates, at the real field, the terms written by the TLA+ module Terms (spec/Terms.tla).
package terms

import (
	"encoding/json"
	"fmt"
	"math/big"

	"verifharness/gf"
)

// Term is a parsed term: an operator name with sub-terms / scalar arguments.
type Term struct {
	Op   string
	Args []*Term
	Str  string
	Int  int64
}

func (t *Term) UnmarshalJSON(b []byte) error {
	var raw []json.RawMessage
	if err := json.Unmarshal(b, &raw); err != nil {
		return fmt.Errorf("term must be an array: %s", string(b[:min(len(b), 40)]))
	}
	if len(raw) == 0 {
		return fmt.Errorf("empty term")
	}
	if err := json.Unmarshal(raw[0], &t.Op); err != nil {
		return err
	}
	switch t.Op {
	case "var", "big":
		return json.Unmarshal(raw[1], &t.Str)
	case "nat", "root":
		return json.Unmarshal(raw[1], &t.Int)
	case "gen", "x":
		return nil
	case "exp":
		a := &Term{}
		if err := json.Unmarshal(raw[1], a); err != nil {
			return err
		}
		t.Args = []*Term{a}
		return json.Unmarshal(raw[2], &t.Int)
	default:
		for _, r := range raw[1:] {
			a := &Term{}
			if err := json.Unmarshal(r, a); err != nil {
				return err
			}
			t.Args = append(t.Args, a)
		}
	}
	return nil
}

func min(a, b int) int {
	if a < b {
		return a
	}
	return b
}

// Env maps variable names to GF(p^2) values.
type Env map[string]gf.E

// Eval computes the term; ok = false if an inverse of zero was required.
func Eval(t *Term, env Env) (v gf.E, ok bool) {
	ok = true
	var rec func(t *Term) gf.E
	rec = func(t *Term) gf.E {
		switch t.Op {
		case "var":
			x, has := env[t.Str]
			if !has {
				panic("terms: unbound variable " + t.Str)
			}
			return x
		case "nat":
			return gf.EB(big.NewInt(t.Int))
		case "big":
			b, _ := new(big.Int).SetString(t.Str, 10)
			return gf.EB(b)
		case "gen":
			return gf.EB(big.NewInt(7))
		case "root":
			return gf.EB(gf.PrimitiveRoot(uint(t.Int)))
		case "x":
			return gf.E{big.NewInt(0), big.NewInt(1)}
		case "add":
			return gf.EAdd(rec(t.Args[0]), rec(t.Args[1]))
		case "sub":
			return gf.ESub(rec(t.Args[0]), rec(t.Args[1]))
		case "mul":
			return gf.EMul(rec(t.Args[0]), rec(t.Args[1]))
		case "inv":
			r, o := gf.EInv(rec(t.Args[0]))
			if !o {
				ok = false
			}
			return r
		case "exp":
			return gf.EExp(rec(t.Args[0]), big.NewInt(t.Int))
		case "c0":
			return gf.EB(rec(t.Args[0])[0])
		case "c1":
			return gf.EB(rec(t.Args[0])[1])
		}
		panic("terms: unknown operator " + t.Op)
	}
	v = rec(t)
	return
}

// Size returns the number of nodes.
func (t *Term) Size() int {
	n := 1
	for _, a := range t.Args {
		n += a.Size()
	}
	return n
}
