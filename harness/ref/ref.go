// Package ref executes, at the real field sizes, the schedules and plans that the TLA+ modules PoseidonGl,
// PoseidonBn and Sponges define.  It contains no algorithm of its own beyond the naive layer functions
// (add constants, power map, matrix product) and the constant snapshots of /verif/data.
package ref

import (
	"encoding/json"
	"fmt"
	"math/big"
	"os"

	"verifharness/gf"
)

type GlOp struct {
	Op   string `json:"op"`
	Base int    `json:"base"`
	N    int    `json:"n"`
	Deg  int    `json:"deg"`
}
type BnOp struct {
	Op  string `json:"op"`
	Arg int    `json:"arg"`
}
type PlanOp struct {
	Op      string `json:"op"`
	A, B, C int
}
type Plan struct {
	Kind string   `json:"kind"`
	N    int      `json:"n"`
	M    int      `json:"m"`
	Plan []PlanOp `json:"plan"`
}

// Oracle bundles the constant snapshots and the TLC-emitted schedules.
type Oracle struct {
	GlRC, GlCirc, GlDiag []*big.Int
	BnC, BnS             []*big.Int
	BnM, BnP             [][]*big.Int
	BnVectors            []struct{ In, Out []string }
	GlSched              []GlOp
	BnSched              []BnOp
	Plans                map[string][]PlanOp
}

func VerifRoot() string {
	if r := os.Getenv("VERIF_ROOT"); r != "" {
		return r
	}
	return "/verif"
}

func bigs(xs []string) []*big.Int {
	out := make([]*big.Int, len(xs))
	for i, s := range xs {
		v, ok := new(big.Int).SetString(s, 10)
		if !ok {
			panic("bad constant " + s)
		}
		out[i] = v
	}
	return out
}

// Load reads the snapshots and the schedule / plan files written by TLC.
func Load(glSched, bnSched, plans string) (*Oracle, error) {
	o := &Oracle{Plans: map[string][]PlanOp{}}
	var g struct {
		AllRoundConstants []string `json:"all_round_constants"`
		MdsCirc           []string `json:"mds_circ"`
		MdsDiag           []string `json:"mds_diag"`
	}
	b, err := os.ReadFile(VerifRoot() + "/data/poseidon_gl.json")
	if err != nil {
		return nil, err
	}
	if err := json.Unmarshal(b, &g); err != nil {
		return nil, err
	}
	o.GlRC, o.GlCirc, o.GlDiag = bigs(g.AllRoundConstants), bigs(g.MdsCirc), bigs(g.MdsDiag)
	var n struct {
		C, S    []string
		M, P    [][]string
		Vectors []struct{ In, Out []string }
	}
	b, err = os.ReadFile(VerifRoot() + "/data/poseidon_bn128.json")
	if err != nil {
		return nil, err
	}
	if err := json.Unmarshal(b, &n); err != nil {
		return nil, err
	}
	o.BnC, o.BnS = bigs(n.C), bigs(n.S)
	for i := range n.M {
		o.BnM = append(o.BnM, bigs(n.M[i]))
		o.BnP = append(o.BnP, bigs(n.P[i]))
	}
	o.BnVectors = n.Vectors
	rd := func(path string, v any) error {
		if path == "" {
			return nil
		}
		b, err := os.ReadFile(path)
		if err != nil {
			return err
		}
		return json.Unmarshal(b, v)
	}
	if err := rd(glSched, &o.GlSched); err != nil {
		return nil, err
	}
	if err := rd(bnSched, &o.BnSched); err != nil {
		return nil, err
	}
	var pl []Plan
	if err := rd(plans, &pl); err != nil {
		return nil, err
	}
	for _, p := range pl {
		o.Plans[fmt.Sprintf("%s/%d/%d", p.Kind, p.N, p.M)] = p.Plan
	}
	return o, nil
}

// GlPerm applies the PoseidonGl schedule with the naive layer functions.
func (o *Oracle) GlPerm(in []*big.Int) []*big.Int {
	st := make([]*big.Int, 12)
	for i := range st {
		st[i] = gf.Mod(in[i])
	}
	for _, op := range o.GlSched {
		switch op.Op {
		case "ARK":
			for i := 0; i < op.N; i++ {
				st[i] = gf.Add(st[i], o.GlRC[op.Base+i])
			}
		case "SBOX_FULL", "SBOX_FIRST":
			for i := 0; i < op.N; i++ {
				st[i] = gf.ExpU(st[i], uint64(op.Deg))
			}
		case "MDS":
			out := make([]*big.Int, 12)
			for r := 0; r < 12; r++ {
				acc := new(big.Int)
				for i := 0; i < 12; i++ {
					acc.Add(acc, new(big.Int).Mul(st[(i+r)%12], o.GlCirc[i]))
				}
				acc.Add(acc, new(big.Int).Mul(st[r], o.GlDiag[r]))
				out[r] = gf.Mod(acc)
			}
			st = out
		default:
			panic("GlPerm: unknown op " + op.Op)
		}
	}
	return st
}

func rmod(x *big.Int) *big.Int { return x.Mod(x, gf.R) }

// BnPerm applies the PoseidonBn schedule.
func (o *Oracle) BnPerm(in []*big.Int) []*big.Int {
	st := make([]*big.Int, 4)
	for i := range st {
		st[i] = new(big.Int).Mod(in[i], gf.R)
	}
	exp5 := func(x *big.Int) *big.Int { return new(big.Int).Exp(x, big.NewInt(5), gf.R) }
	mix := func(m [][]*big.Int) {
		out := make([]*big.Int, 4)
		for i := 0; i < 4; i++ {
			acc := new(big.Int)
			for j := 0; j < 4; j++ {
				acc.Add(acc, new(big.Int).Mul(m[j][i], st[j]))
			}
			out[i] = rmod(acc)
		}
		st = out
	}
	for _, op := range o.BnSched {
		switch op.Op {
		case "ARK":
			for i := 0; i < 4; i++ {
				st[i] = rmod(new(big.Int).Add(st[i], o.BnC[op.Arg+i]))
			}
		case "EXP5_ALL":
			for i := 0; i < 4; i++ {
				st[i] = exp5(st[i])
			}
		case "EXP5_FIRST":
			st[0] = exp5(st[0])
		case "ADDC":
			st[0] = rmod(new(big.Int).Add(st[0], o.BnC[op.Arg]))
		case "MIX_M":
			mix(o.BnM)
		case "MIX_P":
			mix(o.BnP)
		case "SPARSE":
			new0 := new(big.Int)
			for j := 0; j < 4; j++ {
				new0.Add(new0, new(big.Int).Mul(o.BnS[op.Arg+j], st[j]))
			}
			for k := 1; k < 4; k++ {
				st[k] = rmod(new(big.Int).Add(st[k], new(big.Int).Mul(st[0], o.BnS[op.Arg+4+k-1])))
			}
			st[0] = rmod(new0)
		default:
			panic("BnPerm: unknown op " + op.Op)
		}
	}
	return st
}

func pack(xs []*big.Int) *big.Int {
	acc := new(big.Int)
	for k, x := range xs {
		acc.Add(acc, new(big.Int).Lsh(x, uint(64*k)))
	}
	return acc
}

// RunPlan executes a sponge plan of Sponges.tla on the given inputs.
func (o *Oracle) RunPlan(kind string, in []*big.Int, m int) []*big.Int {
	plan, ok := o.Plans[fmt.Sprintf("%s/%d/%d", kind, len(in), m)]
	if !ok {
		panic(fmt.Sprintf("no plan for %s n=%d m=%d", kind, len(in), m))
	}
	var st []*big.Int
	w := 12
	if kind != "gl" {
		w = 4
	}
	st = make([]*big.Int, w)
	for i := range st {
		st[i] = new(big.Int)
	}
	var out []*big.Int
	for _, op := range plan {
		switch op.Op {
		case "SET":
			st[op.A] = gf.Mod(in[op.B])
		case "PERM":
			if kind == "gl" {
				st = o.GlPerm(st)
			} else {
				st = o.BnPerm(st)
			}
		case "OUT":
			out = append(out, new(big.Int).Set(st[op.A]))
		case "PACK":
			st[op.A] = pack(in[op.B : op.B+op.C])
		case "PACKOUT":
			out = append(out, pack(in[:op.C]))
		default:
			panic("RunPlan: unknown op " + op.Op)
		}
	}
	return out
}

// GlHashNoPad: inputs reduced first (the code's HashNoPad), 4 outputs.
func (o *Oracle) GlHashNoPad(in []*big.Int) []*big.Int {
	red := make([]*big.Int, len(in))
	for i, x := range in {
		red[i] = gf.Mod(x)
	}
	return o.RunPlan("gl", red, 4)
}

// BnHashOrNoop is PoseidonBN128Hash::hash_or_noop.
func (o *Oracle) BnHashOrNoop(in []*big.Int) *big.Int {
	if len(in) <= 3 {
		return o.RunPlan("bnnoop", in, 1)[0]
	}
	return o.RunPlan("bn", in, 1)[0]
}

// BnTwoToOne is PoseidonBN128Hash::two_to_one.
func (o *Oracle) BnTwoToOne(l, r *big.Int) *big.Int {
	return o.BnPerm([]*big.Int{big.NewInt(0), big.NewInt(0), l, r})[0]
}

// BnToVec is PoseidonBN128HashOut::to_vec: chunks of 7 bytes of the 32-byte little-endian representation.
func BnToVec(h *big.Int) []*big.Int {
	var out []*big.Int
	mask := new(big.Int).Sub(new(big.Int).Lsh(big.NewInt(1), 56), big.NewInt(1))
	x := new(big.Int).Set(h)
	for i := 0; i < 5; i++ { // ceil(32/7) = 5 chunks
		out = append(out, new(big.Int).And(x, mask))
		x.Rsh(x, 56)
	}
	return out
}

// SelfTest validates the oracle against published known-answer vectors.
func (o *Oracle) SelfTest() error {
	zero := make([]*big.Int, 12)
	for i := range zero {
		zero[i] = new(big.Int)
	}
	want := []string{"4330397376401421145", "14124799381142128323", "8742572140681234676", "14345658006221440202", "15524073338516903644", "5091405722150716653",
		"15002163819607624508", "2047012902665707362", "16106391063450633726", "4680844749859802542", "15019775476387350140", "1698615465718385111"}
	if len(o.GlSched) > 0 {
		got := o.GlPerm(zero)
		for i := range want {
			if got[i].String() != want[i] {
				return fmt.Errorf("Goldilocks Poseidon oracle fails the all-zero vector at %d: %s != %s", i, got[i], want[i])
			}
		}
	}
	if len(o.Plans) > 0 && len(o.GlSched) > 0 {
		h := o.GlHashNoPad(bigs([]string{"0", "1", "3736710860384812976"}))
		wh := []string{"8416658900775745054", "12574228347150446423", "9629056739760131473", "3119289788404190010"}
		for i := range wh {
			if h[i].String() != wh[i] {
				return fmt.Errorf("Goldilocks sponge oracle fails the public-input-hash vector at %d", i)
			}
		}
	}
	for vi, v := range o.BnVectors {
		if len(o.BnSched) == 0 {
			break
		}
		got := o.BnPerm(bigs(v.In))
		for i := range v.Out {
			if got[i].String() != v.Out[i] {
				return fmt.Errorf("PoseidonBN128 oracle fails reference vector %d at %d", vi, i)
			}
		}
	}
	return nil
}

// GlPermInv inverts the Goldilocks Poseidon permutation (the schedule run backwards: inverse MDS layer by Gaussian elimination,
// inverse S-box x^(1/d), round constants subtracted).  Used to find an input whose output has a chosen element, e.g. a small one.
func (o *Oracle) GlPermInv(out []*big.Int) []*big.Int {
	st := make([]*big.Int, 12)
	for i := range st {
		st[i] = gf.Mod(out[i])
	}
	pm1 := new(big.Int).Sub(gf.P, big.NewInt(1))
	for k := len(o.GlSched) - 1; k >= 0; k-- {
		op := o.GlSched[k]
		switch op.Op {
		case "ARK":
			for i := 0; i < op.N; i++ {
				st[i] = gf.Sub(st[i], o.GlRC[op.Base+i])
			}
		case "SBOX_FULL", "SBOX_FIRST":
			e := new(big.Int).ModInverse(big.NewInt(int64(op.Deg)), pm1)
			for i := 0; i < op.N; i++ {
				st[i] = gf.Exp(st[i], e)
			}
		case "MDS":
			// M[r][c]: out[r] = sum_i st[(i+r)%12] circ[i] + st[r] diag[r]
			m := make([][]*big.Int, 12)
			for r := 0; r < 12; r++ {
				m[r] = make([]*big.Int, 13)
				for c := 0; c < 13; c++ {
					m[r][c] = new(big.Int)
				}
				for i := 0; i < 12; i++ {
					c := (i + r) % 12
					m[r][c] = gf.Add(m[r][c], o.GlCirc[i])
				}
				m[r][r] = gf.Add(m[r][r], o.GlDiag[r])
				m[r][12] = new(big.Int).Set(st[r])
			}
			for col := 0; col < 12; col++ {
				piv := -1
				for r := col; r < 12; r++ {
					if m[r][col].Sign() != 0 {
						piv = r
						break
					}
				}
				if piv < 0 {
					panic("GlPermInv: singular MDS matrix")
				}
				m[col], m[piv] = m[piv], m[col]
				inv := gf.Inv(m[col][col])
				for c := col; c < 13; c++ {
					m[col][c] = gf.Mul(m[col][c], inv)
				}
				for r := 0; r < 12; r++ {
					if r != col && m[r][col].Sign() != 0 {
						f := new(big.Int).Set(m[r][col])
						for c := col; c < 13; c++ {
							m[r][c] = gf.Sub(m[r][c], gf.Mul(f, m[col][c]))
						}
					}
				}
			}
			for r := 0; r < 12; r++ {
				st[r] = m[r][12]
			}
		default:
			panic("GlPermInv: unknown op " + op.Op)
		}
	}
	return st
}
