// Package hc holds harness circuits: thin frontend.Circuit types whose Define wraps gnark's engine
// with the proxy and then runs the repository's code.
package hc

import (
	"math/big"
	"strings"

	"github.com/consensys/gnark-crypto/ecc"
	"github.com/consensys/gnark/frontend"
	"github.com/consensys/gnark/test"
	"verifharness/engine"
)

// Body is held by pointer so that gnark's shallowClone/DeepEqual never compares func values.
type Body struct {
	Fn func(api frontend.API, in []frontend.Variable) error
}

// Func is a generic circuit: secret inputs In, body F executed against the proxy.
type Func struct {
	In  []frontend.Variable
	Cfg *engine.Config `gnark:"-"`
	F   *Body          `gnark:"-"`
}

func (c *Func) Define(api frontend.API) error {
	err := c.F.Fn(engine.Wrap(api, c.Cfg), c.In)
	c.Cfg.Emit("enddefine")
	return err
}

// Run executes fn on the proxy engine with the given inputs as witness leaves.
func Run(cfg *engine.Config, inputs []*big.Int, fn func(api frontend.API, in []frontend.Variable) error) error {
	in := make([]frontend.Variable, len(inputs))
	for i, x := range inputs {
		in[i] = x
	}
	if len(in) == 0 {
		in = []frontend.Variable{big.NewInt(0)}
	}
	c := &Func{In: in, Cfg: cfg, F: &Body{Fn: fn}}
	return test.IsSolved(c, c, ecc.BN254.ScalarField())
}

// Outcome classifies the result of a run.
//
//	accept  - all constraints satisfied
//	reject  - an assertion / range check / hint failed on the evaluated assignment
//	refuse  - the circuit definition itself panicked or returned an error (shape, configuration)
func Outcome(err error) string {
	if err == nil {
		return "accept"
	}
	s := err.Error()
	if i := strings.Index(s, "\n"); i >= 0 {
		s = s[:i]
	}
	for _, m := range []string{"[assertIsEqual]", "[native range check]", "[assertIsBoolean]", "[ToBinary]", "[assertIsDifferent]", "NewHint:", "honest hint failed", "input is not in the field", "is not in the field", "[assertIsLessOrEqual]", "inverse", "division by 0", "no modular inverse"} {
		if strings.Contains(s, m) {
			return "reject"
		}
	}
	return "refuse"
}

func FirstLine(err error) string {
	if err == nil {
		return ""
	}
	s := err.Error()
	if i := strings.Index(s, "\n"); i >= 0 {
		s = s[:i]
	}
	if len(s) > 240 {
		s = s[:240]
	}
	return s
}
