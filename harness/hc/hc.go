// Package hc holds harness circuits: thin frontend.Circuit types whose Define wraps gnark's engine
// with the proxy and then runs the repository's code.
package hc

import (
	"fmt"
	"math/big"
	"strings"

	"github.com/wormhole-foundation/example-near-light-client/verifier"
	"verifharness/data"

	"github.com/consensys/gnark-crypto/ecc"
	"github.com/consensys/gnark/frontend"
	"github.com/consensys/gnark/test"
	"verifharness/engine"
)

// Body is held by pointer so that gnark's shallowClone/DeepEqual never compares func values.
type Body struct {
	Fn func(api frontend.API, in []frontend.Variable) error
}

// Func is a generic circuit: secret inputs In, body F executed against the proxy.
type Func struct {
	In  []frontend.Variable
	Cfg *engine.Config `gnark:"-"`
	F   *Body          `gnark:"-"`
}

func (c *Func) Define(api frontend.API) error {
	err := c.F.Fn(engine.Wrap(api, c.Cfg), c.In)
	c.Cfg.Emit("enddefine")
	if err == nil {
		c.Cfg.EndOfDefine()
	}
	return err
}

// Run executes fn on the proxy engine with the given inputs as witness leaves.
func Run(cfg *engine.Config, inputs []*big.Int, fn func(api frontend.API, in []frontend.Variable) error) error {
	in := make([]frontend.Variable, len(inputs))
	for i, x := range inputs {
		in[i] = x
	}
	if len(in) == 0 {
		in = []frontend.Variable{big.NewInt(0)}
	}
	c := &Func{In: in, Cfg: cfg, F: &Body{Fn: fn}}
	return test.IsSolved(c, c, ecc.BN254.ScalarField())
}

// Outcome classifies the result of a run.
//
//	accept  - all constraints satisfied
//	reject  - an assertion / range check / hint failed on the evaluated assignment
//	refuse  - the circuit definition itself panicked or returned an error (shape, configuration)
func Outcome(err error) string {
	if err == nil {
		return "accept"
	}
	s := err.Error()
	if i := strings.Index(s, "\n"); i >= 0 {
		s = s[:i]
	}
	for _, m := range []string{"[assertIsEqual]", "[native range check]", "[assertIsBoolean]", "[ToBinary]", "[assertIsDifferent]", "NewHint:", "honest hint failed", "input is not in the field", "is not in the field", "[assertIsLessOrEqual]", "inverse", "division by 0", "no modular inverse"} {
		if strings.Contains(s, m) {
			return "reject"
		}
	}
	return "refuse"
}

func FirstLine(err error) string {
	if err == nil {
		return ""
	}
	s := err.Error()
	if i := strings.Index(s, "\n"); i >= 0 {
		s = s[:i]
	}
	if len(s) > 240 {
		s = s[:240]
	}
	return s
}

// VC wraps the repository's VerifierCircuit so that its Define runs against the proxy.
type VC struct {
	verifier.VerifierCircuit
	Cfg *engine.Config `gnark:"-"`
}

func (c *VC) Define(api frontend.API) error {
	err := c.VerifierCircuit.Define(engine.Wrap(api, c.Cfg))
	c.Cfg.Emit("enddefine")
	if err == nil {
		c.Cfg.EndOfDefine()
	}
	return err
}

// FC wraps the repository's CircuitFixed.
type FC struct {
	verifier.CircuitFixed
	Cfg *engine.Config `gnark:"-"`
}

func (c *FC) Define(api frontend.API) error {
	err := c.CircuitFixed.Define(engine.Wrap(api, c.Cfg))
	c.Cfg.Emit("enddefine")
	if err == nil {
		c.Cfg.EndOfDefine()
	}
	return err
}

// RunVerifier evaluates VerifierCircuit: template (shape, constants) and assignment (leaf values) may differ.
func RunVerifier(cfg *engine.Config, tmpl, asg *data.Loaded) error {
	mk := func(l *data.Loaded) *VC {
		return &VC{VerifierCircuit: verifier.VerifierCircuit{PublicInputs: l.PWPI.PublicInputs, Proof: l.PWPI.Proof, VerifierData: l.VD, CommonCircuitData: l.Common}, Cfg: cfg}
	}
	return solve(mk(tmpl), mk(asg))
}

// VC2 verifies two proofs of the same inner circuit with ONE verifier chip (what a batching caller would do): nothing the chip
// remembers from the first proof may weaken the checks of the second.
type VC2 struct {
	A, B verifier.VerifierCircuit
	Cfg  *engine.Config `gnark:"-"`
}

func (c *VC2) Define(api frontend.API) error {
	p := engine.Wrap(api, c.Cfg)
	chip := verifier.NewVerifierChip(p, c.A.CommonCircuitData)
	chip.Verify(c.A.Proof, c.A.PublicInputs, c.A.VerifierData)
	chip.Verify(c.B.Proof, c.B.PublicInputs, c.B.VerifierData)
	c.Cfg.Emit("enddefine")
	c.Cfg.EndOfDefine()
	return nil
}

// RunVerifierTwo evaluates VC2 on (a, b); both must belong to the same inner circuit.
func RunVerifierTwo(cfg *engine.Config, a, b *data.Loaded) error {
	mk := func(x, y *data.Loaded) *VC2 {
		f := func(l *data.Loaded) verifier.VerifierCircuit {
			return verifier.VerifierCircuit{PublicInputs: l.PWPI.PublicInputs, Proof: l.PWPI.Proof, VerifierData: l.VD, CommonCircuitData: l.Common}
		}
		return &VC2{A: f(x), B: f(y), Cfg: cfg}
	}
	return solve(mk(a, b), mk(a, b))
}

// RunFixed evaluates CircuitFixed with the given four public values.
func RunFixed(cfg *engine.Config, tmpl, asg *data.Loaded, pub [4]*big.Int) error {
	mk := func(l *data.Loaded) *FC {
		c := &FC{CircuitFixed: verifier.CircuitFixed{ProofWithPis: l.PWPI, VerifierData: l.VD, CommonCircuitData: l.Common}, Cfg: cfg}
		for i := range pub {
			c.PublicInputs[i] = pub[i]
		}
		return c
	}
	return solve(mk(tmpl), mk(asg))
}

// Solve evaluates an arbitrary harness circuit on gnark's test engine.
func Solve(c, w frontend.Circuit) error { return solve(c, w) }

func solve(c, w frontend.Circuit) (err error) {
	defer func() {
		if r := recover(); r != nil {
			err = fmt.Errorf("panic outside Define: %v", r)
		}
	}()
	return test.IsSolved(c, w, ecc.BN254.ScalarField())
}

// PackPublic computes the four honest on-chain public values from the 16 public-input limbs.
func PackPublic(pis []*big.Int) [4]*big.Int {
	var out [4]*big.Int
	for j := 0; j < 4; j++ {
		acc := new(big.Int)
		for i := 0; i < 4; i++ {
			acc.Lsh(acc, 32)
			acc.Add(acc, pis[4*j+i])
		}
		out[j] = acc
	}
	return out
}
