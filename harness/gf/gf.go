// Package gf is plain math/big arithmetic over Goldilocks and its quadratic extension X^2 = 7:
// the interpretation, at the real parameters, of the `mod P` / GF(P^2) operators of the TLA+ modules.
package gf

import "math/big"

var P, _ = new(big.Int).SetString("18446744069414584321", 10)
var R, _ = new(big.Int).SetString("21888242871839275222246405745257275088548364400416034343698204186575808495617", 10)
var W = big.NewInt(7)

func N(x int64) *big.Int     { return big.NewInt(x) }
func U(x uint64) *big.Int    { return new(big.Int).SetUint64(x) }
func Mod(x *big.Int) *big.Int { return new(big.Int).Mod(x, P) }
func Add(a, b *big.Int) *big.Int { return Mod(new(big.Int).Add(a, b)) }
func Sub(a, b *big.Int) *big.Int { return Mod(new(big.Int).Sub(a, b)) }
func Mul(a, b *big.Int) *big.Int { return Mod(new(big.Int).Mul(a, b)) }
func Neg(a *big.Int) *big.Int    { return Mod(new(big.Int).Neg(a)) }
func Inv(a *big.Int) *big.Int {
	x := Mod(a)
	if x.Sign() == 0 {
		return nil
	}
	return x.ModInverse(x, P)
}
func Exp(a *big.Int, e *big.Int) *big.Int { return new(big.Int).Exp(Mod(a), e, P) }
func ExpU(a *big.Int, e uint64) *big.Int  { return Exp(a, U(e)) }

// E is an element of GF(p^2) = GF(p)[X]/(X^2-7).
type E [2]*big.Int

func E0() E                   { return E{N(0), N(0)} }
func E1() E                   { return E{N(1), N(0)} }
func EB(a *big.Int) E         { return E{Mod(a), N(0)} }
func (a E) Eq(b E) bool       { return Mod(a[0]).Cmp(Mod(b[0])) == 0 && Mod(a[1]).Cmp(Mod(b[1])) == 0 }
func (a E) IsZero() bool      { return Mod(a[0]).Sign() == 0 && Mod(a[1]).Sign() == 0 }
func EAdd(a, b E) E           { return E{Add(a[0], b[0]), Add(a[1], b[1])} }
func ESub(a, b E) E           { return E{Sub(a[0], b[0]), Sub(a[1], b[1])} }
func ENeg(a E) E              { return E{Neg(a[0]), Neg(a[1])} }
func EScal(a E, s *big.Int) E { return E{Mul(a[0], s), Mul(a[1], s)} }
func EMul(a, b E) E {
	c0 := Add(Mul(a[0], b[0]), Mul(W, Mul(a[1], b[1])))
	c1 := Add(Mul(a[0], b[1]), Mul(a[1], b[0]))
	return E{c0, c1}
}
func EInv(a E) (E, bool) {
	if a.IsZero() {
		return E0(), false
	}
	// 1/(a0 + a1 X) = (a0 - a1 X)/(a0^2 - 7 a1^2)
	n := Sub(Mul(a[0], a[0]), Mul(W, Mul(a[1], a[1])))
	ni := Inv(n)
	return E{Mul(a[0], ni), Mul(Neg(a[1]), ni)}, true
}
func EExp(a E, e *big.Int) E {
	r := E1()
	b := a
	for i := 0; i < e.BitLen(); i++ {
		if e.Bit(i) == 1 {
			r = EMul(r, b)
		}
		b = EMul(b, b)
	}
	return r
}

// PrimitiveRoot returns the generator of the 2^nLog subgroup used by plonky2 (and the repository).
func PrimitiveRoot(nLog uint) *big.Int {
	g := U(1753635133440165772)
	for i := uint(0); i < 32-nLog; i++ {
		g = Mul(g, g)
	}
	return g
}
