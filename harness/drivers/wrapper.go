package drivers

import (
	"encoding/json"
	"fmt"
	"github.com/wormhole-foundation/example-near-light-client/types"
	"github.com/wormhole-foundation/example-near-light-client/variables"
	"math/big"
	"strings"
	"verifharness/ref"

	"github.com/consensys/gnark-crypto/ecc"
	"github.com/consensys/gnark/frontend"
	"github.com/consensys/gnark/frontend/cs/r1cs"
	"github.com/consensys/gnark/frontend/cs/scs"
	"github.com/wormhole-foundation/example-near-light-client/verifier"
	"verifharness/data"
	"verifharness/drv"
	"verifharness/engine"
	"verifharness/hc"
)

// ---- C02: acceptance of valid proofs under every configuration ------------------------------------------

type acceptCase struct {
	Instance string `json:"instance"`
	K        int    `json:"k"`
	Mode     string `json:"mode"`
	Wrapper  string `json:"wrapper"` // vc | fixed
	Sys      string `json:"sys"`     // "" = the proxy on gnark's test engine; r1cs | scs = compiled with gnark's real builder and solved
}

// runRealAccept compiles the repository's circuit with one of gnark's real builders - mode "commit": the commitment-based range
// checker the builders offer (what cmd compile produces); mode "plain": the bit-decomposition override - and solves it with the honest
// witness.  The builders differ from the test engine in what a frontend.Variable is (linear expressions, terms), in constant folding and
// in the order of deferred callbacks; a valid proof is accepted there too.
func runRealAccept(sys, mode string, tmpl, asg *data.Loaded, fixed bool) (stage string, err error) {
	defer func() {
		if r := recover(); r != nil {
			stage, err = "panic", fmt.Errorf("%v", r)
		}
	}()
	setBitDecompEnv(mode == "plain")
	defer setBitDecompEnv(false)
	mk := func(l *data.Loaded) frontend.Circuit {
		if fixed {
			c := &verifier.CircuitFixed{ProofWithPis: l.PWPI, VerifierData: l.VD, CommonCircuitData: l.Common}
			pub := hc.PackPublic(pubInputs(l)[:16])
			for i := range pub {
				c.PublicInputs[i] = pub[i]
			}
			return c
		}
		return &verifier.VerifierCircuit{PublicInputs: l.PWPI.PublicInputs, Proof: l.PWPI.Proof, VerifierData: l.VD, CommonCircuitData: l.Common}
	}
	var nb frontend.NewBuilder = r1cs.NewBuilder
	if sys == "scs" {
		nb = scs.NewBuilder
	}
	ccs, err := frontend.Compile(ecc.BN254.ScalarField(), nb, mk(tmpl))
	if err != nil {
		return "compile", err
	}
	w, err := frontend.NewWitness(mk(asg), ecc.BN254.ScalarField())
	if err != nil {
		return "witness", err
	}
	if err := ccs.IsSolved(w, commitmentOverrides(ccs)...); err != nil {
		return "solve", err
	}
	return "", nil
}

type wrapReq struct {
	Part     string       `json:"part"` // accept | c03 | c04 | noncanon
	Accept   []acceptCase `json:"accept"`
	Instance string       `json:"instance"`
	K        int          `json:"k"`
	C03      []c03Case    `json:"c03"`
	C04      []c04Case    `json:"c04"`
	Shard    int          `json:"shard"`
	NShards  int          `json:"nshards"`
	Ks       []string     `json:"ks"`
	Stride   int          `json:"stride"`
	Classes  []string     `json:"classes"`
	Mode     string       `json:"mode"`     // c03: range-check mechanism of the builder (native | commit | plain), default native
	Paths    []string     `json:"paths"`    // noncanon: only these leaves (targets computed from the canonical-set trace)
	DocPow   bool         `json:"doc_pow"`  // noncanon: the proof-of-work witness + p written into the proof DOCUMENT (where it fits 64 bits) and read by the repository's readers
	PowBits  *int         `json:"pow_bits"` // noncanon: the grinding difficulty of the circuit description (both stored copies) set to this value
}

func init() { drv.Register("wrapper", wrapperDrv) }

func pubInputs(l *data.Loaded) []*big.Int {
	out := []*big.Int{}
	for _, v := range l.PWPI.PublicInputs {
		out = append(out, engine.ToBig(v.Limb))
	}
	return out
}

func wrapperDrv(raw json.RawMessage, resp *drv.Response) error {
	var req wrapReq
	if err := json.Unmarshal(raw, &req); err != nil {
		return err
	}
	switch req.Part {
	case "accept":
		for _, c := range req.Accept {
			l := data.Load(data.ByName(c.Instance), c.K)
			cfg := &engine.Config{Mode: modeOf(c.Mode)}
			var err error
			want := "accept"
			if c.Sys != "" {
				stage, err := runRealAccept(c.Sys, c.Mode, data.Load(data.ByName(c.Instance), c.K), l, c.Wrapper == "fixed")
				resp.Count(fmt.Sprintf("accept-real/%s/%d/%s/%s/%s", c.Instance, l.K, c.Mode, c.Wrapper, c.Sys), false)
				if err != nil {
					resp.Violate(fmt.Sprintf("c02/real-builder/%s mode=%s wrapper=%s sys=%s", stage, c.Mode, c.Wrapper, c.Sys),
						fmt.Sprintf("valid proof %s restricted to %d query rounds, compiled with gnark's %s builder (range-check mode %s, wrapper %s): %s: %s", c.Instance, l.K, c.Sys, c.Mode, c.Wrapper, stage, firstLine(err)), c)
				}
				resp.Sample(map[string]any{"instance": c.Instance, "k": l.K, "mode": c.Mode, "wrapper": c.Wrapper, "sys": c.Sys, "stage_failed": stage})
				continue
			}
			if c.Wrapper == "fixed" {
				pis := pubInputs(l)
				if len(pis) != 16 {
					want = "refuse" // the wrapper is defined for 16 public inputs only: expected 16 public inputs, got n
					pis = append(pis, make([]*big.Int, 16)...)
					for i := range pis {
						if pis[i] == nil {
							pis[i] = big.NewInt(0)
						}
					}
				}
				err = hc.RunFixed(cfg, l, l, hc.PackPublic(pis[:16]))
			} else {
				err = hc.RunVerifier(cfg, l, l)
			}
			out := hc.Outcome(err)
			resp.Count(fmt.Sprintf("accept/%s/%d/%s/%s", c.Instance, l.K, c.Mode, c.Wrapper), false)
			ok := out == want || (want == "refuse" && out != "accept")
			if !ok {
				resp.Violate(fmt.Sprintf("c02/%s-instead-of-%s mode=%s wrapper=%s", out, want, c.Mode, c.Wrapper),
					fmt.Sprintf("valid proof %s restricted to %d query rounds, range-check mode %s, wrapper %s: %s (%s)", c.Instance, l.K, c.Mode, c.Wrapper, out, firstLine(err)), c)
			}
			resp.Sample(map[string]any{"instance": c.Instance, "k": l.K, "mode": c.Mode, "wrapper": c.Wrapper, "outcome": out,
				"range_checks": cfg.Counters["nativecheck"] + cfg.Counters["nbitscheck"] + cfg.Counters["hint:DecomposeHint"]})
		}
		return nil
	case "c03":
		return c03Run(req, resp)
	case "c04":
		return c04Run(req, resp)
	case "two":
		return twoProofs(req, resp)
	case "noncanon":
		return noncanonRun(req, resp)
	case "canonset":
		return canonSet(req, resp)
	}
	return fmt.Errorf("unknown part %q", req.Part)
}

// ---- C03: the on-chain public values bind exactly the plonky2 public inputs ---------------------------------

type c03Case struct {
	Kind  string   `json:"kind"`  // honest | limb+kp | limb+kp=V | pair+kp | limb+2^32 | pub+1 | pubswap | limbswap | rand
	Limbs []int    `json:"limbs"` // limb indices
	K     []string `json:"k"`     // multipliers
}

func c03Run(req wrapReq, resp *drv.Response) error {
	inst := data.ByName(req.Instance)
	rng := drv.Rng(int64(300 + req.Shard))
	for _, c := range req.C03 {
		l := data.Load(inst, req.K)
		pis := pubInputs(l)
		if len(pis) != 16 {
			return fmt.Errorf("instance %s has %d public inputs", req.Instance, len(pis))
		}
		limbs := append([]*big.Int{}, pis...)
		want := "reject"
		desc := c.Kind
		switch c.Kind {
		case "honest":
			want = "accept"
		case "limb+kp", "pair+kp", "limb+kp=V": // a second limb vector with the same residues modulo p; the public values are re-packed from it
			// ("=V": the public values stay the packing of the original limbs - "no second set of limbs for the same public values")
			for j, li := range c.Limbs {
				var k *big.Int
				if c.K[j] == "max" {
					k = new(big.Int).Div(new(big.Int).Sub(new(big.Int).Sub(bigR, one), limbs[li]), bigP)
				} else {
					k = bi(c.K[j])
				}
				limbs[li] = new(big.Int).Add(limbs[li], new(big.Int).Mul(k, bigP))
				desc += fmt.Sprintf(" limb[%d]+%s*p", li, k)
			}
		case "limb+2^32": // a limb of more than 32 bits below p: different residue, different inner statement
			li := c.Limbs[0]
			limbs[li] = new(big.Int).Add(limbs[li], two32)
		case "limbswap":
			a, b := c.Limbs[0], c.Limbs[1]
			if limbs[a].Cmp(limbs[b]) == 0 {
				resp.Count("c03/trivial", true)
				continue
			}
			limbs[a], limbs[b] = limbs[b], limbs[a]
		case "pub+1", "pubswap":
		case "rand": // random 16-limb vectors: packing must be injective (checked natively) - and a random statement must not verify
			for i := range limbs {
				limbs[i] = new(big.Int).SetUint64(uint64(rng.Uint32()))
			}
		}
		for i, lf := range l.PWPI.PublicInputs {
			_ = lf
			l.PWPI.PublicInputs[i].Limb = limbs[i]
		}
		pub := hc.PackPublic(limbs)
		if c.Kind == "limb+kp=V" {
			pub = hc.PackPublic(pis)
		}
		for j := range pub {
			pub[j].Mod(pub[j], bigR)
		}
		if c.Kind == "pub+1" {
			pub[c.Limbs[0]%4] = new(big.Int).Add(pub[c.Limbs[0]%4], one)
		}
		if c.Kind == "pubswap" {
			pub[0], pub[1] = pub[1], pub[0]
		}
		mode := req.Mode
		if mode == "" {
			mode = "native"
		}
		cfg := &engine.Config{Mode: modeOf(mode)}
		err := hc.RunFixed(cfg, l, l, pub)
		out := hc.Outcome(err)
		if out != "accept" && mode == "plain" && want == "reject" {
			// under the bit-decomposition mechanism the width checks are gnark's bit decompositions: also with the digits a prover would
			// supply for a value that does not fit (everything in digit 0) and permissive limb hints
			cfg = &engine.Config{Mode: engine.Plain, Permissive: true, PermissiveFlavor: 2}
			err = hc.RunFixed(cfg, l, l, pub)
			out = hc.Outcome(err)
		}
		if out != "accept" {
			out = "reject"
		}
		resp.Count(fmt.Sprintf("c03/%s/%s/%s/%v/%v", req.Instance, mode, c.Kind, c.Limbs, c.K), false)
		if mode != "native" {
			desc += " [range-check mechanism: " + mode + "]"
		}
		if out != want {
			over := ""
			for j := range pub {
				if pub[j].BitLen() > 128 {
					over = fmt.Sprintf("; public value %d has %d bits", j, pub[j].BitLen())
				}
			}
			resp.Violate(fmt.Sprintf("c03/%s-instead-of-%s kind=%s", out, want, c.Kind),
				fmt.Sprintf("%s k=%d: %s: %s%s (%s)", req.Instance, req.K, desc, out, over, firstLine(err)), map[string]any{"instance": req.Instance, "c03": c})
		}
		resp.Sample(map[string]any{"kind": c.Kind, "limbs": c.Limbs, "k": c.K, "outcome": out})
	}
	return nil
}

// ---- C04: the wrapper accepts proofs of one fixed inner circuit only --------------------------------------------

type c04Case struct {
	Kind    string `json:"kind"`    // entry | other | random
	Path    string `json:"path"`    // VD leaf path for kind=entry
	Op      string `json:"op"`      // +1 | random | zero
	Other   string `json:"other"`   // instance whose key is presented
	Wrapper string `json:"wrapper"` // vc | fixed
}

func c04Run(req wrapReq, resp *drv.Response) error {
	inst := data.ByName(req.Instance)
	rng := drv.Rng(int64(400 + req.Shard))
	tmpl := data.Load(inst, req.K) // the wrapper is built from this template: its key is the build-time key
	g, err := geometry(tmpl)
	if err != nil {
		return err
	}
	selCap := map[int]bool{}
	for _, c := range g.capIdx {
		selCap[c] = true
	}
	// permutations of the right key's own entries: the same multiset of commitments, different positions
	var cases []c04Case
	for _, c := range req.C04 {
		if c.Kind != "permute" {
			cases = append(cases, c)
			continue
		}
		for i := 0; i < 16; i++ {
			if !selCap[i] {
				continue
			}
			for _, j := range []int{(i + 1) % 16, (i + 4) % 16, (i + 15) % 16} {
				cases = append(cases, c04Case{Kind: "swap", Path: fmt.Sprintf("VD.ConstantSigmasCap[%d]", i), Op: fmt.Sprint(j), Wrapper: c.Wrapper})
			}
			if len(cases) > 12 {
				break
			}
		}
		cases = append(cases, c04Case{Kind: "rotate", Op: "1", Wrapper: c.Wrapper}, c04Case{Kind: "rotate", Op: "8", Wrapper: c.Wrapper})
	}
	for _, c := range cases {
		asg := data.Load(inst, req.K)
		asg.VD = detachVD(asg.VD)
		sel := "n/a"
		var aliasOf, aliasTo *big.Int
		switch c.Kind {
		case "swap", "rotate":
			var i, j, sh int
			fmt.Sscanf(c.Path, "VD.ConstantSigmasCap[%d]", &i)
			fmt.Sscanf(c.Op, "%d", &j)
			sh = j
			leaves := map[int]data.Leaf{}
			for _, lf := range data.Walk(&asg.VD) {
				var n int
				if _, e := fmt.Sscanf("VD."+lf.Path, "VD.ConstantSigmasCap[%d]", &n); e == nil {
					leaves[n] = lf
				}
			}
			if len(leaves) != 16 {
				return fmt.Errorf("expected 16 cap leaves, found %d", len(leaves))
			}
			vals := make([]*big.Int, 16)
			for n := 0; n < 16; n++ {
				vals[n] = new(big.Int).Set(leaves[n].Get())
			}
			if c.Kind == "swap" {
				leaves[i].Set(vals[j])
				leaves[j].Set(vals[i])
			} else {
				for n := 0; n < 16; n++ {
					leaves[n].Set(vals[(n+sh)%16])
				}
			}
			sel = "true"
		case "entry":
			found := false
			for _, lf := range data.Walk(&asg.VD) {
				if "VD."+lf.Path != c.Path {
					continue
				}
				found = true
				old := lf.Get()
				var nv *big.Int
				switch c.Op {
				case "+1":
					nv = new(big.Int).Mod(new(big.Int).Add(old, one), bigR)
				case "random":
					nv = drv.RandBelow(rng, bigR)
				case "zero":
					nv = big.NewInt(0)
				}
				lf.Set(nv)
				if strings.Contains(c.Path, "ConstantSigmasCap") {
					var i int
					fmt.Sscanf(c.Path, "VD.ConstantSigmasCap[%d]", &i)
					sel = fmt.Sprint(selCap[i])
				}
			}
			if !found {
				return fmt.Errorf("no verifier-data leaf %s", c.Path)
			}
		case "alias":
			// the digest D + p*2^224 (mod r): its 56-bit chunks differ from those of D only by p in the top chunk, which the transcript
			// reduces away - acceptable only if the chunks of a hash are left to the prover (then the run below supplies them)
			for _, lf := range data.Walk(&asg.VD) {
				if strings.HasPrefix(lf.Path, "CircuitDigest") {
					aliasOf = new(big.Int).Set(lf.Get())
					d2 := new(big.Int).Add(lf.Get(), new(big.Int).Lsh(bigP, 224))
					lf.Set(d2.Mod(d2, bigR))
					aliasTo = lf.Get()
				}
			}
			sel = "n/a"
		case "other":
			asg.VD = detachVD(data.Load(data.ByName(c.Other), req.K).VD)
		case "random":
			for _, lf := range data.Walk(&asg.VD) {
				lf.Set(drv.RandBelow(rng, bigR))
			}
		}
		// the alternative key reaches the circuit the way a proving request delivers it: as a JSON document through the repository's
		// own readers (cmd/web-api.go: ReadVerifierOnlyCircuitDataFromRequest + DeserializeVerifierOnlyCircuitData), in a process that
		// has already read the build-time key
		{
			doc := map[string]any{}
			caps := make([]string, 16)
			for _, lf := range data.Walk(&asg.VD) {
				var n int
				if k, _ := fmt.Sscanf(lf.Path, "ConstantSigmasCap[%d]", &n); k == 1 {
					caps[n] = lf.Get().String()
				} else {
					doc["circuit_digest"] = lf.Get().String()
				}
			}
			doc["constants_sigmas_cap"] = caps
			b, err := json.Marshal(doc)
			if err != nil {
				return err
			}
			asg.VD = variables.DeserializeVerifierOnlyCircuitData(types.ReadVerifierOnlyCircuitDataFromRequest(b))
		}
		cfg := &engine.Config{Mode: engine.Native}
		if aliasOf != nil {
			cfg.Strategy = func(hcall *engine.HintCall) []*big.Int {
				if engine.KnownHint(hcall.Name) || len(hcall.Honest) != 5 || len(hcall.Inputs) == 0 || new(big.Int).Mod(hcall.Inputs[len(hcall.Inputs)-1], bigR).Cmp(aliasTo) != 0 {
					return nil
				}
				out := ref.BnToVec(aliasOf)
				out[4] = new(big.Int).Add(out[4], bigP)
				return out
			}
		}
		var err error
		if c.Wrapper == "fixed" {
			err = hc.RunFixed(cfg, tmpl, asg, hc.PackPublic(pubInputs(asg)))
		} else {
			err = hc.RunVerifier(cfg, tmpl, asg)
		}
		out := hc.Outcome(err)
		resp.Count(fmt.Sprintf("c04/%s/%d/%s/%s/%s/%s/%s", req.Instance, req.K, c.Kind, c.Path, c.Op, c.Other, c.Wrapper), false)
		if out == "accept" {
			cls := c.Kind
			if c.Kind == "entry" {
				cls = classOf(c.Path)
			}
			if c.Kind == "swap" || c.Kind == "rotate" {
				cls = "permuted-cap/" + c.Kind
			}
			resp.Violate(fmt.Sprintf("c04/key/accept cls=%s selected=%s", cls, sel),
				fmt.Sprintf("%s k=%d wrapper=%s: a wrapper built for this circuit accepts the proof together with a different verifier key (%s %s %s %s)", req.Instance, req.K, c.Wrapper, c.Kind, c.Path, c.Op, c.Other),
				map[string]any{"instance": req.Instance, "k": req.K, "c04": c})
		}
		resp.Sample(map[string]any{"kind": c.Kind, "path": c.Path, "op": c.Op, "selected_by_a_query": sel, "outcome": out})
	}
	return nil
}

// twoProofs: one verifier chip verifies two proofs of the same inner circuit; the first is honest, the second carries one changed leaf
// (value + p for req.Ks = ["noncanon"], value + 1 otherwise).  Honest pair: accept; any changed second proof: not accepted.
func twoProofs(req wrapReq, resp *drv.Response) error {
	rng := drv.Rng(int64(1700 + req.Shard))
	pair := strings.Split(req.Instance, "+")
	if len(pair) != 2 {
		return fmt.Errorf("instance must be a+b")
	}
	a := data.Load(data.ByName(pair[0]), req.K)
	noncanon := len(req.Ks) > 0 && req.Ks[0] == "noncanon"
	run := func(b *data.Loaded) (string, error) {
		err := hc.RunVerifierTwo(&engine.Config{Mode: engine.Native, Permissive: true}, a, b)
		return hc.Outcome(err), err
	}
	out, err := run(data.Load(data.ByName(pair[1]), req.K))
	resp.Count("two/honest/"+req.Instance, false)
	if out != "accept" {
		resp.Violate("c02/two-proofs/honest-rejected", fmt.Sprintf("%s: two valid proofs verified with one chip: %s (%s)", req.Instance, out, firstLine(err)), nil)
		return nil
	}
	if len(req.Ks) > 0 && req.Ks[0] == "key" {
		// the second proof is presented with another verifier key: the digest changed, an entry selected by its queries changed
		bb := data.Load(data.ByName(pair[1]), req.K)
		g, err := geometry(bb)
		if err != nil {
			return err
		}
		for _, what := range []string{"digest+1", "digest=0", "selected-entry+1"} {
			b := data.Load(data.ByName(pair[1]), req.K)
			b.VD = detachVD(b.VD)
			for _, lf := range data.Walk(&b.VD) {
				var n int
				isCap, _ := fmt.Sscanf(lf.Path, "ConstantSigmasCap[%d]", &n)
				switch {
				case what == "digest+1" && isCap == 0:
					lf.Set(new(big.Int).Mod(new(big.Int).Add(lf.Get(), one), bigR))
				case what == "digest=0" && isCap == 0:
					lf.Set(big.NewInt(0))
				case what == "selected-entry+1" && isCap == 1 && n == g.capIdx[0]:
					lf.Set(new(big.Int).Mod(new(big.Int).Add(lf.Get(), one), bigR))
				}
			}
			out, _ := run(b)
			resp.Count(fmt.Sprintf("two/key/%s/%s", req.Instance, what), false)
			if out == "accept" {
				resp.Violate("c04/second-proof/key-accept what="+strings.Split(what, "+")[0],
					fmt.Sprintf("%s k=%d: one verifier chip verifies the first proof and then the second presented with a different verifier key (%s): accepted", req.Instance, req.K, what),
					map[string]any{"instance": req.Instance, "what": what})
			}
			resp.Sample(map[string]any{"pair": req.Instance, "second_proof_key": what, "outcome": out})
		}
		return nil
	}
	// one leaf per class first, then seeded ones
	b0 := data.Load(data.ByName(pair[1]), req.K)
	var paths []string
	seen := map[string]bool{}
	var rest []string
	for _, lf := range walkPrefixed("PWPI.", &b0.PWPI) {
		if strings.HasPrefix(lf.Path, "PWPI.PublicInputs") && noncanon {
			continue
		}
		if noncanon && !lf.GL {
			continue
		}
		cls := classOf(lf.Path)
		if !seen[cls] {
			seen[cls] = true
			paths = append(paths, lf.Path)
		} else {
			rest = append(rest, lf.Path)
		}
	}
	for i := 0; i < req.Stride && len(rest) > 0; i++ {
		paths = append(paths, rest[rng.Intn(len(rest))])
	}
	for _, path := range paths {
		b := data.Load(data.ByName(pair[1]), req.K)
		for _, lf := range walkPrefixed("PWPI.", &b.PWPI) {
			if lf.Path != path {
				continue
			}
			old := lf.Get()
			var nv *big.Int
			if noncanon {
				nv = new(big.Int).Add(old, bigP)
			} else if lf.GL {
				nv = new(big.Int).Mod(new(big.Int).Add(old, one), bigP)
			} else {
				nv = new(big.Int).Mod(new(big.Int).Add(old, one), bigR)
			}
			lf.Set(nv)
		}
		out, _ := run(b)
		resp.Count(fmt.Sprintf("two/%s/%s/%v", req.Instance, path, noncanon), false)
		if out == "accept" {
			what := "changed by +1"
			if noncanon {
				what = "given as value + p"
			}
			resp.Violate(fmt.Sprintf("%s/second-proof/accept cls=%s", map[bool]string{true: "c17", false: "c01"}[noncanon], classOf(path)),
				fmt.Sprintf("%s k=%d: one verifier chip verifies the first proof and then the second with %s %s: accepted (alone, the changed proof is rejected)", req.Instance, req.K, path, what),
				map[string]any{"instance": req.Instance, "path": path, "noncanon": noncanon})
		}
		if len(resp.Samples) < 3 {
			resp.Sample(map[string]any{"pair": req.Instance, "changed_leaf_of_second_proof": path, "noncanonical": noncanon, "outcome": out})
		}
	}
	return nil
}

// detachVD copies a key into storage of its own, so that editing it can never write through a slice that a reader of the
// repository may have kept (a reader that remembers keys must not see the harness's edits as its own).
func detachVD(vd variables.VerifierOnlyCircuitData) variables.VerifierOnlyCircuitData {
	out := vd
	out.ConstantSigmasCap = make(variables.FriMerkleCap, len(vd.ConstantSigmasCap))
	for i, x := range vd.ConstantSigmasCap {
		out.ConstantSigmasCap[i] = new(big.Int).Set(engine.ToBig(x))
	}
	out.CircuitDigest = new(big.Int).Set(engine.ToBig(vd.CircuitDigest))
	return out
}

// ---- C17: non-canonical encodings ----------------------------------------------------------------------------

func noncanonRun(req wrapReq, resp *drv.Response) error {
	inst := data.ByName(req.Instance)
	l := data.Load(inst, req.K)
	if req.DocPow {
		w := engine.ToBig(l.PWPI.Proof.OpeningProof.PowWitness.Limb)
		nv := new(big.Int).Add(w, bigP)
		if nv.BitLen() > 64 {
			resp.Count("noncanon-doc/"+req.Instance, true) // the second encoding of this witness is not a 64-bit word: no document can carry it
			return nil
		}
		ld, err := data.LoadWithPowText(inst, req.K, nv.String(), drv.Tmp())
		resp.Count("noncanon-doc/"+req.Instance, false)
		if err != nil {
			return nil // refused at reading: not accepted
		}
		err = hc.RunVerifier(&engine.Config{Mode: engine.Native, Permissive: true}, ld, ld)
		if hc.Outcome(err) == "accept" {
			resp.Violate("c17/noncanon/accept cls=PWPI.Proof.OpeningProof.PowWitness via=document",
				fmt.Sprintf("%s k=%d: the proof document with pow_witness = value + p (%v) is accepted: the proof has a second encoding", req.Instance, req.K, nv), map[string]any{"instance": req.Instance, "k": req.K, "path": "PWPI.Proof.OpeningProof.PowWitness", "ks": "1"})
		}
		return nil
	}
	if req.PowBits != nil {
		// a description with a lower grinding difficulty: the proof stays valid (its response has more leading zeros than needed), and
		// nothing about the encoding of the proof may depend on that field
		l.Common.Config.FriConfig.ProofOfWorkBits = uint64(*req.PowBits)
		l.Common.FriParams.Config.ProofOfWorkBits = uint64(*req.PowBits)
		if err := hc.RunVerifier(&engine.Config{Mode: engine.Native}, l, l); err != nil {
			return fmt.Errorf("the valid proof is rejected under proof_of_work_bits = %d: %s", *req.PowBits, firstLine(err))
		}
	}
	leaves := walkPrefixed("PWPI.", &l.PWPI)
	want := map[string]bool{}
	for _, c := range req.Classes {
		want[c] = true
	}
	only := map[string]bool{}
	for _, p := range req.Paths {
		only[p] = true
	}
	n := 0
	for li, lf := range leaves {
		if !lf.GL || strings.HasPrefix(lf.Path, "PWPI.PublicInputs") {
			continue
		}
		n++
		if len(only) > 0 {
			if !only[lf.Path] {
				continue
			}
		} else {
			if req.Stride > 1 && (n+req.Shard)%req.Stride != 0 {
				continue
			}
			if req.NShards > 0 && li%req.NShards != req.Shard {
				continue
			}
		}
		old := lf.Get()
		for _, ks := range req.Ks {
			var k *big.Int
			if ks == "max" {
				k = new(big.Int).Div(new(big.Int).Sub(new(big.Int).Sub(bigR, one), old), bigP)
			} else {
				k = bi(ks)
			}
			nv := new(big.Int).Add(old, new(big.Int).Mul(k, bigP))
			if nv.Cmp(bigR) >= 0 {
				continue
			}
			lf.Set(nv)
			// Permissive: where gnark's honest hint function refuses an operand >= p (a property of the test engine's solver, not a
			// constraint), a generic hint supplies the quotient / remainder a prover could supply, so that only constraints decide
			md := engine.Native
			if req.Mode != "" {
				md = modeOf(req.Mode)
			}
			cfg := &engine.Config{Mode: md, RecordEvts: locEvents, Permissive: true}
			err := hc.RunVerifier(cfg, l, l)
			out := hc.Outcome(err)
			if out != "accept" && len(only) > 0 && md == engine.Native {
				// a targeted leaf (one the canonical-set trace does not show as checked): also with the other limb pair a prover
				// may supply where the honest split refuses, (0, x)
				cfg = &engine.Config{Mode: engine.Native, RecordEvts: locEvents, Permissive: true, PermissiveFlavor: 1}
				err = hc.RunVerifier(cfg, l, l)
				out = hc.Outcome(err)
			}
			if out != "accept" && md == engine.Plain {
				// under the bit-decomposition mechanism the width checks are gnark's bit decompositions: also with the digits a prover
				// would supply for a value that does not fit (everything in digit 0)
				cfg = &engine.Config{Mode: engine.Plain, RecordEvts: locEvents, Permissive: true, PermissiveFlavor: 2}
				err = hc.RunVerifier(cfg, l, l)
				out = hc.Outcome(err)
			}
			lf.Set(old)
			resp.Count(fmt.Sprintf("noncanon/%s/%s/%s/%s", req.Instance, req.Mode, lf.Path, ks), false)
			if out == "accept" {
				resp.Violate(fmt.Sprintf("c17/noncanon/accept cls=%s", classOf(lf.Path)),
					fmt.Sprintf("%s k=%d%s: %s given as value + %s*p (%v) is accepted: the proof has a second encoding", req.Instance, l.K, map[bool]string{true: " [range-check mechanism: " + req.Mode + "]", false: ""}[req.Mode != "" && req.Mode != "native"], lf.Path, ks, nv),
					map[string]any{"instance": req.Instance, "k": l.K, "path": lf.Path, "ks": ks})
			} else if loc := failureLocation(cfg); loc != "sweep" && md == engine.Native {
				// (under the commit mechanism the sweep's checks are delivered by the deferred flush, after everything else)
				resp.Inc("rejected_after_sweep", 1)
			}
			if len(resp.Samples) < 3 {
				resp.Sample(map[string]any{"leaf": lf.Path, "k": ks, "outcome": out, "failed_at": failureLocation(cfg)})
			}
		}
	}
	resp.Note("gl_leaves", n)
	return nil
}

// canonSet runs the honest verifier with leaf provenance and interval tracking and reports the set of proof leaves
// that received a complete canonical check: limb split recorded at a RangeCheck site and both 32-bit deliveries seen.
func canonSet(req wrapReq, resp *drv.Response) error {
	l := data.Load(data.ByName(req.Instance), req.K)
	cfg := &engine.Config{Mode: engine.Native, TrackBounds: true}
	cfg.Leaves = data.LeafMap([]string{"PWPI", "VD"}, &l.PWPI, &l.VD)
	if err := hc.RunVerifier(cfg, l, l); err != nil {
		return fmt.Errorf("honest run rejected: %s", firstLine(err))
	}
	var recs []map[string]any
	pm1 := new(big.Int).Sub(bigP, one)
	for _, lf := range walkPrefixed("PWPI.", &l.PWPI) {
		bd := cfg.CanonBound(lf.Get())
		if bd != nil && bd.Cmp(pm1) <= 0 {
			recs = append(recs, map[string]any{"leaf": lf.Path})
		}
	}
	resp.Count("canonset/"+req.Instance, false)
	resp.Count("canonset2/"+req.Instance, false)
	resp.Note("canonical_leaves", len(recs))
	var all []string
	for _, lf := range walkPrefixed("PWPI.", &l.PWPI) {
		if lf.GL && !strings.HasPrefix(lf.Path, "PWPI.PublicInputs") {
			all = append(all, lf.Path)
		}
	}
	resp.Note("gl_proof_leaves", all)
	return writeNdjson(req.Ks[0], recs)
}
