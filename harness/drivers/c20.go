package drivers

import (
	"encoding/json"
	"fmt"
	"math/big"
	"reflect"
	"strings"

	"github.com/wormhole-foundation/example-near-light-client/fri"
	gl "github.com/wormhole-foundation/example-near-light-client/goldilocks"
	"github.com/wormhole-foundation/example-near-light-client/types"
	"github.com/wormhole-foundation/example-near-light-client/variables"

	"verifharness/data"
	"verifharness/drv"
	"verifharness/engine"
	"verifharness/hc"
)

type shapeCase struct {
	List     string `json:"list"`
	Mutation string `json:"mutation"`
	Expect   string `json:"expect"`
	Name     string `json:"name"`    // config change name
	Outcome  string `json:"outcome"` // expected outcome of a config change
	Copy     string `json:"copy"`    // config change: both | config | params (which stored copy of the FRI configuration changes)
}

type c20Req struct {
	Instance string      `json:"instance"`
	K        int         `json:"k"`
	Wrapper  string      `json:"wrapper"`
	Lists    []shapeCase `json:"lists"`
	Config   []shapeCase `json:"config"`
	Shard    int         `json:"shard"`
}

func init() { drv.Register("c20", c20) }

// findSlices returns the addressable slice values below root whose path (indices replaced by []) equals pattern.
func findSlices(root any, prefix, pattern string) []reflect.Value {
	var out []reflect.Value
	var rec func(v reflect.Value, path string)
	rec = func(v reflect.Value, path string) {
		switch v.Kind() {
		case reflect.Ptr:
			if !v.IsNil() {
				rec(v.Elem(), path)
			}
		case reflect.Struct:
			for i := 0; i < v.NumField(); i++ {
				f := v.Type().Field(i)
				if !f.IsExported() {
					continue
				}
				if tag, ok := f.Tag.Lookup("gnark"); ok && strings.HasPrefix(tag, "-") {
					continue
				}
				p := path + "." + f.Name
				if path == "" {
					p = f.Name
				}
				rec(v.Field(i), p)
			}
		case reflect.Slice:
			if path == pattern {
				out = append(out, v)
			}
			for i := 0; i < v.Len(); i++ {
				rec(v.Index(i), path+"[]")
			}
		case reflect.Array:
			for i := 0; i < v.Len(); i++ {
				rec(v.Index(i), path+"[]")
			}
		}
	}
	rec(reflect.ValueOf(root), prefix)
	return out
}

func zeroLike(elem reflect.Value) reflect.Value {
	// a fresh zero-valued element of the same shape (leaves become *big.Int 0)
	c := reflect.New(elem.Type()).Elem()
	deepCopy(c, elem)
	for _, lf := range data.Walk(c.Addr().Interface()) {
		lf.Set(big.NewInt(0))
	}
	return c
}

func deepCopy(dst, src reflect.Value) {
	switch src.Kind() {
	case reflect.Slice:
		if src.IsNil() {
			return
		}
		dst.Set(reflect.MakeSlice(src.Type(), src.Len(), src.Len()))
		for i := 0; i < src.Len(); i++ {
			deepCopy(dst.Index(i), src.Index(i))
		}
	case reflect.Array:
		for i := 0; i < src.Len(); i++ {
			deepCopy(dst.Index(i), src.Index(i))
		}
	case reflect.Struct:
		for i := 0; i < src.NumField(); i++ {
			if dst.Field(i).CanSet() {
				deepCopy(dst.Field(i), src.Field(i))
			}
		}
	case reflect.Interface:
		if !src.IsNil() {
			if b, ok := src.Interface().(*big.Int); ok {
				dst.Set(reflect.ValueOf(new(big.Int).Set(b)))
			} else {
				dst.Set(src)
			}
		}
	default:
		dst.Set(src)
	}
}

// fresh reallocates the slice so that its capacity equals its length (a re-sliced list would still expose the
// dropped element to expressions like xs[a:b] with b beyond the length).
func fresh(s reflect.Value) {
	c := reflect.MakeSlice(s.Type(), s.Len(), s.Len())
	reflect.Copy(c, s)
	s.Set(c)
}

func mutate(s reflect.Value, m string) bool {
	defer fresh(s)
	n := s.Len()
	switch m {
	case "drop_first":
		if n == 0 {
			return false
		}
		s.Set(s.Slice(1, n))
	case "drop_last":
		if n == 0 {
			return false
		}
		s.Set(s.Slice(0, n-1))
	case "dup_last":
		if n == 0 {
			return false
		}
		c := reflect.New(s.Type().Elem()).Elem()
		deepCopy(c, s.Index(n-1))
		s.Set(reflect.Append(s, c))
	case "append_zero":
		if n == 0 {
			return false
		}
		s.Set(reflect.Append(s, zeroLike(s.Index(n-1))))
	case "empty":
		if n == 0 {
			return false
		}
		s.Set(s.Slice(0, 0))
	}
	return true
}

func runShape(l *data.Loaded, wrapper string) (out string, msg string) {
	defer func() {
		if r := recover(); r != nil {
			out, msg = "refuse", fmt.Sprint(r)
		}
	}()
	cfg := &engine.Config{Mode: engine.Native}
	var err error
	if wrapper == "fixed" {
		pis := pubInputs(l)
		for len(pis) < 16 {
			pis = append(pis, big.NewInt(0))
		}
		err = hc.RunFixed(cfg, l, l, hc.PackPublic(pis[:16]))
	} else {
		err = hc.RunVerifier(cfg, l, l)
	}
	return hc.Outcome(err), firstLine(err)
}

func c20(raw json.RawMessage, resp *drv.Response) error {
	var req c20Req
	if err := json.Unmarshal(raw, &req); err != nil {
		return err
	}
	inst := data.ByName(req.Instance)
	rng := drv.Rng(int64(2000 + req.Shard))
	c20Schedules(resp)
	// the process has verified the unaltered proof before it meets the altered ones (what a long-running prover service has done):
	// nothing remembered from that run may stand in for the shape checks of a later proof
	if out, msg := runShape(data.Load(inst, req.K), req.Wrapper); out != "accept" && !(req.Wrapper == "fixed" && out == "refuse") {
		return fmt.Errorf("honest run rejected: %s", msg)
	}
	for _, c := range req.Lists {
		l := data.Load(inst, req.K)
		pattern := c.List
		var slices []reflect.Value
		switch {
		case pattern == "PublicInputs":
			slices = findSlices(&l.PWPI, "", "PublicInputs")
		case strings.HasPrefix(pattern, "VD."):
			slices = findSlices(&l.VD, "VD", pattern)
		case strings.HasPrefix(pattern, "Proof."):
			slices = findSlices(&l.PWPI, "", pattern)
		default:
			slices = findSlices(&l.PWPI, "", "Proof.OpeningProof."+pattern)
		}
		if len(slices) == 0 {
			return fmt.Errorf("list kind %s not found in the assignment", c.List)
		}
		// occurrences (round / tree / step) to mutate: all of them when there are few, else the first, the last and a seeded one
		occ := []int{}
		if len(slices) <= 4 {
			for i := range slices {
				occ = append(occ, i)
			}
		} else {
			occ = []int{0, len(slices) - 1, 1 + rng.Intn(len(slices)-2)}
		}
		for oi, which := range occ {
			if oi > 0 { // a fresh copy of the proof for every occurrence
				l = data.Load(inst, req.K)
				switch {
				case pattern == "PublicInputs":
					slices = findSlices(&l.PWPI, "", "PublicInputs")
				case strings.HasPrefix(pattern, "VD."):
					slices = findSlices(&l.VD, "VD", pattern)
				case strings.HasPrefix(pattern, "Proof."):
					slices = findSlices(&l.PWPI, "", pattern)
				default:
					slices = findSlices(&l.PWPI, "", "Proof.OpeningProof."+pattern)
				}
			}
			if !mutate(slices[which], c.Mutation) {
				resp.Count("shape/trivial/"+c.List+c.Mutation, true)
				continue
			}
			out, msg := runShape(l, req.Wrapper)
			resp.Count(fmt.Sprintf("shape/%s/%d/%s/%s/%d/%s", req.Instance, req.K, c.List, c.Mutation, which, req.Wrapper), false)
			if out == "accept" {
				resp.Violate(fmt.Sprintf("c20/shape/accept list=%s mutation=%s", c.List, c.Mutation),
					fmt.Sprintf("%s k=%d wrapper=%s: the proof with list %s (occurrence %d of %d) mutated by %s is accepted", req.Instance, req.K, req.Wrapper, c.List, which, len(slices), c.Mutation),
					map[string]any{"instance": req.Instance, "k": req.K, "wrapper": req.Wrapper, "case": c})
			} else if out != c.Expect && c.Expect != "refuse_or_reject" {
				resp.Inc("class_mismatch", 1)
				if _, has := resp.Info["class_mismatch_example"]; !has {
					resp.Note("class_mismatch_example", fmt.Sprintf("%s %s: model %s, code %s (%s)", c.List, c.Mutation, c.Expect, out, msg))
				}
			}
			if len(resp.Samples) < 4 {
				resp.Sample(map[string]any{"list": c.List, "mutation": c.Mutation, "occurrence": which, "outcome": out, "model": c.Expect, "msg": msg})
			}
		}
	}
	for _, c := range req.Config {
		for _, delta := range []int{1, -1} {
			l := data.Load(inst, req.K)
			cd := &l.Common
			add := func(p *uint64) bool {
				if delta < 0 && *p == 0 {
					return false
				}
				*p = uint64(int64(*p) + int64(delta))
				return true
			}
			// the description stores the FRI configuration twice (config.fri_config and fri_params.config): c.Copy says which copy changes
			both := func(a, b *uint64) bool {
				switch c.Copy {
				case "config":
					return add(a)
				case "params":
					return add(b)
				}
				return add(a) && add(b)
			}
			ok := true
			switch c.Name {
			case "num_query_rounds":
				ok = both(&cd.Config.FriConfig.NumQueryRounds, &cd.FriParams.Config.NumQueryRounds)
			case "cap_height":
				ok = both(&cd.Config.FriConfig.CapHeight, &cd.FriParams.Config.CapHeight)
			case "reduction_arity_bits":
				if delta > 0 {
					cd.FriParams.ReductionArityBits = append(append([]uint64{}, cd.FriParams.ReductionArityBits...), 4)
				} else {
					cd.FriParams.ReductionArityBits = cd.FriParams.ReductionArityBits[:len(cd.FriParams.ReductionArityBits)-1]
				}
			case "fri_degree_bits":
				ok = add(&cd.FriParams.DegreeBits)
			case "degree_bits":
				ok = add(&cd.DegreeBits)
			case "rate_bits":
				ok = both(&cd.Config.FriConfig.RateBits, &cd.FriParams.Config.RateBits)
			default:
				return fmt.Errorf("unknown config change %s", c.Name)
			}
			if !ok {
				continue
			}
			out, msg := runShape(l, req.Wrapper)
			resp.Count(fmt.Sprintf("config/%s/%d/%s/%s/%+d/%s", req.Instance, req.K, c.Name, c.Copy, delta, req.Wrapper), false)
			if out == "accept" {
				resp.Violate(fmt.Sprintf("c20/config/accept name=%s copy=%s", c.Name, c.Copy),
					fmt.Sprintf("%s k=%d: the unchanged proof is accepted against a description with %s %+d", req.Instance, req.K, c.Name, delta), map[string]any{"instance": req.Instance, "config": c, "delta": delta})
			} else if out != c.Outcome {
				resp.Inc("class_mismatch", 1)
				if _, has := resp.Info["class_mismatch_example"]; !has {
					resp.Note("class_mismatch_example", fmt.Sprintf("config %s %+d: model %s, code %s (%s)", c.Name, delta, c.Outcome, out, msg))
				}
			}
			resp.Sample(map[string]any{"config": c.Name, "copy": c.Copy, "delta": delta, "outcome": out, "model": c.Outcome, "msg": msg})
			resp.Results = append(resp.Results, map[string]any{"config": c.Name, "copy": c.Copy, "delta": delta, "outcome": out, "msg": msg})
		}
	}
	return nil
}


// c20Schedules: descriptions whose FRI reduction schedule is not constant (the repository's is [4,4]).  Shape.tla prescribes for fold step i a
// Merkle path of lde_bits - (a_0 + .. + a_i) - cap_height siblings; the code's shape validation must accept exactly that length.
func c20Schedules(resp *drv.Response) {
	for _, sched := range [][]uint64{{4, 3}, {1, 4, 2}, {3, 1}, {2, 2, 2}, {5}, {}} {
		params := &types.FriParams{DegreeBits: 9, ReductionArityBits: sched}
		params.Config.RateBits, params.Config.CapHeight = 3, 1
		lde, sum := 12, 0
		want := []int{}
		for _, a := range sched {
			sum += int(a)
			want = append(want, lde-sum-1)
		}
		mk := func(lens []int) *variables.FriProof {
			steps := []variables.FriQueryStep{}
			for i, a := range sched {
				steps = append(steps, variables.NewFriQueryStep(a, uint64(lens[i])))
			}
			ev := variables.NewFriEvalProof(make([]gl.Variable, 3), variables.NewFriMerkleProof(uint64(lde-1)))
			qr := variables.NewFriQueryRound(steps, variables.NewFriInitialTreeProof([]variables.FriEvalProof{ev}))
			return &variables.FriProof{QueryRoundProofs: []variables.FriQueryRound{qr}, FinalPoly: variables.NewPolynomialCoeffs(uint64(params.FinalPolyLen()))}
		}
		inst := fri.InstanceInfo{Oracles: []fri.OracleInfo{{NumPolys: 3}}}
		try := func(lens []int) (ok bool) {
			defer func() {
				if recover() != nil {
					ok = false
				}
			}()
			fri.VerifValidateFriProofShape(mk(lens), inst, params)
			return true
		}
		resp.Count(fmt.Sprintf("schedule/%v/prescribed", sched), false)
		if !try(want) {
			resp.Violate("c20/schedule/refused-prescribed", fmt.Sprintf("reduction schedule %v: step paths of the prescribed lengths %v are refused by the shape validation", sched, want), nil)
		}
		for i := range want {
			for _, d := range []int{-1, 1, 2} {
				l := append([]int{}, want...)
				l[i] += d
				if l[i] < 0 {
					continue
				}
				resp.Count(fmt.Sprintf("schedule/%v/%d/%d", sched, i, d), true)
				if try(l) {
					resp.Violate("c20/schedule/accepted", fmt.Sprintf("reduction schedule %v: step %d with a path of %d siblings instead of %d passes the shape validation", sched, i, l[i], want[i]), nil)
				}
			}
		}
	}
}
