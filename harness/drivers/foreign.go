package drivers

// foreign: prover-supplied values that GlGadgets.tla has no game for.  One honest run of the whole verifier records every static hint
// site; a site is "foreign" when the hint is not one of the chip's four (gnark's bit decomposition used directly, a hint added by a
// change) or when SplitLimbsHint is used outside the canonical range check.  At every foreign site (a few sampled occurrences) the
// generic alternatives of engine.ForeignAlternatives are substituted; an alternative that is not the honest output and satisfies the
// constraints (locally for the recognised shapes, over the whole run otherwise) means the value is left to the prover.
// On the unchanged tree the verifier has no foreign site under the native range checker, so this part is a guard: it costs one
// honest run and reports nothing.

import (
	"encoding/json"
	"fmt"
	"github.com/consensys/gnark/frontend"
	"math/big"
	"sort"
	"strings"
	"time"

	"verifharness/data"
	"verifharness/drv"
	"verifharness/engine"
	"verifharness/hc"
)

type foreignReq struct {
	Prop     string   `json:"prop"`     // property id used in the signature (c01, c12, c13 ...)
	Instance string   `json:"instance"` // proof instance
	K        int      `json:"k"`
	Mode     string   `json:"mode"`   // range-check mechanism of the builder (native | plain | commit)
	Filter   []string `json:"filter"` // only sites whose call chain contains one of these substrings (empty = all)
	Shard    int      `json:"shard"`
}

func init() { drv.Register("foreign", foreign) }

func foreign(raw json.RawMessage, resp *drv.Response) error {
	var req foreignReq
	if err := json.Unmarshal(raw, &req); err != nil {
		return err
	}
	if req.Mode == "" {
		req.Mode = "native"
	}
	inst := data.ByName(req.Instance)
	l := data.Load(inst, req.K)
	cfg := &engine.Config{Mode: modeOf(req.Mode), Sites: map[string]*engine.SiteStat{}, SampleRng: drv.Rng(int64(7 + req.Shard))}
	if err := hc.RunVerifier(cfg, l, l); err != nil {
		return fmt.Errorf("honest run rejected: %s", firstLine(err))
	}
	var sites []*engine.SiteStat
	names := map[string]int{}
	for _, st := range cfg.Sites {
		names[st.Name] += st.Count
		isForeign := !engine.KnownHint(st.Name) || (st.Name == "SplitLimbsHint" && !strings.Contains(st.Site, "goldilocks.(*Chip).RangeCheck"))
		// gnark's own range-check / bit-decomposition hints under the chip's range-check mechanisms are C06's subject
		if strings.Contains(st.Site, "goldilocks.(*Chip).rangeCheckerCheck") || strings.Contains(st.Site, "goldilocks.(*Chip).checkCollected") || st.Site == "" {
			isForeign = false
		}
		if !isForeign {
			continue
		}
		if len(req.Filter) > 0 {
			hit := false
			for _, f := range req.Filter {
				if strings.Contains(st.Site, f) {
					hit = true
				}
			}
			if !hit {
				continue
			}
		}
		sites = append(sites, st)
	}
	sort.Slice(sites, func(i, j int) bool { return sites[i].Site < sites[j].Site })
	resp.Count(fmt.Sprintf("foreign/honest/%s/%d/%s", req.Instance, req.K, req.Mode), false)
	resp.Note("hint_names", names)
	resp.Note("foreign_sites", len(sites))
	// a hint used all over the verifier (e.g. a re-implemented reduction) has hundreds of static sites: a spread of at most twelve of them
	// and a time budget keep the guard a guard (the first accepted alternative is what matters)
	if len(sites) > 12 {
		var pick []*engine.SiteStat
		for i := 0; i < 12; i++ {
			pick = append(pick, sites[i*len(sites)/12])
		}
		resp.Note("foreign_sites_probed", len(pick))
		sites = pick
	}
	t0 := time.Now()
	for _, st := range sites {
		if time.Since(t0) > 6*time.Minute || len(resp.Violations) >= 3 {
			resp.Note("foreign_truncated", true)
			break
		}
		// every sampled occurrence until each family of moves has been applied at three of them (a move may apply to a fraction of
		// the inputs only)
		applied := map[string]int{}
		plusR := true // (whether this shape has a move that applies to a fraction of the inputs only; known after the first occurrence)
		for oi, oc := range st.Sample {
			if oi >= 3 && !plusR {
				break
			}
			if oi == 0 {
				plusR = false
			}
			for ai := 0; ; ai++ {
				var chosen *engine.Alternative
				nalts := 0
				c2 := &engine.Config{Mode: modeOf(req.Mode), Permissive: true, TargetGlobal: oc[1]}
				c2.Strategy = func(c *engine.HintCall) []*big.Int {
					alts := engine.ForeignAlternatives(c)
					nalts = len(alts)
					for _, x := range alts {
						if strings.Contains(x.Family, "plus-r") {
							plusR = true
						}
					}
					if ai >= len(alts) {
						panic(engine.LocalPass)
					}
					a := alts[ai]
					if applied[strings.Split(a.Family, " ")[0]] >= 3 || (oi >= 3 && !strings.Contains(a.Family, "plus-r")) {
						panic(engine.LocalPass) // nothing to play here: stop the run (chosen stays nil)
					}
					same := true
					for i := range a.Out {
						if new(big.Int).Mod(a.Out[i], engine.R).Cmp(c.Honest[i]) != 0 {
							same = false
						}
					}
					if same {
						panic(engine.LocalPass)
					}
					chosen = &a
					c2.AbortAfterLocal = !a.Global
					return a.Out
				}
				l2 := data.Load(inst, req.K)
				err := hc.RunVerifier(c2, l2, l2)
				if chosen == nil {
					if ai >= nalts {
						break
					}
					continue
				}
				applied[strings.Split(chosen.Family, " ")[0]]++
				resp.Count(fmt.Sprintf("foreign/%s/%d/%s/%d", st.Site, oc[0], chosen.Family, ai), false)
				accepted := c2.LocalAccepted
				if chosen.Global {
					accepted = err == nil
				}
				if accepted {
					short := st.Site
					if len(short) > 160 {
						short = short[:160]
					}
					resp.Violate(fmt.Sprintf("%s/foreign-hint/accepted hint=%s family=%s site=%s", strings.ToLower(req.Prop), st.Name, strings.Split(chosen.Family, " ")[0], short),
						fmt.Sprintf("%s k=%d: at occurrence %d of the prover-supplied value %s (%s) the alternative '%s' - not the honest output - satisfies the constraints: the value is left to the prover", req.Instance, req.K, oc[0], st.Name, st.Site, chosen.Family),
						map[string]any{"instance": req.Instance, "k": req.K, "site": st.Site, "family": chosen.Family})
				}
				if len(resp.Samples) < 4 {
					resp.Sample(map[string]any{"site": st.Site, "hint": st.Name, "family": chosen.Family, "accepted": accepted})
				}
			}
		}
	}
	if len(sites) == 0 {
		resp.Sample(map[string]any{"foreign_sites": 0, "hint_names": names})
	}
	return nil
}

// foreignProbe is the gadget-level form of the guard: fn is run once honestly to list the hint calls that are not one of the chip's
// four, then once per (call, alternative) with the alternative substituted.  An accepted alternative (the whole run for the families
// decided globally, the local verdict for the recognised shapes) is reported under prop.
func foreignProbe(resp *drv.Response, prop, label string, mode engine.Mode, inputs []*big.Int, fn func(api frontend.API, iv []frontend.Variable) error) {
	type fc struct {
		global int
		name   string
	}
	var calls []fc
	h := &engine.Config{Mode: mode}
	h.Strategy = func(c *engine.HintCall) []*big.Int {
		if !engine.KnownHint(c.Name) && c.Name != "DecomposeHint" && !strings.EqualFold(c.Name, "nbits") {
			calls = append(calls, fc{c.Global, c.Name})
		}
		return nil
	}
	if err := hc.Run(h, inputs, fn); err != nil {
		return // not an honest-accepting case: nothing to probe
	}
	resp.Count(fmt.Sprintf("foreign-probe/%s/%s/%d", prop, label, len(calls)), len(calls) == 0)
	for _, call := range calls {
		for ai := 0; ; ai++ {
			var chosen *engine.Alternative
			nalts := 0
			c2 := &engine.Config{Mode: mode, Permissive: true, TargetGlobal: call.global}
			c2.Strategy = func(c *engine.HintCall) []*big.Int {
				alts := engine.ForeignAlternatives(c)
				nalts = len(alts)
				if ai >= len(alts) {
					return nil
				}
				a := alts[ai]
				same := true
				for i := range a.Out {
					if new(big.Int).Mod(a.Out[i], engine.R).Cmp(c.Honest[i]) != 0 {
						same = false
					}
				}
				if same {
					return nil
				}
				chosen = &a
				c2.AbortAfterLocal = !a.Global
				return a.Out
			}
			err := hc.Run(c2, inputs, fn)
			if chosen == nil {
				if ai >= nalts {
					break
				}
				continue
			}
			accepted := c2.LocalAccepted
			if chosen.Global {
				accepted = err == nil
			}
			resp.Count(fmt.Sprintf("foreign-probe/%s/%s/%d/%d", prop, label, call.global, ai), false)
			if accepted {
				resp.Violate(fmt.Sprintf("%s/foreign-hint/accepted hint=%s family=%s gadget=%s", strings.ToLower(prop), call.name, strings.Split(chosen.Family, " ")[0], label),
					fmt.Sprintf("%s: the alternative '%s' for the prover-supplied value %s - not the honest output - satisfies the constraints", label, chosen.Family, call.name),
					map[string]any{"gadget": label, "family": chosen.Family})
			}
		}
	}
}
