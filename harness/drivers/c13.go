package drivers

import (
	"encoding/json"
	"fmt"
	"math/big"
	"math/rand"
	"os"

	"github.com/consensys/gnark/frontend"
	"github.com/wormhole-foundation/example-near-light-client/fri"
	gl "github.com/wormhole-foundation/example-near-light-client/goldilocks"
	"github.com/wormhole-foundation/example-near-light-client/types"
	"github.com/wormhole-foundation/example-near-light-client/variables"
	"github.com/wormhole-foundation/example-near-light-client/verifier"
	"strings"

	"verifharness/data"
	"verifharness/drv"
	"verifharness/engine"
	"verifharness/gf"
	"verifharness/hc"
	"verifharness/terms"
)

type subgroupTerm struct {
	N     int         `json:"n"`
	Index int         `json:"index"`
	Term  *terms.Term `json:"term"`
}

type friTerms struct {
	Subgroup []subgroupTerm `json:"subgroup"`
	Combine  []struct {
		Sizes []int       `json:"sizes"`
		Term  *terms.Term `json:"term"`
	} `json:"combine"`
	Fold []struct {
		ArityBits int         `json:"arity_bits"`
		Idx       int         `json:"idx"`
		Term      *terms.Term `json:"term"`
	} `json:"fold"`
	Final []struct {
		Len  int         `json:"len"`
		Term *terms.Term `json:"term"`
	} `json:"final"`
}

type c13Req struct {
	Terms   string   `json:"terms"`
	Part    string   `json:"part"`
	NRandom int      `json:"nrandom"`
	Shard   int      `json:"shard"`
	NShards int      `json:"nshards"`
	More    []string `json:"more_terms"` // subgroup: further term files (other domain sizes) evaluated in the same process, in this order
}

func init() { drv.Register("c13", c13) }

func randE(rng *rand.Rand) gf.E {
	switch rng.Intn(8) {
	case 0:
		return gf.E{glEdge()[rng.Intn(7)], glEdge()[rng.Intn(7)]}
	case 1:
		return gf.E{drv.RandBelow(rng, bigP), big.NewInt(0)}
	}
	return gf.E{drv.RandBelow(rng, bigP), drv.RandBelow(rng, bigP)}
}

func qe(iv []frontend.Variable, p int) gl.QuadraticExtensionVariable {
	return gl.QuadraticExtensionVariable{gl.NewVariable(iv[p]), gl.NewVariable(iv[p+1])}
}

func getE(v gl.QuadraticExtensionVariable) gf.E {
	return gf.E{new(big.Int).Set(engine.ToBig(v[0].Limb)), new(big.Int).Set(engine.ToBig(v[1].Limb))}
}

func estr(e gf.E) string { return "(" + e[0].String() + "," + e[1].String() + ")" }

func newFriChip(api frontend.API) *fri.Chip {
	cd := types.CommonCircuitData{}
	return fri.NewChip(api, &cd, &cd.FriParams)
}

func c13(raw json.RawMessage, resp *drv.Response) error {
	var req c13Req
	if err := json.Unmarshal(raw, &req); err != nil {
		return err
	}
	b, err := os.ReadFile(req.Terms)
	if err != nil {
		return err
	}
	var ft friTerms
	if err := json.Unmarshal(b, &ft); err != nil {
		return err
	}
	rng := drv.Rng(int64(1300 + req.Shard))
	mine := func(i int) bool { return req.NShards == 0 || i%req.NShards == req.Shard }
	switch req.Part {
	case "subgroup":
		all := append([]subgroupTerm{}, ft.Subgroup...)
		for _, m := range req.More {
			bb, err := os.ReadFile(m)
			if err != nil {
				return err
			}
			var ft2 friTerms
			if err := json.Unmarshal(bb, &ft2); err != nil {
				return err
			}
			all = append(all, ft2.Subgroup...)
		}
		for i, s := range all {
			if !mine(i) {
				continue
			}
			bits := make([]*big.Int, s.N)
			for j := range bits {
				bits[j] = big.NewInt(int64((s.Index >> uint(j)) & 1))
			}
			var got *big.Int
			err := hc.Run(&engine.Config{Mode: engine.Native}, bits, func(api frontend.API, iv []frontend.Variable) error {
				x := newFriChip(api).VerifCalculateSubgroupX(iv[:s.N], uint64(s.N))
				got = new(big.Int).Set(engine.ToBig(x.Limb))
				return nil
			})
			want, _ := terms.Eval(s.Term, terms.Env{})
			resp.Count(fmt.Sprintf("subgroup/%d/%d", s.N, s.Index), false)
			if err != nil || got.Cmp(want[0]) != 0 || want[1].Sign() != 0 {
				resp.Violate("c13/subgroup/wrong", fmt.Sprintf("n=%d index=%d: gadget %v, g*w^bitrev(index) = %v (%s)", s.N, s.Index, got, want[0], firstLine(err)), map[string]any{"n": s.N, "index": s.Index})
			}
			if len(resp.Samples) < 2 {
				resp.Sample(map[string]any{"n": s.N, "index": s.Index, "x": got.String()})
			}
		}
	case "combine":
		for ci, c := range ft.Combine {
			for rep := 0; rep < 1+req.NRandom; rep++ {
				if !mine(ci*100 + rep) {
					continue
				}
				env := terms.Env{"alpha": randE(rng), "x": gf.E{drv.RandBelow(rng, bigP), big.NewInt(0)}}
				var in []*big.Int
				push := func(e gf.E) { in = append(in, e[0], e[1]) }
				push(env["alpha"])
				in = append(in, env["x"][0])
				nb := len(c.Sizes)
				for bI := 0; bI < nb; bI++ {
					z := randE(rng)
					env[fmt.Sprintf("z_%d", bI)] = z
					push(z)
				}
				evalsPos := len(in)
				for bI, n := range c.Sizes {
					for j := 0; j < n; j++ {
						e := gf.E{drv.RandBelow(rng, bigP), big.NewInt(0)}
						if rng.Intn(10) == 0 {
							e[0] = glEdge()[rng.Intn(7)]
						}
						env[fmt.Sprintf("e_%d_%d", bI, j)] = e
						in = append(in, e[0])
					}
				}
				openPos := len(in)
				for bI, n := range c.Sizes {
					for j := 0; j < n; j++ {
						o := randE(rng)
						env[fmt.Sprintf("o_%d_%d", bI, j)] = o
						push(o)
					}
				}
				var got gf.E
				err := hc.Run(&engine.Config{Mode: engine.Native}, in, func(api frontend.API, iv []frontend.Variable) error {
					chip := newFriChip(api)
					alpha := qe(iv, 0)
					x := gl.NewVariable(iv[2]).ToQuadraticExtension()
					inst := fri.InstanceInfo{}
					proof := variables.FriInitialTreeProof{EvalsProofs: []variables.FriEvalProof{{}}}
					openings := fri.Openings{}
					ep, op := evalsPos, openPos
					for bI, n := range c.Sizes {
						batch := fri.BatchInfo{Point: qe(iv, 3+2*bI)}
						ob := fri.OpeningBatch{}
						for j := 0; j < n; j++ {
							batch.Polynomials = append(batch.Polynomials, fri.PolynomialInfo{OracleIndex: 0, PolynomialInfo: uint64(len(proof.EvalsProofs[0].Elements))})
							proof.EvalsProofs[0].Elements = append(proof.EvalsProofs[0].Elements, gl.NewVariable(iv[ep]))
							ep++
							ob.Values = append(ob.Values, qe(iv, op))
							op += 2
						}
						inst.Batches = append(inst.Batches, batch)
						openings.Batches = append(openings.Batches, ob)
					}
					if rep%2 == 1 {
						// the same chip has already combined with another alpha: nothing it remembers may leak into this call
						alpha2 := gl.New(api).AddExtension(alpha, gl.OneExtension())
						pre2 := chip.VerifFromOpeningsAndAlpha(&openings, alpha2)
						chip.VerifFriCombineInitial(inst, proof, alpha2, x, pre2)
					}
					pre := chip.VerifFromOpeningsAndAlpha(&openings, alpha)
					got = getE(chip.VerifFriCombineInitial(inst, proof, alpha, x, pre))
					return nil
				})
				want, ok := terms.Eval(c.Term, env)
				resp.Count(fmt.Sprintf("combine/%v/%s/%s", c.Sizes, estr(env["alpha"]), env["x"][0]), false)
				if !ok {
					continue
				}
				if err != nil || !got.Eq(want) {
					resp.Violate("c13/combine/wrong", fmt.Sprintf("batch sizes %v: gadget %s, reference %s (%s)", c.Sizes, estr(got), estr(want), firstLine(err)), map[string]any{"sizes": c.Sizes})
				}
				if len(resp.Samples) < 2 {
					resp.Sample(map[string]any{"combine_sizes": c.Sizes, "value": estr(got)})
				}
			}
		}
	case "fold":
		for fi, f := range ft.Fold {
			n := 1 << uint(f.ArityBits)
			for rep := 0; rep < 5+req.NRandom; rep++ {
				if !mine(fi*100 + rep) {
					continue
				}
				x := drv.RandBelow(rng, bigP)
				if x.Sign() == 0 {
					x = big.NewInt(3)
				}
				env := terms.Env{"x": gf.E{x, big.NewInt(0)}}
				ys := make([]gf.E, n)
				for i := range ys {
					ys[i] = randE(rng)
					if rep == 1 {
						ys[i] = gf.E{big.NewInt(int64(i + 1)), big.NewInt(0)}
					}
					env[fmt.Sprintf("y_%d", i)] = ys[i]
				}
				beta := randE(rng)
				switch rep {
				case 0: // beta on the coset: the lookup branch of interpolate
					g := gf.PrimitiveRoot(uint(f.ArityBits))
					ginv := gf.Inv(g)
					rev := 0
					for t := 0; t < f.ArityBits; t++ {
						rev |= ((f.Idx >> uint(t)) & 1) << uint(f.ArityBits-1-t)
					}
					start := gf.Mul(x, gf.ExpU(ginv, uint64(rev)))
					beta = gf.E{gf.Mul(start, gf.ExpU(g, uint64(rng.Intn(n)))), big.NewInt(0)}
				case 2:
					beta = gf.E0()
				case 3: // real limb on the coset, non-zero second limb: NOT a coset point
					g := gf.PrimitiveRoot(uint(f.ArityBits))
					rev := 0
					for t := 0; t < f.ArityBits; t++ {
						rev |= ((f.Idx >> uint(t)) & 1) << uint(f.ArityBits-1-t)
					}
					start := gf.Mul(x, gf.ExpU(gf.Inv(g), uint64(rev)))
					beta = gf.E{gf.Mul(start, gf.ExpU(g, uint64(rng.Intn(n)))), big.NewInt(int64(1 + rng.Intn(1000)))}
				case 4: // zero real limb, non-zero second limb
					beta = gf.E{big.NewInt(0), drv.RandBelow(rng, bigP)}
				}
				env["beta"] = beta
				in := []*big.Int{x, beta[0], beta[1]}
				for _, y := range ys {
					in = append(in, y[0], y[1])
				}
				for t := 0; t < f.ArityBits; t++ {
					in = append(in, big.NewInt(int64((f.Idx>>uint(t))&1)))
				}
				var got gf.E
				err := hc.Run(&engine.Config{Mode: engine.Native}, in, func(api frontend.API, iv []frontend.Variable) error {
					evals := make([]gl.QuadraticExtensionVariable, n)
					for i := range evals {
						evals[i] = qe(iv, 3+2*i)
					}
					bits := iv[3+2*n : 3+2*n+f.ArityBits]
					got = getE(newFriChip(api).VerifComputeEvaluation(gl.NewVariable(iv[0]), bits, uint64(f.ArityBits), evals, qe(iv, 1)))
					return nil
				})
				want, ok := terms.Eval(f.Term, env)
				resp.Count(fmt.Sprintf("fold/%d/%d/%d/%s/%s", f.ArityBits, f.Idx, rep, x, estr(beta)), false)
				if !ok {
					continue
				}
				if err != nil || !got.Eq(want) {
					kind := "generic"
					if rep == 0 {
						kind = "beta-on-coset"
					}
					resp.Violate("c13/fold/wrong beta="+kind, fmt.Sprintf("arity_bits=%d idx=%d: gadget %s, interpolant at beta %s (%s)", f.ArityBits, f.Idx, estr(got), estr(want), firstLine(err)),
						map[string]any{"idx": f.Idx, "rep": rep})
				}
				if len(resp.Samples) < 2 {
					resp.Sample(map[string]any{"fold_idx": f.Idx, "beta": estr(beta), "value": estr(got)})
				}
			}
		}
	case "final":
		for _, f := range ft.Final {
			for rep := 0; rep < 4+req.NRandom; rep++ {
				env := terms.Env{"x": randE(rng)}
				if rep == 0 {
					env["x"] = gf.E0()
				}
				in := []*big.Int{env["x"][0], env["x"][1]}
				for i := 0; i < f.Len; i++ {
					c := randE(rng)
					env[fmt.Sprintf("c_%d", i)] = c
					in = append(in, c[0], c[1])
				}
				var got gf.E
				err := hc.Run(&engine.Config{Mode: engine.Native}, in, func(api frontend.API, iv []frontend.Variable) error {
					pc := variables.PolynomialCoeffs{}
					for i := 0; i < f.Len; i++ {
						pc.Coeffs = append(pc.Coeffs, qe(iv, 2+2*i))
					}
					got = getE(newFriChip(api).VerifFinalPolyEval(pc, qe(iv, 0)))
					return nil
				})
				want, _ := terms.Eval(f.Term, env)
				resp.Count(fmt.Sprintf("final/%d/%s/%d", f.Len, estr(env["x"]), rep), false)
				if err != nil || !got.Eq(want) {
					resp.Violate("c13/final/wrong", fmt.Sprintf("len=%d: gadget %s, Horner value %s (%s)", f.Len, estr(got), estr(want), firstLine(err)), map[string]any{"len": f.Len})
				}
			}
		}
	case "round":
		return c13Round(req, resp, rng)
	default:
		return fmt.Errorf("unknown part %q", req.Part)
	}
	return nil
}

// c13Round: one query round of a real proof through the export wrapper, with the honest Fiat-Shamir challenges and a
// COMPONENT-level change that no other check of the round can notice: the reduced openings, a fold challenge, or a
// final-polynomial coefficient moved by delta in ONE limb.  delta = 0 must be accepted, every other case rejected.
type roundCircuit struct {
	PWPI variables.ProofWithPublicInputs
	VD   variables.VerifierOnlyCircuitData
	L    *data.Loaded   `gnark:"-"`
	Cfg  *engine.Config `gnark:"-"`
	What string         `gnark:"-"`
	Limb int            `gnark:"-"`
	D    int64          `gnark:"-"`
	R    int            `gnark:"-"`
}

func (c *roundCircuit) Define(api frontend.API) error {
	p := engine.Wrap(api, c.Cfg)
	cd := c.L.Common
	vc := verifier.NewVerifierChip(p, cd)
	glc := gl.New(p)
	pih := vc.GetPublicInputsHash(c.PWPI.PublicInputs)
	ch := vc.GetChallenges(c.PWPI.Proof, pih, c.VD)
	fc := fri.NewChip(p, &cd, &cd.FriParams)
	inst := fc.GetInstance(ch.PlonkZeta)
	op := fc.ToOpenings(c.PWPI.Proof.Openings)
	pre := fc.VerifFromOpeningsAndAlpha(&op, ch.FriChallenges.FriAlpha)
	bump := func(e gl.QuadraticExtensionVariable) gl.QuadraticExtensionVariable {
		d := gl.NewVariable(big.NewInt(c.D))
		if c.Limb == 0 {
			return gl.QuadraticExtensionVariable{glc.Add(e[0], d), e[1]}
		}
		return gl.QuadraticExtensionVariable{e[0], glc.Add(e[1], d)}
	}
	proof := c.PWPI.Proof.OpeningProof
	switch c.What {
	case "reduced0":
		pre[0] = bump(pre[0])
	case "reduced1":
		pre[1] = bump(pre[1])
	case "beta0":
		ch.FriChallenges.FriBetas[0] = bump(ch.FriChallenges.FriBetas[0])
	case "betalast":
		k := len(ch.FriChallenges.FriBetas) - 1
		ch.FriChallenges.FriBetas[k] = bump(ch.FriChallenges.FriBetas[k])
	case "final0":
		cs := append([]gl.QuadraticExtensionVariable{}, proof.FinalPoly.Coeffs...)
		cs[0] = bump(cs[0])
		proof.FinalPoly.Coeffs = cs
	case "alpha":
		ch.FriChallenges.FriAlpha = bump(ch.FriChallenges.FriAlpha)
	case "pure":
		// move the initial combination by exactly delta = (d,0) or (0,d): the last batch's reduced opening is shifted by
		// delta*(x - point), which the combination divides by (x - point) again; nothing Merkle-committed changes, so only
		// the first consistency equality can notice - and it must, in whichever limb the difference sits
		nl := int(cd.FriParams.DegreeBits + cd.FriParams.Config.RateBits)
		bits := p.ToBinary(ch.FriChallenges.FriQueryIndices[c.R].Limb, 64)[0:nl]
		x := fc.VerifCalculateSubgroupX(bits, uint64(nl)).ToQuadraticExtension()
		last := len(inst.Batches) - 1
		delta := bump(gl.ZeroExtension())
		pre[last] = glc.AddExtension(pre[last], glc.MulExtension(delta, glc.SubExtension(x, inst.Batches[last].Point)))
	}
	caps := []variables.FriMerkleCap{c.VD.ConstantSigmasCap, c.PWPI.Proof.WiresCap, c.PWPI.Proof.PlonkZsPartialProductsCap, c.PWPI.Proof.QuotientPolysCap}
	nLog := cd.FriParams.DegreeBits + cd.FriParams.Config.RateBits
	fc.VerifVerifyQueryRound(inst, &ch.FriChallenges, pre, caps, &proof, ch.FriChallenges.FriQueryIndices[c.R], uint64(1)<<nLog, nLog, &proof.QueryRoundProofs[c.R])
	return nil
}

func c13Round(req c13Req, resp *drv.Response, rng *rand.Rand) error {
	for _, instName := range []string{"testdata", "random"} {
		l := data.Load(data.ByName(instName), 2)
		for _, what := range []string{"none", "pure", "reduced0", "reduced1", "beta0", "betalast", "final0", "alpha"} {
			for _, limb := range []int{0, 1} {
				for _, d := range []int64{1, int64(2 + rng.Intn(1000000))} {
					if what == "none" && (limb == 1 || d != 1) {
						continue
					}
					r := rng.Intn(2)
					c := &roundCircuit{PWPI: l.PWPI, VD: l.VD, L: l, Cfg: &engine.Config{Mode: engine.Native}, What: what, Limb: limb, D: d, R: r}
					err := hc.Solve(c, c)
					out := hc.Outcome(err)
					resp.Count(fmt.Sprintf("round/%s/%s/%d/%d/%d", instName, what, limb, d, r), false)
					if what == "none" && out != "accept" {
						resp.Violate("c13/round/honest-rejected", fmt.Sprintf("%s round %d: %s", instName, r, firstLine(err)), nil)
					}
					if what != "none" && out == "accept" {
						resp.Violate(fmt.Sprintf("c13/round/accepted what=%s limb=%d", what, limb),
							fmt.Sprintf("%s query round %d is accepted although %s was moved by %d in limb %d (an equality of the round does not hold)", instName, r, what, d, limb), map[string]any{"what": what, "limb": limb})
					}
					if len(resp.Samples) < 8 && what != "none" {
						resp.Sample(map[string]any{"instance": instName, "changed": what, "limb": limb, "delta": d, "outcome": out})
					}
				}
			}
		}
	}
	return nil
}

// ---- FRI hook trace of a whole verifier run (FriQueryTrace.tla) -----------------------------------------------

type friTraceReq struct {
	Instance  string `json:"instance"`
	K         int    `json:"k"`
	TraceFile string `json:"trace_file"`
}

func init() { drv.Register("fritrace", friTrace) }

func friTrace(raw json.RawMessage, resp *drv.Response) error {
	var req friTraceReq
	if err := json.Unmarshal(raw, &req); err != nil {
		return err
	}
	l := data.Load(data.ByName(req.Instance), req.K)
	cfg := &engine.Config{Mode: engine.Native, RecordEvts: map[string]bool{"pow": true, "round": true, "merkle": true, "consistency": true, "final": true,
		"challenge": true, "tobinary": true, "rcreq": true}}
	cfg.Leaves = data.LeafMap([]string{"PWPI", "VD"}, &l.PWPI, &l.VD)
	if err := hc.RunVerifier(cfg, l, l); err != nil {
		return fmt.Errorf("honest run rejected: %s", firstLine(err))
	}
	recs := friQueryTrace(cfg)
	resp.Count("fritrace/"+req.Instance, false)
	resp.Count("fritrace2/"+req.Instance, false)
	resp.Note("records", len(recs))
	return writeNdjson(req.TraceFile, recs)
}

func friQueryTrace(cfg *engine.Config) []map[string]any {
	var recs []map[string]any
	rec := func(ev string, round int) map[string]any {
		r := map[string]any{"ev": ev, "round": round, "leaflen": 0, "nsib": 0, "bitoff": 0, "capoff": 0, "cap": "", "n": 0}
		recs = append(recs, r)
		return r
	}
	ptr := func(v any) *big.Int {
		p, _ := v.(*big.Int)
		return p
	}
	challengeOrd := map[*big.Int]int{}
	nch := 0
	round := -1
	var roundBits map[*big.Int]int // bit identity -> position, for the 64-bit decomposition of the current round
	expectBits := false
	capName := func(lbl string) string {
		switch {
		case strings.HasPrefix(lbl, "VD.ConstantSigmasCap[0]"):
			return "initial0"
		case strings.HasPrefix(lbl, "PWPI.Proof.WiresCap[0]"):
			return "initial1"
		case strings.HasPrefix(lbl, "PWPI.Proof.PlonkZsPartialProductsCap[0]"):
			return "initial2"
		case strings.HasPrefix(lbl, "PWPI.Proof.QuotientPolysCap[0]"):
			return "initial3"
		}
		var s int
		if n, _ := fmt.Sscanf(lbl, "PWPI.Proof.OpeningProof.CommitPhaseMerkleCaps[%d][0]", &s); n == 1 {
			return fmt.Sprintf("commit%d", s)
		}
		return lbl
	}
	evs := cfg.Events
	for i := 0; i < len(evs); i++ {
		e := evs[i]
		switch e.Kind {
		case "challenge":
			if p := ptr(e.Args[0]); p != nil {
				challengeOrd[p] = nch
			}
			nch++
		case "pow":
			r := rec("pow", 0)
			r["n"] = -1
			// the width actually requested on the response: the next range-check request must be on that very value
			for j := i + 1; j < len(evs); j++ {
				if evs[j].Kind == "rcreq" {
					if ptr(evs[j].Args[1]) == ptr(e.Args[0]) && ptr(e.Args[0]) != nil {
						r["n"] = evs[j].Args[2].(int)
					}
					break
				}
				if evs[j].Kind == "round" {
					break
				}
			}
		case "round":
			round++
			r := rec("round", round)
			r["n"] = -1
			if o, ok := challengeOrd[ptr(e.Args[0])]; ok {
				r["n"] = o
			}
			expectBits = true
			roundBits = nil
		case "tobinary":
			if expectBits {
				bits := e.Args[1].([]frontend.Variable)
				if len(bits) == 64 {
					roundBits = map[*big.Int]int{}
					for pos, b := range bits {
						if p := ptr(b); p != nil {
							roundBits[p] = pos
						}
					}
					expectBits = false
				}
			}
		case "merkle":
			r := rec("merkle", round)
			leaf := e.Args[0].([]gl.Variable)
			lbits := e.Args[1].([]frontend.Variable)
			cbits := e.Args[2].([]frontend.Variable)
			mcap := e.Args[3].([]frontend.Variable)
			sibs := e.Args[4].([]frontend.Variable)
			r["leaflen"] = len(leaf)
			r["nsib"] = len(sibs)
			off := func(bs []frontend.Variable) int {
				if len(bs) == 0 || roundBits == nil {
					return -1
				}
				p0, ok := roundBits[ptr(bs[0])]
				if !ok {
					return -1
				}
				for t, b := range bs { // contiguous bits of the same decomposition
					if q, ok := roundBits[ptr(b)]; !ok || q != p0+t {
						return -1
					}
				}
				return p0
			}
			r["bitoff"] = off(lbits[:min(len(lbits), len(sibs))])
			if len(sibs) == 0 {
				r["bitoff"] = off(lbits[:min(1, len(lbits))])
			}
			r["capoff"] = off(cbits)
			if len(mcap) > 0 {
				r["cap"] = capName(cfg.Leaves[ptr(mcap[0])])
			}
		case "consistency":
			r := rec("consistency", round)
			r["n"] = e.Args[0].(int)
		case "final":
			rec("final", round)
		}
	}
	return recs
}

func min(a, b int) int {
	if a < b {
		return a
	}
	return b
}
