package drivers

import (
	"crypto/sha256"
	"encoding/json"
	"fmt"
	stdbits "github.com/consensys/gnark/std/math/bits"
	"math/big"
	"math/rand"
	"runtime/debug"
	"strings"
	"sync"

	"github.com/consensys/gnark-crypto/ecc"
	"github.com/consensys/gnark/constraint"
	"github.com/consensys/gnark/constraint/solver"
	"github.com/consensys/gnark/frontend"
	"github.com/consensys/gnark/frontend/cs/r1cs"
	"github.com/consensys/gnark/frontend/cs/scs"
	gl "github.com/wormhole-foundation/example-near-light-client/goldilocks"
	"verifharness/drv"
	"verifharness/engine"
	"verifharness/hc"
)

// RCCase is a terminal scenario of RangeChip.tla (written by TLC, rangechip_cases.json).
type RCCase struct {
	RC, Commit, Typer, Real, Env bool
	FT                           string
	Pad                          int
	Widths                       []int
	Mode, Outcome                string
	NDelivered                   int
	ChipBase, GnarkBase          int
}

func (c *RCCase) UnmarshalJSON(b []byte) error {
	var m struct {
		Rc, Commit, Typer, Real, Env bool
		Ft                           string
		Pad                          int
		Widths                       []int
		Mode, Outcome                string
		Ndelivered                   int
		Chipbase, Gnarkbase          int
	}
	if err := json.Unmarshal(b, &m); err != nil {
		return err
	}
	*c = RCCase{m.Rc, m.Commit, m.Typer, m.Real, m.Env, m.Ft, m.Pad, m.Widths, m.Mode, m.Outcome, m.Ndelivered, m.Chipbase, m.Gnarkbase}
	return nil
}

func (c RCCase) key() string {
	return fmt.Sprintf("rc=%v commit=%v ft=%s typer=%v real=%v env=%v pad=%d widths=%v", c.RC, c.Commit, c.FT, c.Typer, c.Real, c.Env, c.Pad, c.Widths)
}

func (c RCCase) cfg() *engine.Config {
	cfg := &engine.Config{Mode: engine.Plain, RecordEvts: map[string]bool{"*": true}}
	if c.RC {
		cfg.Mode = engine.Native
		cfg.AlsoCommitter = c.Commit
	} else if c.Commit {
		cfg.Mode = engine.Commit
	}
	cfg.Typer = c.Typer
	if c.FT == "scs" {
		cfg.FT = 1
	}
	return cfg
}

type c06Req struct {
	Part      string   `json:"part"`
	Cases     []RCCase `json:"cases"`
	Values    []vCase  `json:"values"`
	TraceFile string   `json:"trace_file"`
	Shard     int      `json:"shard"`
}

// vCase: one value-level case: gadget on value x in a mode; expect accept iff in range.
type vCase struct {
	Mode  string `json:"mode"` // native | commit | plain
	Kind  string `json:"kind"` // rangecheck | nbits
	Bits  int    `json:"bits"`
	X     string `json:"x"`
	Strat string `json:"strat"` // honest | generic | hi-1 | hi+1 | lo+p  (limb substitution strategies)
	Sys   string `json:"sys"`   // engine | r1cs | scs
}

func (v vCase) key() string {
	return fmt.Sprintf("%s/%s/%s/%d/%s/%s", v.Sys, v.Mode, v.Kind, v.Bits, v.X, v.Strat)
}

func padValues(n int, r *rand.Rand) []*big.Int {
	out := make([]*big.Int, n)
	for i := range out {
		out[i] = new(big.Int).SetUint64(uint64(r.Uint32()))
	}
	return out
}

const commitPad = 70000

func init() {
	drv.Register("c06", c06)
}

func c06(raw json.RawMessage, resp *drv.Response) error {
	var req c06Req
	if err := json.Unmarshal(raw, &req); err != nil {
		return err
	}
	rng := drv.Rng(int64(600 + req.Shard))
	switch req.Part {
	case "protocol":
		return c06Protocol(req, resp, rng)
	case "values":
		return c06Values(req, resp, rng)
	case "registry":
		return c06Registry(req, resp, rng)
	case "late":
		return c06Late(req, resp, rng)
	}
	return fmt.Errorf("unknown part %q", req.Part)
}

// ---- protocol level: replay of RangeChip.tla terminal scenarios -----------------------------------

func c06Protocol(req c06Req, resp *drv.Response, rng *rand.Rand) error {
	var traces []map[string]any
	for _, c := range req.Cases {
		if c.Real {
			c06ProtocolReal(c, resp, rng)
			continue
		}
		setBitDecompEnv(c.Env)
		pad := padValues(c.Pad, rng)
		inRange := make([]*big.Int, len(c.Widths))
		for i, w := range c.Widths {
			inRange[i] = new(big.Int).Sub(pow2(w), one) // the largest admissible value
		}
		run := func(vals []*big.Int) (*engine.Config, string, error) {
			cfg := c.cfg()
			all := append(append([]*big.Int{}, vals...), pad...)
			err := hc.Run(cfg, all, func(api frontend.API, in []frontend.Variable) error {
				chip := gl.New(api)
				for j := len(vals); j < len(all); j++ {
					chip.RangeCheckWithMaxBits(gl.NewVariable(in[j]), 32)
				}
				for i, w := range c.Widths {
					chip.RangeCheckWithMaxBits(gl.NewVariable(in[i]), uint64(w))
				}
				return nil
			})
			return cfg, hc.Outcome(err), err
		}
		cfg, out, err := run(inRange)
		resp.Count("honest:"+c.key(), false)
		want := map[string]string{"done": "accept", "refused": "refuse"}[c.Outcome]
		if out != want {
			resp.Violate(fmt.Sprintf("c06/protocol/outcome mode=%s model=%s real=%s", c.Mode, c.Outcome, out),
				fmt.Sprintf("%s: RangeChip.tla predicts %s, the code gives %s (%s)", c.key(), c.Outcome, out, firstLine(err)), c)
		}
		deliveries := cfg.Counters["nativecheck"] + cfg.Counters["nbitscheck"] + cfg.Counters["hint:DecomposeHint"]
		if c.Outcome == "done" && deliveries != c.NDelivered+c.Pad {
			resp.Violate(fmt.Sprintf("c06/protocol/deliveries mode=%s", c.Mode),
				fmt.Sprintf("%s: model delivers %d checks, the proxy saw %d reach a range-check mechanism", c.key(), c.NDelivered+c.Pad, deliveries), c)
		}
		// sequence-level trace for RangeChipTrace.tla
		start := map[string]any{"ev": "start", "rc": c.RC, "commit": c.Commit, "ft": c.FT, "typer": c.Typer, "real": false, "env": c.Env, "pad": c.Pad}
		traces = append(traces, rangeTrace(cfg, start, out, c.Pad)...)
		resp.Sample(map[string]any{"case": c.key(), "model": c.Outcome, "code": out, "deliveries": deliveries})
		// effectiveness: one value just out of range at a seeded position must be rejected
		if c.Outcome == "done" && len(c.Widths) > 0 {
			k := rng.Intn(len(c.Widths))
			bad := append([]*big.Int{}, inRange...)
			bad[k] = pow2(c.Widths[k])
			_, out2, err2 := run(bad)
			resp.Count(fmt.Sprintf("bad%d:%s", k, c.key()), false)
			if out2 == "accept" {
				resp.Violate(fmt.Sprintf("c06/protocol/noop mode=%s width=%d", c.Mode, c.Widths[k]),
					fmt.Sprintf("%s: value 2^%d passed a %d-bit range check (request %d): the check is a no-op in this configuration", c.key(), c.Widths[k], c.Widths[k], k), c)
			}
			_ = err2
		}
	}
	setBitDecompEnv(false)
	if req.TraceFile != "" {
		if err := writeNdjson(req.TraceFile, traces); err != nil {
			return err
		}
	}
	resp.Note("trace_records", len(traces))
	return nil
}

// rcCircuit is compiled with gnark's real builders.
type rcCircuit struct {
	X      []frontend.Variable
	Pad    []frontend.Variable
	Widths []int      `gnark:"-"`
	Kind   string     `gnark:"-"` // "nbits" | "rangecheck"
	Consts []*big.Int `gnark:"-"` // operands that are compile-time constants of the circuit (checked with Widths, after X)
}

func (c *rcCircuit) Define(api frontend.API) error {
	chip := gl.New(api)
	for _, p := range c.Pad {
		chip.RangeCheckWithMaxBits(gl.NewVariable(p), 32)
	}
	for i, x := range c.X {
		if c.Kind == "rangecheck" {
			chip.RangeCheck(gl.NewVariable(x))
		} else {
			chip.RangeCheckWithMaxBits(gl.NewVariable(x), uint64(c.Widths[i]))
		}
	}
	for i, k := range c.Consts {
		chip.RangeCheckWithMaxBits(gl.NewVariable(k), uint64(c.Widths[i]))
	}
	return nil
}

func compileReal(sys string, c *rcCircuit) (ccs constraint.ConstraintSystem, err error) {
	defer func() {
		if r := recover(); r != nil {
			err = fmt.Errorf("panic: %v", r)
		}
	}()
	var nb frontend.NewBuilder = r1cs.NewBuilder
	if sys == "scs" {
		nb = scs.NewBuilder
	}
	return frontend.Compile(ecc.BN254.ScalarField(), nb, c)
}

func solveReal(ccs constraint.ConstraintSystem, c *rcCircuit, opts ...solver.Option) (err error) {
	if ccs.GetNbConstraints() == 0 {
		return nil // gnark's solver panics on an empty system; nothing to satisfy
	}
	defer func() {
		if r := recover(); r != nil {
			err = fmt.Errorf("solver panic: %v", r)
		}
	}()
	w, err := frontend.NewWitness(c, ecc.BN254.ScalarField())
	if err != nil {
		return fmt.Errorf("witness: %w", err)
	}
	opts = append(opts, commitmentOverrides(ccs)...)
	return ccs.IsSolved(w, opts...)
}

func toVars(xs []*big.Int) []frontend.Variable {
	out := make([]frontend.Variable, len(xs))
	for i, x := range xs {
		out[i] = x
	}
	return out
}

// permissiveSplit is what an unconstrained prover puts on the limb wires.
func permissiveSplit(_ *big.Int, in []*big.Int, out []*big.Int) error {
	q, r := new(big.Int).QuoRem(in[0], two32, new(big.Int))
	out[0].Set(q)
	out[1].Set(r)
	return nil
}

func c06ProtocolReal(c RCCase, resp *drv.Response, rng *rand.Rand) {
	setBitDecompEnv(c.Env)
	defer setBitDecompEnv(false)
	sys := c.FT
	mk := func(vals []*big.Int, pad []*big.Int) *rcCircuit {
		return &rcCircuit{X: toVars(vals), Pad: toVars(pad), Widths: c.Widths, Kind: "nbits"}
	}
	pad := padValues(c.Pad, rng)
	inRange := make([]*big.Int, len(c.Widths))
	for i, w := range c.Widths {
		inRange[i] = new(big.Int).Sub(pow2(w), one)
	}
	ccs, err := compileReal(sys, mk(inRange, pad))
	resp.Count("real-honest:"+c.key(), false)
	got := "done"
	if err != nil {
		got = "refused"
	}
	if got != c.Outcome {
		resp.Violate(fmt.Sprintf("c06/protocol-real/outcome sys=%s model=%s real=%s", sys, c.Outcome, got),
			fmt.Sprintf("%s: RangeChip.tla predicts %s, compiling with gnark's %s builder gives %s (%v)", c.key(), c.Outcome, sys, got, errHead(err)), c)
		return
	}
	if err != nil {
		return
	}
	if e := solveReal(ccs, mk(inRange, pad)); e != nil {
		resp.Violate(fmt.Sprintf("c06/protocol-real/honest-rejected sys=%s", sys), fmt.Sprintf("%s: in-range witness rejected: %v", c.key(), errHead(e)), c)
	}
	if len(c.Widths) > 0 {
		k := rng.Intn(len(c.Widths))
		bad := append([]*big.Int{}, inRange...)
		bad[k] = pow2(c.Widths[k])
		resp.Count(fmt.Sprintf("real-bad%d:%s", k, c.key()), false)
		if e := solveReal(ccs, mk(bad, pad)); e == nil {
			resp.Violate(fmt.Sprintf("c06/protocol-real/noop sys=%s width=%d", sys, c.Widths[k]),
				fmt.Sprintf("%s: value 2^%d satisfies the compiled %s system although a %d-bit range check was requested", c.key(), c.Widths[k], sys, c.Widths[k]), c)
		}
	}
	// the operand may be a compile-time constant of the circuit: the same ranges are enforced (a builder knows the value of a constant,
	// the test engine and the proxy do not, so this only exists on compiled systems)
	if len(c.Widths) > 0 && !(c.Env && c.Pad > 0) { // (bit decomposition of a padded circuit is millions of constraints per compilation: constants under that mechanism are decided on the unpadded scenarios)
		mkc := func(consts []*big.Int) *rcCircuit {
			cc := mk(inRange, pad)
			cc.Consts = consts
			return cc
		}
		resp.Count("real-const-honest:"+c.key(), false)
		if ccs2, err := compileReal(sys, mkc(inRange)); err != nil {
			resp.Violate(fmt.Sprintf("c06/protocol-real/constant-refused sys=%s", sys), fmt.Sprintf("%s: in-range constants 2^w-1 as operands: compilation fails (%v)", c.key(), errHead(err)), c)
		} else if e := solveReal(ccs2, mkc(inRange)); e != nil {
			resp.Violate(fmt.Sprintf("c06/protocol-real/constant-rejected sys=%s", sys), fmt.Sprintf("%s: in-range constants 2^w-1 as operands are rejected: %v", c.key(), errHead(e)), c)
		}
		k := rng.Intn(len(c.Widths))
		w := c.Widths[k]
		bads := []*big.Int{pow2(w), new(big.Int).Add(pow2(64), big.NewInt(5)), new(big.Int).Add(pow2(128), one), new(big.Int).Sub(bigR, one)}
		if c.Pad > 0 {
			bads = bads[1+rng.Intn(3):][:1] // a padded circuit takes seconds and gigabytes to compile: one seeded value beyond 64 bits
		}
		for _, bad := range bads {
			if bad.Cmp(pow2(w)) < 0 {
				continue
			}
			consts := append([]*big.Int{}, inRange...)
			consts[k] = bad
			resp.Count(fmt.Sprintf("real-const-bad%d:%s:%s", k, bad.String(), c.key()), false)
			ccs2, err := compileReal(sys, mkc(consts))
			if err != nil {
				continue // refused at compile time
			}
			if e := solveReal(ccs2, mkc(consts)); e == nil {
				resp.Violate(fmt.Sprintf("c06/protocol-real/constant-noop sys=%s width=%d", sys, w),
					fmt.Sprintf("%s: the constant %s as operand of a %d-bit range check: the compiled %s system is satisfiable", c.key(), bad.String(), w, sys), c)
			}
		}
	}
	resp.Sample(map[string]any{"case": c.key(), "sys": sys, "model": c.Outcome, "constraints": ccs.GetNbConstraints()})
	ccs = nil
	debug.FreeOSMemory() // compiled systems of padded scenarios are large: give the memory back before the next scenario
}

func errHead(err error) string {
	if err == nil {
		return ""
	}
	s := err.Error()
	if i := strings.Index(s, "\n"); i >= 0 {
		s = s[:i]
	}
	if len(s) > 200 {
		s = s[:200]
	}
	return s
}

// ---- value level -----------------------------------------------------------------------------------

func expectedAccept(v vCase, x *big.Int) (bool, bool) {
	// returns (accept, refuse)
	if v.Kind == "rangecheck" {
		return x.Cmp(bigP) < 0, false
	}
	if v.Mode == "commit" && v.Bits%16 != 0 {
		return false, true // RefuseMisaligned of RangeChip.tla
	}
	return x.Cmp(pow2(v.Bits)) < 0, false
}

// limbStrategy substitutes the SplitLimbsHint outputs.
func limbStrategy(name string) engine.HintStrategy {
	return func(c *engine.HintCall) []*big.Int {
		if name == "nonbool" {
			// the bit decomposition of gnark (hint nBits) with everything put into digit 0: recomposes to the value, the digit is not a bit
			if engine.KnownHint(c.Name) || c.Name == "DecomposeHint" || len(c.Honest) < 2 || len(c.Inputs) == 0 {
				return nil
			}
			out := make([]*big.Int, len(c.Honest))
			for i := range out {
				out[i] = new(big.Int)
			}
			out[0] = new(big.Int).Mod(c.Inputs[len(c.Inputs)-1], bigR)
			return out
		}
		if c.Name != "SplitLimbsHint" {
			return nil
		}
		g := engine.GenericHint("SplitLimbsHint", c.Inputs, 2)
		hi, lo := g[0], g[1]
		switch name {
		case "generic":
			return []*big.Int{hi, lo}
		case "hi-1": // (hi-1, lo+2^32): recomposes to the same value, low limb too wide
			return []*big.Int{new(big.Int).Sub(hi, one), new(big.Int).Add(lo, two32)}
		case "hi+1": // (hi+1, lo-2^32 mod r)
			return []*big.Int{new(big.Int).Add(hi, one), new(big.Int).Mod(new(big.Int).Sub(lo, two32), bigR)}
		case "lo-all": // (0, x): recomposes trivially; acceptable only if the low limb's width is not enforced
			return []*big.Int{new(big.Int), new(big.Int).Mod(c.Inputs[0], bigR)}
		case "modp": // limbs of x mod p: a different value, must fail the recomposition
			y := new(big.Int).Mod(c.Inputs[0], bigP)
			q, r := new(big.Int).QuoRem(y, two32, new(big.Int))
			return []*big.Int{q, r}
		case "wrap": // limbs of x + r over the integers (recomposes to x modulo r), both limbs huge
			y := new(big.Int).Add(c.Inputs[0], bigR)
			q, r := new(big.Int).QuoRem(y, two32, new(big.Int))
			return []*big.Int{q, r}
		}
		return nil
	}
}

func c06Values(req c06Req, resp *drv.Response, rng *rand.Rand) error {
	pad := padValues(commitPad, rng)
	type ck struct {
		sys, kind string
		bits      int
		env       bool
	}
	compiled := map[ck]constraint.ConstraintSystem{}
	compErr := map[ck]error{}
	for _, v := range req.Values {
		x := bi(v.X)
		wantAccept, wantRefuse := expectedAccept(v, x)
		var out string
		var err error
		if v.Sys == "engine" || v.Sys == "" {
			cfg := &engine.Config{Mode: modeOf(v.Mode), Permissive: true}
			if v.Strat != "honest" && v.Strat != "" {
				cfg.Strategy = limbStrategy(v.Strat)
			}
			var p []*big.Int
			if v.Mode == "commit" {
				p = pad
			}
			_, err = runGadget(cfg, Gadget{Kind: v.Kind, Bits: v.Bits}, []*big.Int{x}, p)
			out = hc.Outcome(err)
			if v.Strat != "honest" && v.Strat != "" && v.Strat != "nonbool" && cfg.Counters["subst"] == 0 && v.Kind == "rangecheck" {
				if cfg.Counters["hint:SplitLimbsHint"] == 0 {
					// this configuration of the code takes no limbs from the prover: the limb strategies have nothing to play against;
					// the honest and the digit strategies decide the value
					resp.Count(v.key(), true)
					continue
				}
				return fmt.Errorf("strategy %s never applied (dead driver)", v.Strat)
			}
		} else {
			// gnark's real builders: commit mode (both are Committers) or forced bit decomposition
			env := v.Mode == "plain"
			k := ck{v.Sys, v.Kind, v.Bits, env}
			if _, done := compiled[k]; !done {
				setBitDecompEnv(env)
				var p []*big.Int
				if !env {
					p = pad
				}
				circ := &rcCircuit{X: toVars([]*big.Int{big.NewInt(0)}), Pad: toVars(p), Widths: []int{v.Bits}, Kind: v.Kind}
				compiled[k], compErr[k] = compileReal(v.Sys, circ)
				setBitDecompEnv(false)
			}
			if compErr[k] != nil {
				out, err = "refuse", compErr[k]
			} else {
				var p []*big.Int
				if !env {
					p = pad
				}
				circ := &rcCircuit{X: toVars([]*big.Int{x}), Pad: toVars(p), Widths: []int{v.Bits}, Kind: v.Kind}
				opts := []solver.Option{}
				if v.Strat == "nonbool" {
					for _, h := range stdbits.GetHints() {
						if strings.HasSuffix(solver.GetHintName(h), "nBits") {
							opts = append(opts, solver.OverrideHint(solver.GetHintID(h), func(m *big.Int, in []*big.Int, o []*big.Int) error {
								for i := range o {
									o[i].SetInt64(0)
								}
								o[0].Mod(in[len(in)-1], bigR)
								return nil
							}))
						}
					}
				}
				if v.Kind == "rangecheck" {
					strat := v.Strat
					if strat == "" || strat == "honest" || strat == "nonbool" {
						strat = "generic"
					}
					st := limbStrategy(strat)
					opts = append(opts, solver.OverrideHint(solver.GetHintID(gl.SplitLimbsHint), func(m *big.Int, in []*big.Int, o []*big.Int) error {
						sub := st(&engine.HintCall{Name: "SplitLimbsHint", Inputs: in})
						o[0].Mod(sub[0], bigR)
						o[1].Mod(sub[1], bigR)
						return nil
					}))
				}
				err = solveReal(compiled[k], circ, opts...)
				if err == nil {
					out = "accept"
				} else {
					out = "reject"
				}
			}
		}
		trivial := false
		resp.Count(v.key(), trivial)
		ok := (wantRefuse && out != "accept") || (!wantRefuse && wantAccept && out == "accept") || (!wantRefuse && !wantAccept && out != "accept")
		// a dishonest limb pair for an in-range value need not be accepted: only the honest/generic split must
		if wantAccept && !wantRefuse && v.Strat != "honest" && v.Strat != "" && v.Strat != "generic" {
			ok = true
			if out == "accept" && v.Kind == "rangecheck" && (v.Strat == "modp" || v.Strat == "wrap") {
				ok = true // same limbs as honest for in-range x
			}
		}
		if !ok {
			dir := "accepted out-of-range value"
			if wantAccept {
				dir = "rejected in-range value"
			}
			if wantRefuse {
				dir = "accepted a misaligned width that the chip must refuse"
			}
			resp.Violate(fmt.Sprintf("c06/value/%s sys=%s mode=%s kind=%s bits=%d class=%s strat=%s", strings.Fields(dir)[0], v.Sys, v.Mode, v.Kind, v.Bits, classify(x, v), v.Strat),
				fmt.Sprintf("%s: %s: x=%s got %s (%s)", v.key(), dir, v.X, out, errHead(err)), v)
		}
		if len(resp.Samples) < 6 {
			resp.Sample(map[string]any{"case": v.key(), "expected_accept": wantAccept && !wantRefuse, "outcome": out})
		}
	}
	return nil
}

func classify(x *big.Int, v vCase) string {
	if v.Kind == "rangecheck" {
		switch {
		case x.Cmp(bigP) < 0:
			return "<p"
		case x.Cmp(two64) < 0:
			return "[p,2^64)"
		default:
			return ">=2^64"
		}
	}
	if x.Cmp(pow2(v.Bits)) < 0 {
		return "<2^n"
	}
	return ">=2^n"
}

// commitmentOverrides replaces the placeholder commitment hints of a compiled system by a hash of the
// committed values (what the backends do with a Pedersen commitment / a Fiat-Shamir challenge): the solver
// can then decide satisfiability without running a prover.
func commitmentOverrides(ccs constraint.ConstraintSystem) []solver.Option {
	var ids []solver.HintID
	switch c := ccs.GetCommitments().(type) {
	case constraint.Groth16Commitments:
		for _, x := range c {
			ids = append(ids, x.HintID)
		}
	case constraint.PlonkCommitments:
		for _, x := range c {
			ids = append(ids, x.HintID)
		}
	}
	var opts []solver.Option
	for _, id := range ids {
		opts = append(opts, solver.OverrideHint(id, func(_ *big.Int, in []*big.Int, out []*big.Int) error {
			h := sha256.New()
			for _, x := range in {
				h.Write(x.Bytes())
				h.Write([]byte{0xff})
			}
			out[0].SetBytes(h.Sum(nil))
			out[0].Mod(out[0], bigR)
			return nil
		}))
	}
	return opts
}

// c06Registry binds ChipRegistry.tla: goroutines construct the chip for one builder and request checks concurrently
// (commit mode, padded); exactly one chip, one deferred flush, and no lost request.
func c06Registry(req c06Req, resp *drv.Response, rng *rand.Rand) error {
	for rep := 0; rep < 6; rep++ {
		threads := 8 + rng.Intn(9)
		per := (commitPad+threads-1)/threads + rng.Intn(50)
		total := threads * per
		cfg := &engine.Config{Mode: engine.Commit, RecordEvts: map[string]bool{"newchip": true, "rcflush": true}}
		vals := padValues(total, rng)
		err := hc.Run(cfg, vals, func(api frontend.API, in []frontend.Variable) error {
			var wg sync.WaitGroup
			chips := make([]*gl.Chip, threads)
			for t := 0; t < threads; t++ {
				wg.Add(1)
				go func(t int) {
					defer wg.Done()
					chip := gl.New(api)
					chips[t] = chip
					for j := 0; j < per; j++ {
						chip.RangeCheckWithMaxBits(gl.NewVariable(in[t*per+j]), 32)
					}
				}(t)
			}
			wg.Wait()
			for t := 1; t < threads; t++ {
				if chips[t] != chips[0] {
					return fmt.Errorf("goroutines received different chips for the same builder")
				}
			}
			return nil
		})
		resp.Count(fmt.Sprintf("registry/%d/%d/%d", rep, threads, per), false)
		nchips, flushed := 0, -1
		for _, e := range cfg.Events {
			if e.Kind == "newchip" {
				nchips++
			}
			if e.Kind == "rcflush" {
				flushed = e.Args[0].(int)
			}
		}
		if err != nil || nchips != 1 || flushed != total {
			resp.Violate("c06/registry/concurrency", fmt.Sprintf("%d goroutines x %d requests: chips created %d (want 1), requests flushed %d (want %d), err=%v", threads, per, nchips, flushed, total, firstLine(err)), nil)
		}
		resp.Sample(map[string]any{"goroutines": threads, "requests": total, "chips_created": nchips, "flushed": flushed})
	}
	return nil
}

// ---- beyond the property: RangeChip.tla's LateRequest hazard on the real code ---------------------------------------
//
// A circuit that requests one more range check from a deferred callback registered after the chip's flush.  Nothing in the
// repository does that; the part records the trace for RangeChipTrace (accepted only with AllowLateRequest) and reports what the
// code does with an out-of-range value requested that way.
func c06Late(req c06Req, resp *drv.Response, rng *rand.Rand) error {
	setBitDecompEnv(false)
	pad := padValues(commitPad, rng)
	cfg := &engine.Config{Mode: engine.Commit, RecordEvts: map[string]bool{"*": true}}
	late := pow2(40) // does not fit the 32 bits requested for it
	all := append([]*big.Int{late, big.NewInt(7)}, pad...)
	err := hc.Run(cfg, all, func(api frontend.API, in []frontend.Variable) error {
		chip := gl.New(api) // registers the chip's flush
		for j := 2; j < len(all); j++ {
			chip.RangeCheckWithMaxBits(gl.NewVariable(in[j]), 32)
		}
		chip.RangeCheckWithMaxBits(gl.NewVariable(in[1]), 32)
		api.Compiler().Defer(func(api frontend.API) error { // runs after the flush
			chip.RangeCheckWithMaxBits(gl.NewVariable(in[0]), 32)
			return nil
		})
		return nil
	})
	out := hc.Outcome(err)
	start := map[string]any{"ev": "start", "rc": false, "commit": true, "ft": "r1cs", "typer": false, "real": false, "env": false, "pad": commitPad}
	tr := rangeTrace(cfg, start, out, commitPad)
	resp.Count("late-request", false)
	resp.Note("late_outcome", out)
	resp.Note("late_error", firstLine(err))
	resp.Note("trace_records", len(tr))
	if req.TraceFile != "" {
		return writeNdjson(req.TraceFile, tr)
	}
	return nil
}
