package drivers

import (
	"encoding/json"
	"fmt"
	"math/big"
	"math/rand"
	"os"
	"reflect"
	"regexp"
	"strings"

	"github.com/consensys/gnark-crypto/ecc"
	"github.com/consensys/gnark/frontend"
	"github.com/wormhole-foundation/example-near-light-client/plonk/gates"
	"github.com/wormhole-foundation/example-near-light-client/types"
	"github.com/wormhole-foundation/example-near-light-client/variables"
	"github.com/wormhole-foundation/example-near-light-client/verifier"
	"verifharness/data"
	"verifharness/drv"
)

type deserRule struct {
	Doc  string   `json:"doc"`
	Asg  string   `json:"asg"`
	Ty   string   `json:"ty"`
	Dims []string `json:"dims"`
}

type c19Req struct {
	Rules string `json:"rules"`
	NDocs int    `json:"ndocs"`
	NCorr int    `json:"ncorr"`
	Shard int    `json:"shard"`
}

func init() { drv.Register("c19", c19) }

var reIndex = regexp.MustCompile(`\[(\d+)\]`)

// mapPath applies the rule table: document leaf path -> assignment leaf path.
func mapPath(rules []deserRule, doc string) (string, string, bool) {
	pat := reIndex.ReplaceAllString(doc, "[*]")
	// "[0]" / "[1]" of the evals_proofs tuple are literal in the patterns: try all rules on the generic pattern with those restored
	idx := reIndex.FindAllStringSubmatch(doc, -1)
	for _, r := range rules {
		rp := r.Doc
		// build a regex from the rule's document pattern
		re := "^" + regexp.QuoteMeta(rp) + "$"
		re = strings.ReplaceAll(re, `\[\*\]`, `\[(\d+)\]`)
		m := regexp.MustCompile(re).FindStringSubmatch(doc)
		if m == nil {
			continue
		}
		out := r.Asg
		for _, v := range m[1:] {
			out = strings.Replace(out, "[*]", "["+v+"]", 1)
		}
		return out, r.Ty, true
	}
	_ = pat
	_ = idx
	return "", "", false
}

type docLeaf struct {
	path string
	val  string // decimal
	ty   string // u64 | hash
}

// genProofDoc builds a proof document of a seeded shape with a distinct random value at every leaf.

// randHash is a hash value below r: mostly uniform (76-77 decimal digits, what a Poseidon digest looks like), but also every magnitude a decimal
// string can have on its way to an integer - machine-word and float boundaries, powers of ten (a reader with a fast path for short strings),
// and uniform values of a random decimal length.
func randHash(rng *rand.Rand) *big.Int {
	switch rng.Intn(8) {
	case 0:
		p2 := func(k uint) *big.Int { return new(big.Int).Lsh(one, k) }
		p10 := func(k int64) *big.Int { return new(big.Int).Exp(big.NewInt(10), big.NewInt(k), nil) }
		base := []*big.Int{big.NewInt(1), p2(31), p2(32), p2(53), p2(63), p2(64), p2(64), p2(64), p10(19), p10(20), p10(20), p2(127), p2(128), p2(192), p2(253)}[rng.Intn(15)]
		return new(big.Int).Add(base, big.NewInt(int64(rng.Intn(3)-1)))
	case 1:
		digits := 1 + rng.Intn(76)
		lo := new(big.Int).Exp(big.NewInt(10), big.NewInt(int64(digits-1)), nil)
		return new(big.Int).Add(lo, drv.RandBelow(rng, new(big.Int).Mul(lo, big.NewInt(9))))
	case 2:
		// twenty decimal digits: the band between 2^64 and 10^20 exists only there
		lo := new(big.Int).Lsh(one, 64)
		hi := new(big.Int).Exp(big.NewInt(10), big.NewInt(20), nil)
		return new(big.Int).Add(lo, drv.RandBelow(rng, new(big.Int).Sub(hi, lo)))
	}
	return drv.RandBelow(rng, bigR)
}

func genProofDoc(rng *rand.Rand) (map[string]any, []docLeaf) {
	var leaves []docLeaf
	u64 := func(path string) any {
		v := rng.Uint64()
		switch rng.Intn(16) {
		case 0:
			v = ^uint64(0) // 2^64 - 1
		case 1:
			v = 0
		case 2:
			v = bigP.Uint64() // the Goldilocks prime itself: a 64-bit value that is not a canonical element must arrive unchanged
		case 3:
			v = bigP.Uint64() + 1 + uint64(rng.Intn(1<<20))
		case 4:
			v = bigP.Uint64() - 1
		}
		leaves = append(leaves, docLeaf{path, new(big.Int).SetUint64(v).String(), "u64"})
		return json.Number(new(big.Int).SetUint64(v).String())
	}
	hash := func(path string) any {
		v := randHash(rng)
		if rng.Intn(12) == 0 {
			v = new(big.Int).Sub(bigR, one)
		}
		leaves = append(leaves, docLeaf{path, v.String(), "hash"})
		if rng.Intn(10) == 0 {
			return "00" + v.String() // a decimal string with leading zeros is the same number
		}
		return v.String()
	}
	list := func(n int, path string, f func(p string) any) []any {
		out := make([]any, n)
		for i := 0; i < n; i++ {
			out[i] = f(fmt.Sprintf("%s[%d]", path, i))
		}
		return out
	}
	pair := func(p string) any { return list(2, p, u64) }
	// every list of the document has its own length: a reader may not take the length of one list from another (the number of steps of
	// a round from the number of commit-phase caps, a cap's size from another cap's); the consistency of the shape is C20's subject
	capSizes := []int{1, 2, 4, 16}
	capN := func() int { return capSizes[rng.Intn(4)] }
	rounds := rng.Intn(5)
	openings := map[string]any{}
	for _, k := range []string{"constants", "plonk_sigmas", "wires", "plonk_zs", "plonk_zs_next", "partial_products", "quotient_polys"} {
		openings[k] = list(rng.Intn(9), "proof.openings."+k, pair)
	}
	qrs := list(rounds, "proof.opening_proof.query_round_proofs", func(p string) any {
		trees := 1 + rng.Intn(4)
		evs := list(trees, p+".initial_trees_proof.evals_proofs", func(q string) any {
			return []any{list(rng.Intn(12), q+"[0]", u64), map[string]any{"siblings": list(rng.Intn(8), q+"[1].siblings", hash)}}
		})
		sts := list(rng.Intn(5), p+".steps", func(q string) any {
			return map[string]any{"evals": list([]int{2, 4, 16}[rng.Intn(3)], q+".evals", pair),
				"merkle_proof": map[string]any{"siblings": list(rng.Intn(8), q+".merkle_proof.siblings", hash)}}
		})
		return map[string]any{"initial_trees_proof": map[string]any{"evals_proofs": evs}, "steps": sts}
	})
	doc := map[string]any{
		"proof": map[string]any{
			"wires_cap":                     list(capN(), "proof.wires_cap", hash),
			"plonk_zs_partial_products_cap": list(capN(), "proof.plonk_zs_partial_products_cap", hash),
			"quotient_polys_cap":            list(capN(), "proof.quotient_polys_cap", hash),
			"openings":                      openings,
			"opening_proof": map[string]any{
				"commit_phase_merkle_caps": list(rng.Intn(5), "proof.opening_proof.commit_phase_merkle_caps", func(p string) any { return list(capN(), p, hash) }),
				"query_round_proofs":       qrs,
				"final_poly":               map[string]any{"coeffs": list(rng.Intn(9), "proof.opening_proof.final_poly.coeffs", pair)},
				"pow_witness":              u64("proof.opening_proof.pow_witness"),
			},
		},
		"public_inputs": list(rng.Intn(20), "public_inputs", u64),
	}
	return doc, leaves
}

func readProof(path string) (p variables.ProofWithPublicInputs, refused string) {
	defer func() {
		if r := recover(); r != nil {
			refused = fmt.Sprint(r)
		}
	}()
	raw := types.ReadProofWithPublicInputs(path)
	p, _ = variables.DeserializeProofWithPublicInputs(raw)
	return p, ""
}

func readVD(path string) (v variables.VerifierOnlyCircuitData, refused string) {
	defer func() {
		if r := recover(); r != nil {
			refused = fmt.Sprint(r)
		}
	}()
	return variables.DeserializeVerifierOnlyCircuitData(types.ReadVerifierOnlyCircuitData(path)), ""
}

func witnessRefuses(p variables.ProofWithPublicInputs, vd variables.VerifierOnlyCircuitData) (refused string) {
	defer func() {
		if r := recover(); r != nil {
			refused = fmt.Sprint(r)
		}
	}()
	c := &verifier.VerifierCircuit{Proof: p.Proof, PublicInputs: p.PublicInputs, VerifierData: vd}
	if _, err := frontend.NewWitness(c, ecc.BN254.ScalarField()); err != nil {
		return err.Error()
	}
	return ""
}

func leafString(v any) (string, bool) {
	switch t := v.(type) {
	case *big.Int:
		if t == nil {
			return "", false
		}
		return new(big.Int).Mod(t, bigR).String(), true
	case uint64:
		return new(big.Int).SetUint64(t).String(), true
	case nil:
		return "", false
	}
	return fmt.Sprint(v), true
}

func writeJSON(path string, doc any) error {
	b, err := json.Marshal(doc)
	if err != nil {
		return err
	}
	return os.WriteFile(path, b, 0644)
}

// setAt replaces the value at a document leaf path.
func setAt(doc any, path string, v any) bool {
	segs := regexp.MustCompile(`[^.\[\]]+|\[\d+\]`).FindAllString(path, -1)
	cur := doc
	for i, s := range segs {
		last := i == len(segs)-1
		if strings.HasPrefix(s, "[") {
			arr, ok := cur.([]any)
			idx := atoi(s[1 : len(s)-1])
			if !ok || idx >= len(arr) {
				return false
			}
			if last {
				arr[idx] = v
				return true
			}
			cur = arr[idx]
		} else {
			m, ok := cur.(map[string]any)
			if !ok {
				return false
			}
			if last {
				m[s] = v
				return true
			}
			cur = m[s]
		}
	}
	return false
}

func c19(raw json.RawMessage, resp *drv.Response) error {
	var req c19Req
	if err := json.Unmarshal(raw, &req); err != nil {
		return err
	}
	b, err := os.ReadFile(req.Rules)
	if err != nil {
		return err
	}
	var rules struct{ Proof, Vd, Cd []deserRule }
	if err := json.Unmarshal(b, &rules); err != nil {
		return err
	}
	rng := drv.Rng(int64(1900 + req.Shard))
	tmp := fmt.Sprintf("%s/c19-%d", drv.Tmp(), req.Shard)
	// a well-formed verifier-data document for witness creation
	vdDoc := map[string]any{"constants_sigmas_cap": []any{"1", "2"}, "circuit_digest": "3"}
	vdPath := tmp + "-vd.json"
	writeJSON(vdPath, vdDoc)
	goodVD, _ := readVD(vdPath)
	for d := 0; d < req.NDocs; d++ {
		doc, leaves := genProofDoc(rng)
		path := fmt.Sprintf("%s-doc%d.json", tmp, d)
		if err := writeJSON(path, doc); err != nil {
			return err
		}
		p, refused := readProof(path)
		resp.Count(fmt.Sprintf("doc/%d/%d/%d", req.Shard, d, len(leaves)), false)
		if refused != "" {
			resp.Violate("c19/faithful/refused-wellformed", fmt.Sprintf("a well-formed document (%d leaves) is refused: %s", len(leaves), refused), map[string]any{"doc": d})
			continue
		}
		asg := map[string]string{}
		nAsg := 0
		for _, lf := range data.Walk(&p) {
			nAsg++
			asg[lf.Path] = lf.Get().String()
		}
		bad := false
		for _, dl := range leaves {
			ap, _, ok := mapPath(rules.Proof, dl.path)
			if !ok {
				return fmt.Errorf("Deser.tla has no rule for document leaf %s", dl.path)
			}
			got, has := asg[ap]
			if !has || got != dl.val {
				if !bad {
					resp.Violate("c19/faithful/wrong class="+classOf(ap), fmt.Sprintf("document leaf %s = %s should appear at %s, found %q (present=%v)", dl.path, dl.val, ap, got, has), map[string]any{"doc": d, "leaf": dl.path})
				}
				bad = true
			}
		}
		if nAsg != len(leaves) && !bad {
			resp.Violate("c19/faithful/count", fmt.Sprintf("the document has %d leaves, the assignment %d (dropped or duplicated elements)", len(leaves), nAsg), map[string]any{"doc": d})
		}
		if len(resp.Samples) < 2 {
			resp.Sample(map[string]any{"document_leaves": len(leaves), "assignment_leaves": nAsg, "example": leaves[len(leaves)/2]})
		}
		// single-value corruptions of this document
		for c := 0; c < req.NCorr && len(leaves) > 0; c++ {
			dl := leaves[rng.Intn(len(leaves))]
			var variants []any
			if dl.ty == "u64" {
				variants = []any{"abc", json.Number("-1"), json.Number("18446744073709551616"), json.Number("1.5"), []any{json.Number("1")}, "12", map[string]any{"a": 1}, true}
			} else {
				variants = []any{"abc", "0x1f", " 12", "", "12 ", "1e3", json.Number("12"), []any{"1"}, "١٢"}
			}
			v := variants[rng.Intn(len(variants))]
			var doc2 map[string]any
			bb, _ := json.Marshal(doc)
			dec := json.NewDecoder(strings.NewReader(string(bb)))
			dec.UseNumber()
			dec.Decode(&doc2)
			if !setAt(doc2, dl.path, v) {
				return fmt.Errorf("cannot set %s", dl.path)
			}
			p2path := fmt.Sprintf("%s-corr.json", tmp)
			writeJSON(p2path, doc2)
			vb, _ := json.Marshal(v)
			resp.Count(fmt.Sprintf("corrupt/%s/%s", dl.path, vb), false)
			p2, refused := readProof(p2path)
			stage := "read"
			if refused == "" {
				refused = witnessRefuses(p2, goodVD)
				stage = "witness"
			}
			if refused == "" {
				ap, _, _ := mapPath(rules.Proof, dl.path)
				got := ""
				for _, lf := range data.Walk(&p2) {
					if lf.Path == ap {
						got = lf.Get().String()
					}
				}
				resp.Violate(fmt.Sprintf("c19/malformed/accepted type=%s variant=%s", dl.ty, strings.Trim(string(vb), `"`)),
					fmt.Sprintf("document leaf %s set to %s is neither refused at reading nor at witness creation; the assignment holds %q", dl.path, vb, got), map[string]any{"leaf": dl.path, "variant": string(vb)})
			} else if len(resp.Samples) < 5 {
				resp.Sample(map[string]any{"leaf": dl.path, "malformed": string(vb), "refused_at": stage})
			}
		}
		// every malformed variant at one leaf of every class (the seeded loop above may never pair a rare class with a rare variant)
		if d == 0 {
			seenCls := map[string]bool{}
			for _, dl := range leaves {
				ap, _, _ := mapPath(rules.Proof, dl.path)
				cls := classOf(ap)
				if seenCls[cls] {
					continue
				}
				seenCls[cls] = true
				var variants []any
				if dl.ty == "u64" {
					variants = []any{"abc", json.Number("-1"), json.Number("18446744073709551616"), json.Number("1.5"), "12"}
				} else {
					variants = []any{"abc", "0x1f", "0b101", "0o17", "1_000", " 12", "", "1e3", json.Number("12")}
				}
				for _, v := range variants {
					var doc2 map[string]any
					bb, _ := json.Marshal(doc)
					dec := json.NewDecoder(strings.NewReader(string(bb)))
					dec.UseNumber()
					dec.Decode(&doc2)
					if !setAt(doc2, dl.path, v) {
						return fmt.Errorf("cannot set %s", dl.path)
					}
					p2path := fmt.Sprintf("%s-corr2.json", tmp)
					writeJSON(p2path, doc2)
					vb, _ := json.Marshal(v)
					resp.Count(fmt.Sprintf("corrupt-class/%s/%s", cls, vb), false)
					p2, refused := readProof(p2path)
					if refused == "" {
						refused = witnessRefuses(p2, goodVD)
					}
					if refused == "" {
						resp.Violate(fmt.Sprintf("c19/malformed/accepted type=%s variant=%s", dl.ty, strings.Trim(string(vb), `"`)),
							fmt.Sprintf("document leaf %s (class %s) set to %s is neither refused at reading nor at witness creation", dl.path, cls, vb), map[string]any{"leaf": dl.path, "variant": string(vb)})
					}
					os.Remove(p2path)
				}
			}
		}
		// two documents that differ in one verified field give different assignments - also when the second is read after the first in
		// the same process (a reader that remembers anything about an earlier document would return the earlier value)
		for c := 0; c < 3 && len(leaves) > 0; c++ {
			dl := leaves[rng.Intn(len(leaves))]
			old, _ := new(big.Int).SetString(dl.val, 10)
			nv := new(big.Int).Add(old, one)
			var jv any = nv.String()
			if dl.ty == "u64" {
				nv.Mod(nv, two64)
				jv = json.Number(nv.String())
			} else {
				nv.Mod(nv, bigR)
				jv = nv.String()
			}
			var doc2 map[string]any
			bb, _ := json.Marshal(doc)
			dec := json.NewDecoder(strings.NewReader(string(bb)))
			dec.UseNumber()
			dec.Decode(&doc2)
			if !setAt(doc2, dl.path, jv) {
				return fmt.Errorf("cannot set %s", dl.path)
			}
			p2path := fmt.Sprintf("%s-diff.json", tmp)
			writeJSON(p2path, doc2)
			resp.Count(fmt.Sprintf("differ/%s/%s", dl.path, nv), false)
			p2, refused := readProof(p2path)
			if refused != "" {
				resp.Violate("c19/faithful/refused-wellformed", "a well-formed document is refused: "+refused, nil)
				continue
			}
			ap, _, _ := mapPath(rules.Proof, dl.path)
			for _, lf := range data.Walk(&p2) {
				if lf.Path == ap && lf.Get().String() != nv.String() {
					resp.Violate("c19/differ/same-assignment class="+classOf(ap), fmt.Sprintf("a second document differing from the previous one only in %s (%s -> %s) is read with %s at %s", dl.path, dl.val, nv, lf.Get(), ap), map[string]any{"leaf": dl.path})
				}
			}
			os.Remove(p2path)
		}
		os.Remove(path)
	}
	// scalars where lists are expected
	for _, k := range []string{"wires_cap", "openings.wires", "opening_proof.query_round_proofs", "opening_proof.final_poly.coeffs"} {
		doc, _ := genProofDoc(rng)
		setAt(doc, "proof."+k, json.Number("5"))
		pth := tmp + "-scalar.json"
		writeJSON(pth, doc)
		_, refused := readProof(pth)
		resp.Count("scalar-for-list/"+k, false)
		if refused == "" {
			resp.Violate("c19/malformed/accepted type=list variant=scalar", "a scalar for the list proof."+k+" is accepted", map[string]any{"list": k})
		}
	}
	// verifier-only data
	for d := 0; d < 3; d++ {
		n := []int{1, 4, 16}[d]
		caps := make([]any, n)
		want := map[string]string{}
		for i := range caps {
			v := randHash(rng)
			caps[i] = v.String()
			want[fmt.Sprintf("ConstantSigmasCap[%d]", i)] = v.String()
		}
		dg := randHash(rng)
		want["CircuitDigest"] = dg.String()
		writeJSON(vdPath, map[string]any{"constants_sigmas_cap": caps, "circuit_digest": dg.String()})
		vd, refused := readVD(vdPath)
		resp.Count(fmt.Sprintf("vd/%d/%s", n, dg), false)
		if refused != "" {
			resp.Violate("c19/faithful/refused-wellformed", "verifier data refused: "+refused, nil)
			continue
		}
		for _, lf := range data.Walk(&vd) {
			if want[lf.Path] != lf.Get().String() {
				resp.Violate("c19/faithful/wrong class=VD", fmt.Sprintf("verifier data leaf %s: %s != %s", lf.Path, lf.Get(), want[lf.Path]), nil)
			}
			delete(want, lf.Path)
		}
		if len(want) != 0 {
			resp.Violate("c19/faithful/count", fmt.Sprintf("verifier data leaves missing: %v", want), nil)
		}
	}
	// verifier keys read one after the other that share the digest (or the commitment) and differ elsewhere
	for d := 0; d < 4; d++ {
		mk := func() ([]any, []string) {
			caps, ss := make([]any, 16), make([]string, 16)
			for i := range caps {
				ss[i] = randHash(rng).String()
				caps[i] = ss[i]
			}
			return caps, ss
		}
		capsA, _ := mk()
		capsB, sB := mk()
		dgA, dgB := randHash(rng).String(), randHash(rng).String()
		type kd struct {
			caps []any
			want []string
			dg   string
		}
		_, sA := capsA, func() []string {
			o := make([]string, 16)
			for i := range o {
				o[i] = capsA[i].(string)
			}
			return o
		}()
		seq := []kd{{capsA, sA, dgA}, {capsB, sB, dgA}, {capsB, sB, dgB}, {capsA, sA, dgB}}
		if d%2 == 1 { // one entry changed only
			one16 := append([]any{}, capsA...)
			w := append([]string{}, sA...)
			j := rng.Intn(16)
			w[j] = randHash(rng).String()
			one16[j] = w[j]
			seq = []kd{{capsA, sA, dgA}, {one16, w, dgA}}
		}
		for si, k := range seq {
			writeJSON(vdPath, map[string]any{"constants_sigmas_cap": k.caps, "circuit_digest": k.dg})
			vd, refused := readVD(vdPath)
			resp.Count(fmt.Sprintf("vdseq/%d/%d/%s", d, si, k.dg), false)
			if refused != "" {
				resp.Violate("c19/faithful/refused-wellformed", "verifier data refused: "+refused, nil)
				continue
			}
			for _, lf := range data.Walk(&vd) {
				want := k.dg
				var i int
				if n, _ := fmt.Sscanf(lf.Path, "ConstantSigmasCap[%d]", &i); n == 1 {
					want = k.want[i]
				}
				if lf.Get().String() != want {
					resp.Violate("c19/differ/same-assignment class=VD", fmt.Sprintf("verifier key %d of a sequence read in one process (same digest or same commitment as an earlier key, different elsewhere): leaf %s is %s, the document says %s", si, lf.Path, lf.Get(), want), nil)
					break
				}
			}
		}
	}
	for _, v := range []any{"abc", "0x1f", "", json.Number("7")} {
		writeJSON(vdPath, map[string]any{"constants_sigmas_cap": []any{"1", "2"}, "circuit_digest": v})
		vd, refused := readVD(vdPath)
		if refused == "" {
			refused = witnessRefusesVD(vd)
		}
		vb, _ := json.Marshal(v)
		resp.Count("vd-corrupt/"+string(vb), false)
		if refused == "" {
			resp.Violate("c19/malformed/accepted type=hash variant="+strings.Trim(string(vb), `"`), "malformed circuit_digest "+string(vb)+" accepted", nil)
		}
	}
	os.Remove(vdPath)
	return c19Common(rules.Cd, rng, tmp, resp)
}

func witnessRefusesVD(vd variables.VerifierOnlyCircuitData) (refused string) {
	defer func() {
		if r := recover(); r != nil {
			refused = fmt.Sprint(r)
		}
	}()
	c := &verifier.VerifierCircuit{VerifierData: vd}
	if _, err := frontend.NewWitness(c, ecc.BN254.ScalarField()); err != nil {
		return err.Error()
	}
	return ""
}

// c19Common: common circuit data, field by field.
func c19Common(rules []deserRule, rng *rand.Rand, tmp string, resp *drv.Response) error {
	for d := 0; d < 3; d++ {
		doc := map[string]any{}
		want := map[string]string{}
		nlist := 1 + rng.Intn(6)
		set := func(path string, v any) {
			segs := strings.Split(path, ".")
			cur := doc
			for _, s := range segs[:len(segs)-1] {
				nx, ok := cur[s].(map[string]any)
				if !ok {
					nx = map[string]any{}
					cur[s] = nx
				}
				cur = nx
			}
			cur[segs[len(segs)-1]] = v
		}
		set("fri_params.hiding", false)
		set("fri_params.config.reduction_strategy", map[string]any{"ConstantArityBits": []any{4, 5}})
		set("config.fri_config.reduction_strategy", map[string]any{"ConstantArityBits": []any{4, 5}})
		groups := make([]any, nlist)
		for i := range groups {
			groups[i] = map[string]any{}
		}
		set("selectors_info.groups", groups)
		for _, r := range rules {
			if !strings.Contains(r.Doc, "[*]") {
				var v any
				var s string
				switch r.Ty {
				case "bool":
					bv := rng.Intn(2) == 1
					if prev, ok := want[r.Asg]; ok {
						bv = prev == "true"
					}
					v, s = bv, fmt.Sprint(bv)
				default:
					x := rng.Uint64()
					v, s = json.Number(fmt.Sprint(x)), fmt.Sprint(x)
				}
				// two rules may read the same document field (degree_bits): keep one value
				if prev := docGet(doc, r.Doc); prev != nil {
					s = fmt.Sprint(prev)
				} else {
					set(r.Doc, v)
				}
				want[r.Asg] = s
				continue
			}
			base := strings.Split(r.Doc, "[*]")
			for i := 0; i < nlist; i++ {
				var v any
				var s string
				if r.Ty == "string" {
					s = fmt.Sprintf("NoopGate%d", rng.Intn(1000))
					v = s
				} else {
					x := rng.Uint64()
					v, s = json.Number(fmt.Sprint(x)), fmt.Sprint(x)
				}
				want[strings.Replace(r.Asg, "[*]", fmt.Sprintf("[%d]", i), 1)] = s
				if base[1] == "" { // plain list
					lst, _ := docGet(doc, base[0]).([]any)
					lst = append(lst, v)
					set(base[0], lst)
				} else { // list of objects
					groups[i].(map[string]any)[strings.TrimPrefix(base[1], ".")] = v
				}
			}
		}
		pth := tmp + "-cd.json"
		writeJSON(pth, doc)
		var cd types.CommonCircuitData
		refused := func() (r string) {
			defer func() {
				if e := recover(); e != nil {
					r = fmt.Sprint(e)
				}
			}()
			cd = types.ReadCommonCircuitData(pth)
			return ""
		}()
		resp.Count(fmt.Sprintf("cd/%d/%d", d, len(want)), false)
		if refused != "" {
			resp.Violate("c19/faithful/refused-wellformed", "common circuit data refused: "+refused, nil)
			continue
		}
		si, ss, se := gates.VerifSelectorsInfo(cd.SelectorsInfo)
		for asg, w := range want {
			var got string
			if strings.HasPrefix(asg, "sel:") {
				var i int
				name := asg[4:strings.Index(asg, "[")]
				fmt.Sscanf(asg[strings.Index(asg, "["):], "[%d]", &i)
				lst := map[string][]uint64{"indices": si, "starts": ss, "ends": se}[name]
				if i < len(lst) {
					got = fmt.Sprint(lst[i])
				}
			} else {
				got = fieldByPath(reflect.ValueOf(cd), asg)
			}
			if got != w {
				resp.Violate("c19/faithful/wrong class=CommonCircuitData."+reIndex.ReplaceAllString(asg, "[]"), fmt.Sprintf("common data field %s: document %s, structure %q", asg, w, got), map[string]any{"field": asg})
			}
		}
		os.Remove(pth)
	}
	return nil
}

func docGet(doc map[string]any, path string) any {
	var cur any = doc
	for _, s := range strings.Split(path, ".") {
		m, ok := cur.(map[string]any)
		if !ok {
			return nil
		}
		cur = m[s]
	}
	return cur
}

func fieldByPath(v reflect.Value, path string) string {
	for _, seg := range strings.Split(path, ".") {
		name := seg
		idx := -1
		if i := strings.Index(seg, "["); i >= 0 {
			name = seg[:i]
			fmt.Sscanf(seg[i:], "[%d]", &idx)
		}
		v = v.FieldByName(name)
		if !v.IsValid() {
			return "<no field " + name + ">"
		}
		if idx >= 0 {
			if idx >= v.Len() {
				return "<short>"
			}
			v = v.Index(idx)
		}
	}
	return fmt.Sprint(v.Interface())
}
