package drivers

import (
	"encoding/json"
	"fmt"
	"math/big"
	"math/rand"
	"os"
	"strings"

	"github.com/consensys/gnark/frontend"
	gl "github.com/wormhole-foundation/example-near-light-client/goldilocks"
	"github.com/wormhole-foundation/example-near-light-client/plonk/gates"
	"github.com/wormhole-foundation/example-near-light-client/poseidon"
	"verifharness/drv"
	"verifharness/engine"
	"verifharness/gf"
	"verifharness/hc"
	"verifharness/ref"
	"verifharness/terms"
)

type gateSpec struct {
	Kind  string        `json:"kind"`
	P     []int         `json:"p"`
	Terms []*terms.Term `json:"terms"`
}

type layoutSpec struct {
	Gates  []gateSpec    `json:"gates"`
	Sel    []int         `json:"sel"`
	Groups [][]int       `json:"groups"`
	NSel   int           `json:"nsel"`
	NCons  int           `json:"ncons"`
	Terms  []*terms.Term `json:"terms"`
}

type c15Req struct {
	oracleFiles
	Terms   string `json:"terms"`
	Part    string `json:"part"` // gates | layouts | poseidon
	NRandom int    `json:"nrandom"`
	Shard   int    `json:"shard"`
	NShards int    `json:"nshards"`
	Reverse bool   `json:"reverse"` // gates: evaluate the list in reverse order
}

func init() { drv.Register("c15", c15) }

const phantom = "_phantom: PhantomData<plonky2_field::goldilocks_field::GoldilocksField>"

// gateID renders the plonky2 Debug identifier of a gate (GateId.tla's formats); weights are needed for the coset gate.
func gateID(g gateSpec, weights []*big.Int) string {
	p := g.P
	switch g.Kind {
	case "ArithmeticGate", "ArithmeticExtensionGate", "MulExtensionGate":
		return fmt.Sprintf("%s { num_ops: %d }", g.Kind, p[0])
	case "BaseSumGate":
		return fmt.Sprintf("BaseSumGate { num_limbs: %d } + Base: %d", p[0], p[1])
	case "ConstantGate":
		return fmt.Sprintf("ConstantGate { num_consts: %d }", p[0])
	case "PublicInputGate", "NoopGate":
		return g.Kind
	case "ExponentiationGate":
		return fmt.Sprintf("ExponentiationGate { num_power_bits: %d, %s }<D=2>", p[0], phantom)
	case "RandomAccessGate":
		return fmt.Sprintf("RandomAccessGate { bits: %d, num_copies: %d, num_extra_constants: %d, %s }<D=2>", p[0], p[1], p[2], phantom)
	case "ReducingGate", "ReducingExtensionGate":
		return fmt.Sprintf("%s { num_coeffs: %d }", g.Kind, p[0])
	case "PoseidonMdsGate":
		return "PoseidonMdsGate(PhantomData<plonky2_field::goldilocks_field::GoldilocksField>)<WIDTH=12>"
	case "PoseidonGate":
		return "PoseidonGate(PhantomData<plonky2_field::goldilocks_field::GoldilocksField>)<WIDTH=12>"
	case "CosetInterpolationGate":
		ws := []string{}
		for _, w := range weights {
			ws = append(ws, w.String())
		}
		return fmt.Sprintf("CosetInterpolationGate { subgroup_bits: %d, degree: %d, barycentric_weights: [%s], %s }<D=2>", p[0], p[1], strings.Join(ws, ", "), phantom)
	}
	panic("gateID: " + g.Kind)
}

type rowData struct {
	wires, consts []gf.E
	pih           []*big.Int
}

func randRow(rng *rand.Rand, nw, nc int) rowData {
	r := rowData{}
	for i := 0; i < nw; i++ {
		r.wires = append(r.wires, randE(rng))
	}
	for i := 0; i < nc; i++ {
		r.consts = append(r.consts, randE(rng))
	}
	for i := 0; i < 4; i++ {
		r.pih = append(r.pih, drv.RandBelow(rng, bigP))
	}
	return r
}

func (r rowData) flat() []*big.Int {
	var in []*big.Int
	for _, e := range r.wires {
		in = append(in, e[0], e[1])
	}
	for _, e := range r.consts {
		in = append(in, e[0], e[1])
	}
	return append(in, r.pih...)
}

func (r rowData) vars(iv []frontend.Variable) *gates.EvaluationVars {
	ws := make([]gl.QuadraticExtensionVariable, len(r.wires))
	for i := range ws {
		ws[i] = qe(iv, 2*i)
	}
	cs := make([]gl.QuadraticExtensionVariable, len(r.consts))
	for i := range cs {
		cs[i] = qe(iv, 2*len(r.wires)+2*i)
	}
	p := 2*len(r.wires) + 2*len(r.consts)
	h := poseidon.GoldilocksHashOut{gl.NewVariable(iv[p]), gl.NewVariable(iv[p+1]), gl.NewVariable(iv[p+2]), gl.NewVariable(iv[p+3])}
	return gates.NewEvaluationVars(cs, ws, h)
}

func (r rowData) env(prefixC string) terms.Env {
	e := terms.Env{}
	for i, w := range r.wires {
		e[fmt.Sprintf("w_%d", i)] = w
	}
	for i, c := range r.consts {
		e[fmt.Sprintf("c_%d", i)] = c
	}
	for i, p := range r.pih {
		e[fmt.Sprintf("pi_%d", i)] = gf.EB(p)
	}
	return e
}

func evalGateReal(id string, r rowData) (out []gf.E, msg string) {
	defer func() {
		if x := recover(); x != nil {
			msg = fmt.Sprint(x)
		}
	}()
	err := hc.Run(&engine.Config{Mode: engine.Native}, r.flat(), func(api frontend.API, iv []frontend.Variable) error {
		g := gates.GateInstanceFromId(id)
		for _, c := range g.EvalUnfiltered(api, gl.New(api), *r.vars(iv)) {
			out = append(out, getE(c))
		}
		return nil
	})
	if err != nil {
		return nil, firstLine(err)
	}
	return out, ""
}

func c15(raw json.RawMessage, resp *drv.Response) error {
	var req c15Req
	if err := json.Unmarshal(raw, &req); err != nil {
		return err
	}
	rng := drv.Rng(int64(1500 + req.Shard))
	if req.Part == "poseidon" {
		return c15Poseidon(req, resp, rng)
	}
	b, err := os.ReadFile(req.Terms)
	if err != nil {
		return err
	}
	var doc struct {
		Gates   []gateSpec   `json:"gates"`
		Layouts []layoutSpec `json:"layouts"`
	}
	if err := json.Unmarshal(b, &doc); err != nil {
		return err
	}
	switch req.Part {
	case "gates":
		order := make([]int, len(doc.Gates))
		for i := range order {
			order[i] = i
			if req.Reverse { // the value of a gate's constraints does not depend on which gates the process evaluated before
				order[i] = len(doc.Gates) - 1 - i
			}
		}
		for _, gi := range order {
			g := doc.Gates[gi]
			if req.NShards > 0 && gi%req.NShards != req.Shard {
				continue
			}
			for rep := 0; rep < 1+req.NRandom; rep++ {
				row := randRow(rng, 150, 4)
				env := row.env("")
				var weights []*big.Int
				if g.Kind == "CosetInterpolationGate" {
					for j := 0; j < 1<<uint(g.P[0]); j++ {
						w := drv.RandBelow(rng, bigP)
						weights = append(weights, w)
						env[fmt.Sprintf("bw_%d", j)] = gf.EB(w)
					}
				}
				if rep == 1 { // structured row: small digits everywhere (hits the digit/boolean constraints' zeros)
					for i := range row.wires {
						row.wires[i] = gf.E{big.NewInt(int64(rng.Intn(2))), big.NewInt(0)}
						env[fmt.Sprintf("w_%d", i)] = row.wires[i]
					}
				}
				id := gateID(g, weights)
				got, msg := evalGateReal(id, row)
				resp.Count(fmt.Sprintf("gate/%s/%v/%d/%s", g.Kind, g.P, rep, estr(row.wires[0])), false)
				if msg != "" {
					resp.Violate("c15/gate/failed gate="+g.Kind, fmt.Sprintf("%s: %s", id, msg), map[string]any{"kind": g.Kind, "p": g.P})
					continue
				}
				if len(got) != len(g.Terms) {
					resp.Violate("c15/gate/count gate="+g.Kind, fmt.Sprintf("%s: %d constraints in the code, %d in plonky2's definition", id, len(got), len(g.Terms)), map[string]any{"kind": g.Kind, "p": g.P})
					continue
				}
				for k, t := range g.Terms {
					want, _ := terms.Eval(t, env)
					if !got[k].Eq(want) {
						resp.Violate("c15/gate/wrong gate="+g.Kind, fmt.Sprintf("%s constraint %d: code %s, definition %s", id, k, estr(got[k]), estr(want)), map[string]any{"kind": g.Kind, "p": g.P, "constraint": k})
						break
					}
				}
				if len(resp.Samples) < 3 {
					resp.Sample(map[string]any{"gate": id[:min(len(id), 80)], "constraints": len(got)})
				}
			}
		}
	case "layouts":
		for li, l := range doc.Layouts {
			if req.NShards > 0 && li%req.NShards != req.Shard {
				continue
			}
			for rep := 0; rep < 1+req.NRandom; rep++ {
				row := randRow(rng, 150, 6)
				// selector values: the row's own index, another row of the group, the unused marker, or random
				for s := 0; s < l.NSel; s++ {
					switch rng.Intn(4) {
					case 0:
						row.consts[s] = gf.E{big.NewInt(int64(l.Groups[s][0] + rng.Intn(l.Groups[s][1]-l.Groups[s][0]))), big.NewInt(0)}
					case 1:
						row.consts[s] = gf.E{new(big.Int).SetUint64(4294967295), big.NewInt(0)}
					}
				}
				env := row.env("")
				for a := 0; a <= l.NSel; a++ {
					for k := 0; a+k < len(row.consts); k++ {
						env[fmt.Sprintf("lc_%d+%d", a, k)] = row.consts[a+k]
					}
				}
				var got []gf.E
				msg := ""
				func() {
					defer func() {
						if x := recover(); x != nil {
							msg = fmt.Sprint(x)
						}
					}()
					// every second repetition: the same chip has evaluated another row (other selector and wire values) before
					row0 := randRow(rng, 150, 6)
					in := row.flat()
					if rep%2 == 1 {
						in = append(in, row0.flat()...)
					}
					err := hc.Run(&engine.Config{Mode: engine.Native}, in, func(api frontend.API, iv []frontend.Variable) error {
						var gs []gates.Gate
						for _, g := range l.Gates {
							gs = append(gs, gates.GateInstanceFromId(gateID(g, nil)))
						}
						var si, st, en []uint64
						for _, x := range l.Sel {
							si = append(si, uint64(x))
						}
						for _, g := range l.Groups {
							st, en = append(st, uint64(g[0])), append(en, uint64(g[1]))
						}
						chip := gates.NewEvaluateGatesChip(api, gs, uint64(l.NCons), *gates.NewSelectorsInfo(si, st, en))
						if rep%2 == 1 {
							chip.EvaluateGateConstraints(*row0.vars(iv[len(row.flat()):]))
						}
						for _, c := range chip.EvaluateGateConstraints(*row.vars(iv)) {
							got = append(got, getE(c))
						}
						return nil
					})
					if err != nil {
						msg = firstLine(err)
					}
				}()
				resp.Count(fmt.Sprintf("layout/%d/%d/%s", li, rep, estr(row.consts[0])), false)
				if msg != "" || len(got) != len(l.Terms) {
					resp.Violate("c15/combined/failed", fmt.Sprintf("layout %d: %s (%d vs %d constraints)", li, msg, len(got), len(l.Terms)), map[string]any{"layout": li})
					continue
				}
				for k, t := range l.Terms {
					want, _ := terms.Eval(t, env)
					if !got[k].Eq(want) {
						resp.Violate("c15/combined/wrong", fmt.Sprintf("layout %d (selectors %v groups %v) position %d: code %s, definition %s", li, l.Sel, l.Groups, k, estr(got[k]), estr(want)), map[string]any{"layout": li})
						break
					}
				}
			}
		}
	default:
		return fmt.Errorf("unknown part %q", req.Part)
	}
	return nil
}

// ---- Poseidon gate: rows built from the reference permutation vanish; structure ---------------------------------------

func c15Poseidon(req c15Req, resp *drv.Response, rng *rand.Rand) error {
	o, err := loadOracle(req.oracleFiles)
	if err != nil {
		return err
	}
	id := gateID(gateSpec{Kind: "PoseidonGate"}, nil)
	for rep := 0; rep < 2+req.NRandom; rep++ {
		swap := rep % 2
		in := make([]*big.Int, 12)
		for i := range in {
			in[i] = drv.RandBelow(rng, bigP)
		}
		row := honestPoseidonRow(o, in, swap)
		got, msg := evalGateReal(id, row)
		resp.Count(fmt.Sprintf("poseidon/honest/%d/%v", swap, in[0]), false)
		if msg != "" {
			resp.Violate("c15/poseidon/failed", msg, nil)
			continue
		}
		if len(got) != 123 {
			resp.Violate("c15/poseidon/count", fmt.Sprintf("%d constraints, plonky2 has 123", len(got)), nil)
			continue
		}
		for k, v := range got {
			if !v.IsZero() {
				resp.Violate("c15/poseidon/honest-row-nonzero", fmt.Sprintf("constraint %d does not vanish on a row generated from the reference permutation (swap=%d): %s", k, swap, estr(v)), map[string]any{"constraint": k, "swap": swap})
				break
			}
		}
		// structure: every wire matters, and an output wire touches exactly its own constraint
		for t := 0; t < 12; t++ {
			w := rng.Intn(135)
			if t < 3 {
				w = 12 + rng.Intn(12)
			}
			r2 := rowData{wires: append([]gf.E{}, row.wires...), consts: row.consts, pih: row.pih}
			r2.wires[w] = gf.E{gf.Add(r2.wires[w][0], one), r2.wires[w][1]}
			g2, msg2 := evalGateReal(id, r2)
			resp.Count(fmt.Sprintf("poseidon/perturb/%d/%d/%v", w, swap, in[0]), false)
			if msg2 != "" {
				continue
			}
			var changed []int
			for k := range g2 {
				if !g2[k].IsZero() {
					changed = append(changed, k)
				}
			}
			if len(changed) == 0 {
				resp.Violate("c15/poseidon/wire-ignored", fmt.Sprintf("changing wire %d of an honest row leaves all 123 constraints zero", w), map[string]any{"wire": w})
			}
			if w >= 12 && w < 24 && !(len(changed) == 1 && changed[0] == 111+(w-12)) {
				resp.Violate("c15/poseidon/output-structure", fmt.Sprintf("output wire %d changes constraints %v instead of exactly %d", w, changed, 111+(w-12)), map[string]any{"wire": w})
			}
		}
	}
	return nil
}

// honestPoseidonRow: inputs, swap, deltas, the S-box inputs of the reference permutation (PoseidonGl schedule), outputs.
func honestPoseidonRow(o *ref.Oracle, in []*big.Int, swap int) rowData {
	wires := make([]gf.E, 135)
	for i := range wires {
		wires[i] = gf.E0()
	}
	st := make([]*big.Int, 12)
	copy(st, in)
	for i := 0; i < 12; i++ {
		wires[i] = gf.EB(in[i])
	}
	wires[24] = gf.EB(big.NewInt(int64(swap)))
	for i := 0; i < 4; i++ {
		d := big.NewInt(0)
		if swap == 1 {
			d = gf.Sub(in[i+4], in[i])
			st[i], st[i+4] = in[i+4], in[i]
		}
		wires[25+i] = gf.EB(d)
	}
	// run the schedule, recording the state before every S-box layer
	round := 0
	for _, op := range o.GlSched {
		switch op.Op {
		case "ARK":
			for i := 0; i < 12; i++ {
				st[i] = gf.Add(st[i], o.GlRC[op.Base+i])
			}
		case "SBOX_FULL":
			if round >= 1 && round <= 3 {
				for i := 0; i < 12; i++ {
					wires[29+(round-1)*12+i] = gf.EB(st[i])
				}
			}
			if round >= 26 {
				for i := 0; i < 12; i++ {
					wires[87+(round-26)*12+i] = gf.EB(st[i])
				}
			}
			for i := 0; i < 12; i++ {
				st[i] = gf.ExpU(st[i], 7)
			}
		case "SBOX_FIRST":
			wires[65+(round-4)] = gf.EB(st[0])
			st[0] = gf.ExpU(st[0], 7)
		case "MDS":
			out := make([]*big.Int, 12)
			for r := 0; r < 12; r++ {
				acc := new(big.Int)
				for i := 0; i < 12; i++ {
					acc.Add(acc, new(big.Int).Mul(st[(i+r)%12], o.GlCirc[i]))
				}
				acc.Add(acc, new(big.Int).Mul(st[r], o.GlDiag[r]))
				out[r] = gf.Mod(acc)
			}
			st = out
			round++
		}
	}
	for i := 0; i < 12; i++ {
		wires[12+i] = gf.EB(st[i])
	}
	return rowData{wires: wires, consts: []gf.E{gf.E0(), gf.E0()}, pih: []*big.Int{big.NewInt(0), big.NewInt(0), big.NewInt(0), big.NewInt(0)}}
}

var _ = engine.Native
