package drivers

// Plonk twin of artifacts.go (SaveVerifierCircuitPlonk / LoadPlonkVerifierKey / LoadPlonkProverData), generated from it by renaming.

// artifacts: replay of CompileArtifacts.tla behaviours (save / crash / load histories) on a real directory with the repository's
// SaveVerifierCircuitGroth, LoadGroth16VerifierKey and LoadGroth16ProverData.  Beyond the listed properties: mismatches are
// reported under the signature prefix "beyond/" and are turned into leads by the check, never into a violation of a listed property.

import (
	"bytes"
	"encoding/json"
	"fmt"
	"io"
	"os"
	"path/filepath"

	"github.com/consensys/gnark-crypto/ecc"
	"github.com/consensys/gnark/backend/plonk"
	"github.com/consensys/gnark/constraint"
	"github.com/consensys/gnark/frontend"
	"github.com/consensys/gnark/frontend/cs/scs"
	"github.com/consensys/gnark/test"
	"github.com/wormhole-foundation/example-near-light-client/verifier"
	"verifharness/drv"
)

func init() { drv.Register("artifacts_plonk", artifactsPlonk) }

type artGenP struct {
	cs  constraint.ConstraintSystem
	pk  plonk.ProvingKey
	vk  plonk.VerifyingKey
	ref [4][]byte // the bytes a completed save of this generation leaves in the four files
}

// crashing serialisers: the object writes `frac` of its real serialisation and then the process "dies" (panic)
type crashCSP struct {
	constraint.ConstraintSystem
	frac int // 0 nothing, 1 half, 2 everything
}

func (c crashCSP) WriteTo(w io.Writer) (int64, error) {
	var buf bytes.Buffer
	c.ConstraintSystem.WriteTo(&buf)
	w.Write(cut(buf.Bytes(), c.frac))
	panic(crashSignal{})
}

type crashPKP struct {
	plonk.ProvingKey
	frac int
}

func (c crashPKP) WriteRawTo(w io.Writer) (int64, error) {
	var buf bytes.Buffer
	c.ProvingKey.WriteRawTo(&buf)
	w.Write(cut(buf.Bytes(), c.frac))
	panic(crashSignal{})
}

type crashVKP struct {
	plonk.VerifyingKey
	frac int
}

func (c crashVKP) WriteRawTo(w io.Writer) (int64, error) {
	var buf bytes.Buffer
	c.VerifyingKey.WriteRawTo(&buf)
	w.Write(cut(buf.Bytes(), c.frac))
	panic(crashSignal{})
}

var artFilesP = [4]string{"r1cs.bin", "pk.bin", "vk.bin", "PlonkVerifier.sol"}

func artifactsPlonk(raw json.RawMessage, resp *drv.Response) error {
	var req artReq
	if err := json.Unmarshal(raw, &req); err != nil {
		return err
	}
	var cases [][]artEntry
	b, err := os.ReadFile(req.Cases)
	if err != nil {
		return err
	}
	if err := json.Unmarshal(b, &cases); err != nil {
		return err
	}
	if req.Step <= 0 {
		req.Step = 1
	}
	// generations: tiny circuits with g+1 multiplications, honest Groth16 setup each
	gens := map[int]*artGenP{}
	mk := func(g int) (*artGenP, error) {
		if x, ok := gens[g]; ok {
			return x, nil
		}
		cs, err := frontend.Compile(ecc.BN254.ScalarField(), scs.NewBuilder, &genCircuit{N: g + 1})
		if err != nil {
			return nil, err
		}
		srs, err := test.NewKZGSRS(cs)
		if err != nil {
			return nil, err
		}
		pk, vk, err := plonk.Setup(cs, srs)
		if err != nil {
			return nil, err
		}
		a := &artGenP{cs: cs, pk: pk, vk: vk}
		// reference bytes: one complete real save into a scratch directory
		d, err := os.MkdirTemp("", "verif-artp-ref")
		if err != nil {
			return nil, err
		}
		defer os.RemoveAll(d)
		if err := verifier.SaveVerifierCircuitPlonk(d, cs, pk, vk); err != nil {
			return nil, fmt.Errorf("reference save failed: %v", err)
		}
		for i, f := range artFilesP {
			a.ref[i], err = os.ReadFile(filepath.Join(d, f))
			if err != nil {
				return nil, err
			}
			if len(a.ref[i]) < 4 {
				return nil, fmt.Errorf("reference %s of generation %d has %d bytes", f, g, len(a.ref[i]))
			}
		}
		gens[g] = a
		return a, nil
	}
	snapshot := func(dir string) ([]string, error) {
		out := make([]string, 4)
		for i, f := range artFilesP {
			b, err := os.ReadFile(filepath.Join(dir, f))
			if err != nil {
				out[i] = "0absent"
				continue
			}
			st := ""
			for g, a := range gens {
				switch {
				case bytes.Equal(b, a.ref[i]):
					st = fmt.Sprintf("%dok", g)
				case len(b) > 0 && len(b) < len(a.ref[i]) && bytes.Equal(b, a.ref[i][:len(b)]) && st == "":
					st = fmt.Sprintf("%dpartial", g)
				}
			}
			if len(b) == 0 {
				st = "?empty"
			}
			if st == "" {
				st = "?foreign"
			}
			out[i] = st
		}
		return out, nil
	}
	sameDisk := func(model, real []string, n int) bool {
		for i := range model[:n] {
			m, r := model[i], real[i]
			if m == r {
				continue
			}
			// an empty file carries no generation on disk
			if len(m) > 5 && m[len(m)-5:] == "empty" && r == "?empty" {
				continue
			}
			return false
		}
		return true
	}
	save := func(dir string, a *artGenP, file int, sub string) (realised bool, err error) {
		realised = !(file == 4 && sub != "create")
		defer func() {
			if r := recover(); r != nil {
				if _, ok := r.(crashSignal); !ok {
					err = fmt.Errorf("save panicked: %v", r)
				}
			}
		}()
		var cs constraint.ConstraintSystem = a.cs
		var pk plonk.ProvingKey = a.pk
		var vk plonk.VerifyingKey = a.vk
		frac := map[string]int{"write": 0, "mid": 1}
		switch {
		case file == 0: // no crash
		case file == 1 && sub == "create":
			return true, nil // the process died before the first os.Create: Save is not entered
		case sub == "create": // previous file complete, the next not yet created
			switch file {
			case 2:
				cs = crashCSP{a.cs, 2}
			case 3:
				pk = crashPKP{a.pk, 2}
			case 4:
				vk = crashVKP{a.vk, 2}
			}
		case file == 1:
			cs = crashCSP{a.cs, frac[sub]}
		case file == 2:
			pk = crashPKP{a.pk, frac[sub]}
		case file == 3:
			vk = crashVKP{a.vk, frac[sub]}
		case file == 4:
			// the Solidity file is written by one os.Create + one Write with no call-back: an interruption there cannot be produced
			// through the code's own write path; no loader reads that file, so the case is replayed as "died before creating it"
			vk = crashVKP{a.vk, 2}
		}
		e := verifier.SaveVerifierCircuitPlonk(dir, cs, pk, vk)
		return realised, e
	}
	loadVK := func(dir string) (ok bool, g int, note string) {
		defer func() {
			if r := recover(); r != nil {
				ok, g, note = false, 0, fmt.Sprintf("panic: %v", r)
			}
		}()
		vk, err := verifier.LoadPlonkVerifierKey(dir)
		if err != nil {
			return false, 0, firstLine(err)
		}
		var buf bytes.Buffer
		vk.WriteRawTo(&buf)
		for gg, a := range gens {
			if bytes.Equal(buf.Bytes(), a.ref[2]) {
				return true, gg, ""
			}
		}
		return true, -1, "loaded a verifying key that equals no saved generation"
	}
	loadPK := func(dir string) (ok bool, g1, g2 int, note string) {
		defer func() {
			if r := recover(); r != nil {
				ok, g1, g2, note = false, 0, 0, fmt.Sprintf("panic: %v", r)
			}
		}()
		cs, pk, err := verifier.LoadPlonkProverData(dir)
		if err != nil {
			return false, 0, 0, firstLine(err)
		}
		g1, g2 = -1, -1
		var b1, b2 bytes.Buffer
		cs.WriteTo(&b1)
		pk.WriteRawTo(&b2)
		for gg, a := range gens {
			if bytes.Equal(b1.Bytes(), a.ref[0]) {
				g1 = gg
			}
			if bytes.Equal(b2.Bytes(), a.ref[1]) {
				g2 = gg
			}
		}
		return true, g1, g2, ""
	}
	for g := 1; g <= 3; g++ {
		if _, err := mk(g); err != nil {
			return err
		}
	}
	for ci := req.From; ci < len(cases); ci += req.Step {
		h := cases[ci]
		dir, err := os.MkdirTemp("", "verif-artp")
		if err != nil {
			return err
		}
		key, _ := json.Marshal(h)
		realisedAll := true
		bad := func(kind, detail string, i int) {
			resp.Violate("beyond/artifacts-plonk/"+kind, fmt.Sprintf("history %d step %d (%s gen=%d file=%d sub=%s): %s", ci, i, h[i].Op, h[i].Gen, h[i].File, h[i].Sub, detail),
				map[string]any{"history": h})
		}
		for i := 0; i < len(h); i++ {
			e := h[i]
			switch e.Op {
			case "save":
				// the outcome of this save is the next "complete" or "crash" entry of the same generation
				file, sub := 0, ""
				j := i + 1
				for ; j < len(h); j++ {
					if h[j].Gen == e.Gen && (h[j].Op == "crash" || h[j].Op == "complete") {
						if h[j].Op == "crash" {
							file, sub = h[j].File, h[j].Sub
						}
						break
					}
				}
				if j != i+1 {
					os.RemoveAll(dir)
					return fmt.Errorf("history %d: loads inside a save cannot be replayed (emit with LoadsOnlyWhenIdle)", ci)
				}
				a, err := mk(e.Gen)
				if err != nil {
					return err
				}
				realised, err := save(dir, a, file, sub)
				if !realised {
					realisedAll = false
				}
				if err != nil {
					bad("save-error", "Save returned / panicked: "+firstLine(err), i)
				}
				{
					real, _ := snapshot(dir)
					n := 4
					if !realisedAll {
						n = 3 // the Solidity file's interrupted states are not reproduced; the other three files still are
					}
					if !sameDisk(h[j].Disk, real, n) {
						bad("disk", fmt.Sprintf("model directory %v, real directory %v", h[j].Disk, real), j)
					}
				}
				i = j
			case "loadvk":
				ok, g, note := loadVK(dir)
				if ok != (e.File == 1) || (ok && g != e.Gen) {
					bad("loadvk", fmt.Sprintf("model ok=%v gen=%d, LoadGroth16VerifierKey ok=%v gen=%d %s", e.File == 1, e.Gen, ok, g, note), i)
				}
			case "loadpk":
				ok, g1, g2, note := loadPK(dir)
				var mg2 int
				fmt.Sscanf(e.Sub, "%d", &mg2)
				if ok != (e.File == 1) || (ok && (g1 != e.Gen || g2 != mg2)) {
					bad("loadpk", fmt.Sprintf("model ok=%v r1cs gen=%d pk gen=%d, LoadGroth16ProverData ok=%v r1cs gen=%d pk gen=%d %s", e.File == 1, e.Gen, mg2, ok, g1, g2, note), i)
				}
			}
		}
		resp.Count(string(key), !realisedAll)
		if ci%997 == 0 {
			resp.Sample(map[string]any{"history": h})
		}
		os.RemoveAll(dir)
	}
	return nil
}
