package drivers

import (
	"encoding/json"
	"fmt"
	"math/big"
	"math/rand"

	"github.com/consensys/gnark/frontend"
	"github.com/wormhole-foundation/example-near-light-client/fri"
	gl "github.com/wormhole-foundation/example-near-light-client/goldilocks"
	"github.com/wormhole-foundation/example-near-light-client/types"
	"github.com/wormhole-foundation/example-near-light-client/variables"
	"verifharness/drv"
	"verifharness/engine"
	"verifharness/hc"
	"verifharness/ref"
)

type merkleCase struct {
	H      int    `json:"h"`
	Idx    int    `json:"idx"`
	Kind   string `json:"kind"`
	Pos    int    `json:"pos"`
	Expect string `json:"expect"`
	Width  int    `json:"width"` // leaf width (0: seeded)
}

type c12Req struct {
	oracleFiles
	Cases []merkleCase `json:"cases"`
	Shard int          `json:"shard"`
}

func init() { drv.Register("c12", c12) }

const capH = 4

// merkleInstance is a synthetic opening: only the path matters to the verifier, so the siblings are random
// digests and the cap holds the folded digest at the selected entry (any such data is an opening of some tree).
type merkleInstance struct {
	leaf     []*big.Int
	siblings []*big.Int
	bits     []int // all H index bits, LSB first
	capBits  []int
	cap      []*big.Int
}

func buildMerkle(o *ref.Oracle, c merkleCase, rng *rand.Rand) merkleInstance {
	w := c.Width
	if w == 0 {
		w = []int{1, 2, 3, 4, 7, 8, 9, 10, 27, 85, 135, 140}[rng.Intn(12)]
	}
	m := merkleInstance{}
	for i := 0; i < w; i++ {
		m.leaf = append(m.leaf, drv.RandBelow(rng, bigP))
	}
	nsib := c.H - capH
	for i := 0; i < c.H; i++ {
		m.bits = append(m.bits, (c.Idx>>uint(i))&1)
	}
	capIdx := c.Idx >> uint(nsib)
	cur := o.BnHashOrNoop(m.leaf)
	for i := 0; i < nsib; i++ {
		s := drv.RandBelow(rng, bigR)
		m.siblings = append(m.siblings, s)
		if m.bits[i] == 1 {
			cur = o.BnTwoToOne(s, cur)
		} else {
			cur = o.BnTwoToOne(cur, s)
		}
	}
	for e := 0; e < 16; e++ {
		if e == capIdx {
			m.cap = append(m.cap, cur)
		} else {
			m.cap = append(m.cap, drv.RandBelow(rng, bigR))
		}
	}
	for i := 0; i < capH; i++ {
		m.capBits = append(m.capBits, (capIdx>>uint(i))&1)
	}
	// the corruption, as in Merkle.tla
	bump := func(x *big.Int, mod *big.Int) *big.Int { return new(big.Int).Mod(new(big.Int).Add(x, one), mod) }
	switch c.Kind {
	case "leaf":
		j := rng.Intn(len(m.leaf))
		m.leaf[j] = bump(m.leaf[j], bigP)
	case "sibling":
		m.siblings[c.Pos] = bump(m.siblings[c.Pos], bigR)
	case "indexbit":
		m.bits[c.Pos] = 1 - m.bits[c.Pos]
	case "capbit":
		m.capBits[c.Pos] = 1 - m.capBits[c.Pos]
	case "capentry":
		m.cap[capIdx] = bump(m.cap[capIdx], bigR)
	case "capentry_other":
		e := (capIdx + 1 + c.Pos) % 16
		m.cap[e] = bump(m.cap[e], bigR)
	case "wrongslot":
		e := (capIdx + 1 + c.Pos) % 16
		for i := 0; i < capH; i++ {
			m.capBits[i] = (e >> uint(i)) & 1
		}
	}
	return m
}

func runMerkle(m merkleInstance, nsib int) error {
	var in []*big.Int
	in = append(in, m.leaf...)
	in = append(in, m.siblings...)
	in = append(in, m.cap...)
	for _, b := range m.bits {
		in = append(in, big.NewInt(int64(b)))
	}
	for _, b := range m.capBits {
		in = append(in, big.NewInt(int64(b)))
	}
	cfg := &engine.Config{Mode: engine.Native}
	return hc.Run(cfg, in, func(api frontend.API, iv []frontend.Variable) error {
		p := 0
		take := func(n int) []frontend.Variable { r := iv[p : p+n]; p += n; return r }
		leafV := take(len(m.leaf))
		sibV := take(len(m.siblings))
		capV := take(16)
		bitV := take(len(m.bits))
		capBitV := take(capH)
		leaf := make([]gl.Variable, len(leafV))
		for i := range leaf {
			leaf[i] = gl.NewVariable(leafV[i])
		}
		cd := types.CommonCircuitData{}
		chip := fri.NewChip(api, &cd, &cd.FriParams)
		proof := variables.FriMerkleProof{Siblings: append([]frontend.Variable{}, sibV...)}
		chip.VerifVerifyMerkleProofToCapWithCapIndex(leaf, bitV, capBitV, append([]frontend.Variable{}, capV...), &proof)
		return nil
	})
}

func c12(raw json.RawMessage, resp *drv.Response) error {
	var req c12Req
	if err := json.Unmarshal(raw, &req); err != nil {
		return err
	}
	o, err := loadOracle(req.oracleFiles)
	if err != nil {
		return err
	}
	rng := drv.Rng(int64(1200 + req.Shard))
	for _, c := range req.Cases {
		m := buildMerkle(o, c, rng)
		err := runMerkle(m, c.H-capH)
		out := hc.Outcome(err)
		key := fmt.Sprintf("h=%d idx=%d kind=%s pos=%d w=%d", c.H, c.Idx, c.Kind, c.Pos, len(m.leaf))
		resp.Count(key, false)
		want := c.Expect
		if (want == "accept") != (out == "accept") {
			wclass := "hashed"
			if len(m.leaf) <= 3 {
				wclass = "shortcut"
			}
			resp.Violate(fmt.Sprintf("c12/merkle/%s-instead-of-%s kind=%s leaf=%s", out, want, c.Kind, wclass),
				fmt.Sprintf("%s: Merkle.tla says %s, the gadget gives %s (%s)", key, want, out, firstLine(err)), c)
		}
		if len(resp.Samples) < 4 {
			resp.Sample(map[string]any{"case": key, "expect": want, "outcome": out})
		}
	}
	return nil
}
