package drivers

// service: the real /proof handler of cmd/web-api.go behind gin's recovery middleware, driven with httptest.  The records
// (request class, response) are validated by TLC against ProverService.tla (ProverServiceTrace.tla).  Beyond the listed
// properties: the check turns disagreements into leads only.

import (
	"bytes"
	"encoding/json"
	"fmt"
	"io"
	"math/big"
	"net/http"
	"net/http/httptest"
	"os"
	"time"

	"github.com/consensys/gnark-crypto/ecc"
	"github.com/consensys/gnark/backend/groth16"
	"github.com/consensys/gnark/constraint"
	"github.com/consensys/gnark/frontend"
	"github.com/consensys/gnark/frontend/cs/r1cs"
	"github.com/gin-gonic/gin"
	"github.com/wormhole-foundation/example-near-light-client/cmd"
	"github.com/wormhole-foundation/example-near-light-client/verifier"
	"verifharness/data"
	"verifharness/drv"
)

type svcReq struct {
	Part      string `json:"part"` // cheap | full
	TraceFile string `json:"trace_file"`
	Shard     int    `json:"shard"`
}

func init() { drv.Register("service", service) }

// readDoc reads a JSON document keeping numbers exact.
func readDoc(path string) (map[string]any, error) {
	b, err := os.ReadFile(path)
	if err != nil {
		return nil, err
	}
	d := json.NewDecoder(bytes.NewReader(b))
	d.UseNumber()
	var m map[string]any
	if err := d.Decode(&m); err != nil {
		return nil, err
	}
	return m, nil
}

func cloneDoc(m map[string]any) map[string]any {
	b, _ := json.Marshal(m)
	d := json.NewDecoder(bytes.NewReader(b))
	d.UseNumber()
	var o map[string]any
	d.Decode(&o)
	return o
}

func restrictDoc(m map[string]any, k int) {
	op := m["proof"].(map[string]any)["opening_proof"].(map[string]any)
	q := op["query_round_proofs"].([]any)
	if k < len(q) {
		op["query_round_proofs"] = q[:k]
	}
}

type svcCase struct {
	name string
	// abstract request (fields of ProverService!Requests)
	body, proofBytes, keyBytes string
	npis                       int
	pisFit, innerValid, leafOk bool
	reqKey                     string
	// concrete request
	raw []byte // when non-nil: sent as is
	pw  map[string]any
	vd  map[string]any
}

func service(raw json.RawMessage, resp *drv.Response) error {
	var req svcReq
	if err := json.Unmarshal(raw, &req); err != nil {
		return err
	}
	gin.SetMode(gin.ReleaseMode)
	gin.DefaultWriter = io.Discard
	gin.DefaultErrorWriter = io.Discard
	inst := data.ByName("testdata")
	const k = 1
	pw, err := readDoc(inst.Proof)
	if err != nil {
		return err
	}
	restrictDoc(pw, k)
	vd, err := readDoc(inst.VD)
	if err != nil {
		return err
	}
	var cs constraint.ConstraintSystem
	var pk groth16.ProvingKey
	var vk groth16.VerifyingKey
	tmpl := data.Load(inst, k)
	var cases []svcCase
	mut := func(f func(p, v map[string]any)) (map[string]any, map[string]any) {
		p, v := cloneDoc(pw), cloneDoc(vd)
		f(p, v)
		return p, v
	}
	// ---- the classes that never reach the prover ------------------------------------------------------------------
	cases = append(cases, svcCase{name: "malformed-body", body: "malformed", proofBytes: "ok", keyBytes: "ok", npis: 16, pisFit: true, innerValid: true, leafOk: true, reqKey: "build",
		raw: []byte(`{"id": "x", "proofWithPis": `)})
	cases = append(cases, svcCase{name: "garbage-proof-bytes", body: "ok", proofBytes: "garbage", keyBytes: "ok", npis: 16, pisFit: true, innerValid: true, leafOk: true, reqKey: "build",
		raw: mustJSON(map[string]any{"id": "x", "proofWithPis": []byte("not json"), "verifierData": mustJSON(vd)})})
	cases = append(cases, svcCase{name: "garbage-key-bytes", body: "ok", proofBytes: "ok", keyBytes: "garbage", npis: 16, pisFit: true, innerValid: true, leafOk: true, reqKey: "build",
		raw: mustJSON(map[string]any{"id": "x", "proofWithPis": mustJSON(pw), "verifierData": []byte("[1,2")})})
	{
		p, v := mut(func(p, v map[string]any) { p["public_inputs"] = p["public_inputs"].([]any)[:4] })
		cases = append(cases, svcCase{name: "four-public-inputs", body: "ok", proofBytes: "ok", keyBytes: "ok", npis: 4, pisFit: true, innerValid: false, leafOk: true, reqKey: "build", pw: p, vd: v})
	}
	{
		p, v := mut(func(p, v map[string]any) {
			c := p["proof"].(map[string]any)["wires_cap"].([]any)
			c[3] = "12ab"
		})
		cases = append(cases, svcCase{name: "malformed-hash-leaf", body: "ok", proofBytes: "ok", keyBytes: "ok", npis: 16, pisFit: true, innerValid: false, leafOk: false, reqKey: "build", pw: p, vd: v})
	}
	if req.Part == "full" {
		// ---- a real Groth16 setup of the wrapper built from the one-round restriction of the test circuit ------------
		t0 := time.Now()
		circuit := verifier.CircuitFixed{ProofWithPis: tmpl.PWPI, VerifierData: tmpl.VD, CommonCircuitData: tmpl.Common,
			PublicInputs: [4]frontend.Variable{new(frontend.Variable), new(frontend.Variable), new(frontend.Variable), new(frontend.Variable)}}
		cs, err = frontend.Compile(ecc.BN254.ScalarField(), r1cs.NewBuilder, &circuit)
		if err != nil {
			return fmt.Errorf("compile: %v", err)
		}
		resp.Note("constraints", cs.GetNbConstraints())
		pk, vk, err = groth16.Setup(cs)
		if err != nil {
			return fmt.Errorf("setup: %v", err)
		}
		resp.Note("compile_setup_s", int(time.Since(t0).Seconds()))
		g, err := geometry(data.Load(inst, k)) // a fresh copy: frontend.Compile rewrote the template's leaves
		if err != nil {
			return err
		}
		sel, unsel := g.capIdx[0], -1
		for i := 0; i < 16; i++ {
			if i != sel {
				unsel = i
				break
			}
		}
		bump := func(s any) string {
			x, _ := new(big.Int).SetString(s.(string), 10)
			return new(big.Int).Add(x, big.NewInt(1)).String()
		}
		cases = append(cases, svcCase{name: "honest", body: "ok", proofBytes: "ok", keyBytes: "ok", npis: 16, pisFit: true, innerValid: true, leafOk: true, reqKey: "build", pw: pw, vd: vd})
		{
			p, v := mut(func(p, v map[string]any) {
				o := p["proof"].(map[string]any)["openings"].(map[string]any)["wires"].([]any)[5].([]any)
				n, _ := new(big.Int).SetString(string(o[0].(json.Number)), 10)
				o[0] = json.Number(new(big.Int).Add(n, big.NewInt(1)).String())
			})
			cases = append(cases, svcCase{name: "tampered-opening", body: "ok", proofBytes: "ok", keyBytes: "ok", npis: 16, pisFit: true, innerValid: false, leafOk: true, reqKey: "build", pw: p, vd: v})
		}
		{
			p, v := mut(func(p, v map[string]any) {
				pi := p["public_inputs"].([]any)
				n, _ := new(big.Int).SetString(string(pi[2].(json.Number)), 10)
				pi[2] = json.Number(new(big.Int).Add(n, new(big.Int).Lsh(big.NewInt(1), 32)).String()) // same low 32 bits, does not fit
			})
			cases = append(cases, svcCase{name: "public-input-too-wide", body: "ok", proofBytes: "ok", keyBytes: "ok", npis: 16, pisFit: false, innerValid: false, leafOk: true, reqKey: "build", pw: p, vd: v})
		}
		{
			p, v := mut(func(p, v map[string]any) {
				c := v["constants_sigmas_cap"].([]any)
				c[unsel] = bump(c[unsel])
			})
			cases = append(cases, svcCase{name: "key-unselected-entry", body: "ok", proofBytes: "ok", keyBytes: "ok", npis: 16, pisFit: true, innerValid: true, leafOk: true, reqKey: "alt_unsel", pw: p, vd: v})
		}
		{
			p, v := mut(func(p, v map[string]any) {
				c := v["constants_sigmas_cap"].([]any)
				c[sel] = bump(c[sel])
			})
			cases = append(cases, svcCase{name: "key-selected-entry", body: "ok", proofBytes: "ok", keyBytes: "ok", npis: 16, pisFit: true, innerValid: false, leafOk: true, reqKey: "alt_sel", pw: p, vd: v})
		}
		{
			ov, err := readDoc(data.ByName("random").VD)
			if err != nil {
				return err
			}
			cases = append(cases, svcCase{name: "other-circuits-key", body: "ok", proofBytes: "ok", keyBytes: "ok", npis: 16, pisFit: true, innerValid: false, leafOk: true, reqKey: "other", pw: pw, vd: ov})
		}
	}
	router := gin.New()
	router.Use(gin.Recovery())
	router.POST("/proof", cmd.VerifGenerateProof(cs, pk, vk))
	var trace []map[string]any
	for _, c := range cases {
		body := c.raw
		if body == nil {
			body = mustJSON(map[string]any{"id": c.name, "proofWithPis": mustJSON(c.pw), "verifierData": mustJSON(c.vd)})
		}
		rec := httptest.NewRecorder()
		hreq := httptest.NewRequest(http.MethodPost, "/proof", bytes.NewReader(body))
		hreq.Header.Set("Content-Type", "application/json")
		t0 := time.Now()
		router.ServeHTTP(rec, hreq)
		status := rec.Code
		inputsOK, proofOK := false, false
		detail := ""
		if status == 200 {
			var out struct {
				Inputs []string `json:"inputs"`
				Proof  []string `json:"proof"`
			}
			if err := json.Unmarshal(rec.Body.Bytes(), &out); err != nil {
				detail = "undecodable 200 body"
			} else {
				inputsOK = len(out.Inputs) == 4
				want := expectedPacking(c.pw)
				for i := 0; inputsOK && i < 4; i++ {
					if out.Inputs[i] != want[i].String() {
						inputsOK = false
					}
				}
				proofOK = groth16PointsOnCurve(out.Proof)
			}
		} else {
			detail = string(rec.Body.Bytes())
			if len(detail) > 160 {
				detail = detail[:160]
			}
		}
		resp.Count("service/"+c.name, false)
		trace = append(trace, map[string]any{"ev": "request", "name": c.name, "body": c.body, "proofBytes": c.proofBytes, "keyBytes": c.keyBytes, "npis": c.npis,
			"pisFit": c.pisFit, "innerValid": c.innerValid, "leafOk": c.leafOk, "reqKey": c.reqKey, "status": 0, "inputsOk": false, "proofOk": false})
		trace = append(trace, map[string]any{"ev": "response", "name": c.name, "body": "", "proofBytes": "", "keyBytes": "", "npis": 0,
			"pisFit": false, "innerValid": false, "leafOk": false, "reqKey": "", "status": status, "inputsOk": inputsOK, "proofOk": proofOK})
		resp.Sample(map[string]any{"request": c.name, "status": status, "inputs_ok": inputsOK, "proof_points_on_curve": proofOK, "seconds": int(time.Since(t0).Seconds()), "body": detail})
		resp.Results = append(resp.Results, map[string]any{"request": c.name, "status": status, "inputs_ok": inputsOK, "proof_ok": proofOK, "body": detail})
	}
	if req.TraceFile != "" {
		return writeNdjson(req.TraceFile, trace)
	}
	return nil
}

func mustJSON(v any) []byte {
	b, err := json.Marshal(v)
	if err != nil {
		panic(err)
	}
	return b
}

// expectedPacking: the property's packing - value j is the big-endian concatenation of the 32-bit public inputs 4j..4j+3.
func expectedPacking(pw map[string]any) [4]*big.Int {
	var out [4]*big.Int
	pi := pw["public_inputs"].([]any)
	for j := 0; j < 4; j++ {
		v := new(big.Int)
		for i := 0; i < 4; i++ {
			n, _ := new(big.Int).SetString(string(pi[4*j+i].(json.Number)), 10)
			v.Lsh(v, 32)
			v.Add(v, n)
		}
		out[j] = v
	}
	return out
}

// groth16PointsOnCurve: the eight returned numbers are coordinates below the base-field modulus with A and C on y^2 = x^3 + 3.
func groth16PointsOnCurve(p []string) bool {
	if len(p) != 8 {
		return false
	}
	q := ecc.BN254.BaseField()
	xs := make([]*big.Int, 8)
	for i, s := range p {
		x, ok := new(big.Int).SetString(s, 10)
		if !ok || x.Sign() < 0 || x.Cmp(q) >= 0 {
			return false
		}
		xs[i] = x
	}
	on := func(x, y *big.Int) bool {
		l := new(big.Int).Mul(y, y)
		r := new(big.Int).Mul(x, x)
		r.Mul(r, x).Add(r, big.NewInt(3))
		return l.Mod(l, q).Cmp(r.Mod(r, q)) == 0
	}
	return on(xs[0], xs[1]) && on(xs[6], xs[7])
}
