package drivers

import (
	"encoding/json"
	"fmt"
	"github.com/consensys/gnark/frontend"
	"github.com/wormhole-foundation/example-near-light-client/plonk/gates"
	"math/big"
	"sort"

	gl "github.com/wormhole-foundation/example-near-light-client/goldilocks"
	"verifharness/data"
	"verifharness/drv"
	"verifharness/engine"
	"verifharness/hc"
)

type c05Req struct {
	Part     string    `json:"part"` // sites | inject
	Instance string    `json:"instance"`
	K        int       `json:"k"`
	Mode     string    `json:"mode"`
	Fixed    bool      `json:"fixed"`
	Cases    []injCase `json:"cases"`
	Shard    int       `json:"shard"`
}

type injCase struct {
	Global int    `json:"global"`
	Site   string `json:"site"`
	Hint   string `json:"hint"`
	Occ    int    `json:"occ"`
	Strat  string `json:"strat"`
}

// SiteRow is one row of the per-static-site table (the constant of apalache/SiteLemma).
type SiteRow struct {
	Hint     string   `json:"hint"`
	Site     string   `json:"site"`
	Count    int      `json:"count"`
	MaxIn    []string `json:"max_in"`
	OutBits  []string `json:"out_bits"`  // per output: "" | "n" | "n1|n2"
	OutCanon []int    `json:"out_canon"` // per output: times it entered a canonical range check
	Sample   [][2]int `json:"sample"`    // (occurrence, global hint index) pairs: occurrence 0 and a seeded reservoir
}

func init() {
	drv.Register("c05", c05)
}

func c05(raw json.RawMessage, resp *drv.Response) error {
	var req c05Req
	if err := json.Unmarshal(raw, &req); err != nil {
		return err
	}
	if req.Mode == "" {
		req.Mode = "native"
	}
	if req.K == 0 {
		req.K = 1
	}
	inst := data.ByName(req.Instance)
	switch req.Part {
	case "sites":
		l := data.Load(inst, req.K)
		cfg := &engine.Config{Mode: modeOf(req.Mode), TrackBounds: true, Sites: map[string]*engine.SiteStat{}, SampleRng: drv.Rng(5)}
		cfg.Leaves = data.LeafMap([]string{"PWPI", "VD"}, &l.PWPI, &l.VD)
		err := hc.RunVerifier(cfg, l, l)
		if err != nil {
			return fmt.Errorf("honest run rejected: %s", firstLine(err))
		}
		rows := []SiteRow{}
		for _, st := range cfg.Sites {
			r := SiteRow{Hint: st.Name, Site: st.Site, Count: st.Count, OutCanon: st.OutCanon, Sample: st.Sample}
			for _, m := range st.MaxIn {
				if m == nil {
					r.MaxIn = append(r.MaxIn, "")
				} else {
					r.MaxIn = append(r.MaxIn, m.String())
				}
			}
			for _, ob := range st.OutBits {
				ks := []int{}
				for k := range ob {
					ks = append(ks, k)
				}
				sort.Ints(ks)
				s := ""
				for i, k := range ks {
					if i > 0 {
						s += "|"
					}
					s += fmt.Sprint(k)
				}
				r.OutBits = append(r.OutBits, s)
			}
			rows = append(rows, r)
		}
		sort.Slice(rows, func(i, j int) bool { return rows[i].Site < rows[j].Site })
		for _, r := range rows {
			resp.Results = append(resp.Results, r)
		}
		resp.Note("hint_calls", cfg.Counters["hint:MulAddHint"]+cfg.Counters["hint:ReduceHint"]+cfg.Counters["hint:SplitLimbsHint"]+cfg.Counters["hint:InverseHint"])
		resp.Note("wraps_add", cfg.Counters["wrap:add"])
		resp.Note("wraps_mul", cfg.Counters["wrap:mul"])
		resp.Note("wraps_mulacc", cfg.Counters["wrap:mulacc"])
		resp.Note("static_sites", len(rows))
		return nil
	case "inject":
		for _, c := range req.Cases {
			l := data.Load(inst, req.K)
			applied, trivial := false, false
			var subst []*big.Int
			cfg := &engine.Config{Mode: modeOf(req.Mode), Permissive: true, AbortAfterLocal: true, TargetGlobal: c.Global}
			c := c
			cfg.Strategy = func(h *engine.HintCall) []*big.Int {
				if h.Site != c.Site {
					return nil
				}
				applied = true
				out := hintStrategy(c.Strat, h)
				if out == nil {
					trivial = true
					return nil
				}
				same := h.Honest != nil && len(out) == len(h.Honest)
				if same {
					for i := range out {
						if new(big.Int).Mod(out[i], bigR).Cmp(h.Honest[i]) != 0 {
							same = false
						}
					}
				}
				if same {
					trivial = true
				}
				subst = out
				return out
			}
			var err error
			if req.Fixed {
				err = hc.RunFixed(cfg, l, l, hc.PackPublic(leafVals(l.PWPI.PublicInputs)))
			} else {
				err = hc.RunVerifier(cfg, l, l)
			}
			if !applied {
				return fmt.Errorf("site %s occ %d never reached (dead case)", c.Site, c.Occ)
			}
			key := fmt.Sprintf("%s#%d/%s", c.Site, c.Occ, c.Strat)
			resp.Count(key, trivial)
			out := hc.Outcome(err)
			// the verdict is local to the substituted gadget: it is accepted iff the gadget returned without a failed
			// constraint (whatever later checks make of the changed value)
			if cfg.LocalAccepted {
				out = "accept"
			}
			if !trivial && out == "accept" {
				ss := []string{}
				for _, x := range subst {
					ss = append(ss, x.String())
				}
				resp.Violate(fmt.Sprintf("c05/inject/accepted hint=%s strat=%s site=%s", c.Hint, c.Strat, c.Site),
					fmt.Sprintf("instance %s k=%d: substituting %v at occurrence %d of this site satisfies every constraint of the gadget at that site (a second result is accepted)", req.Instance, req.K, ss, c.Occ), c)
			}
			resp.Sample(map[string]any{"site": c.Site, "occ": c.Occ, "strat": c.Strat, "outcome": out, "trivial": trivial})
		}
		return nil
	}
	if req.Part == "gadget" {
		return c05Gadget(resp)
	}
	if req.Part == "gates" {
		return c05Gates(req, resp)
	}
	return fmt.Errorf("unknown part %q", req.Part)
}

// c05Gadget: the adversarial alternatives at every hint of every base gadget, on operand CLASSES chosen so that the alternative
// passes whatever width check a weakened gadget might still apply (tiny remainders, tiny inverses, zero results): a second
// accepted result at gadget level is a violation wherever the gadget is used.
func c05Gadget(resp *drv.Response) error {
	pm1 := new(big.Int).Sub(bigP, one)
	inv3 := new(big.Int).ModInverse(big.NewInt(3), bigP)
	type gcase struct {
		g  Gadget
		in []*big.Int
	}
	cases := []gcase{
		{Gadget{Kind: "mul"}, []*big.Int{pm1, pm1}},                     // remainder 1, large quotient
		{Gadget{Kind: "sub"}, []*big.Int{big.NewInt(5), big.NewInt(5)}}, // x - x: remainder 0, quotient x
		{Gadget{Kind: "sub"}, []*big.Int{pm1, pm1}},
		{Gadget{Kind: "add"}, []*big.Int{pm1, big.NewInt(2)}},             // wraps once: remainder 1
		{Gadget{Kind: "muladd"}, []*big.Int{two32, two32, big.NewInt(0)}}, // 2^64 = p + 2^32 - 1
		{Gadget{Kind: "muladd"}, []*big.Int{pm1, big.NewInt(2), big.NewInt(3)}},
		{Gadget{Kind: "reduce"}, []*big.Int{new(big.Int).Add(bigP, one)}},
		{Gadget{Kind: "reduce"}, []*big.Int{new(big.Int).Mul(bigP, pow2(100))}}, // remainder 0, 100-bit quotient
		{Gadget{Kind: "inverse"}, []*big.Int{inv3}},                             // inverse 3: inverse + p still fits 64 bits
		{Gadget{Kind: "inverse"}, []*big.Int{big.NewInt(2)}},
		{Gadget{Kind: "inverse"}, []*big.Int{pm1}},
		{Gadget{Kind: "rangecheck"}, []*big.Int{new(big.Int).Sub(bigP, two32)}}, // hi = 2^32 - 2, lo = 1
		{Gadget{Kind: "rangecheck"}, []*big.Int{two32}},
		{Gadget{Kind: "rangecheck"}, []*big.Int{big.NewInt(7)}},
	}
	// "an honest prover's values always fit": the honest hints on the operands at which a quotient or a remainder sits on a boundary
	// (the integer reduced is exactly p, 2p, p 2^64; remainder 0 and p - 1; the largest stated operands) are accepted with the field's result
	fit := []gcase{
		{Gadget{Kind: "reduce"}, []*big.Int{bigP}}, {Gadget{Kind: "reduce"}, []*big.Int{new(big.Int).Mul(bigP, big.NewInt(2))}},
		{Gadget{Kind: "reduce"}, []*big.Int{pm1}}, {Gadget{Kind: "reduce"}, []*big.Int{big.NewInt(0)}},
		{Gadget{Kind: "reduce"}, []*big.Int{new(big.Int).Sub(two64, one)}}, {Gadget{Kind: "reduce"}, []*big.Int{two64}},
		{Gadget{Kind: "reduce"}, []*big.Int{new(big.Int).Mul(bigP, two64)}}, {Gadget{Kind: "reduce"}, []*big.Int{new(big.Int).Sub(new(big.Int).Mul(bigP, two64), one)}},
		{Gadget{Kind: "reduce"}, []*big.Int{new(big.Int).Sub(pow2(128), one)}},
		{Gadget{Kind: "muladd"}, []*big.Int{pm1, pm1, pm1}}, {Gadget{Kind: "muladd"}, []*big.Int{big.NewInt(0), big.NewInt(0), big.NewInt(0)}},
		{Gadget{Kind: "muladd"}, []*big.Int{big.NewInt(1), pm1, big.NewInt(1)}}, // a b + c = p exactly
		{Gadget{Kind: "muladd"}, []*big.Int{big.NewInt(2), pm1, big.NewInt(2)}}, // = 2p
		{Gadget{Kind: "add"}, []*big.Int{pm1, big.NewInt(1)}}, {Gadget{Kind: "add"}, []*big.Int{pm1, pm1}}, {Gadget{Kind: "sub"}, []*big.Int{big.NewInt(0), pm1}},
		{Gadget{Kind: "sub"}, []*big.Int{big.NewInt(0), big.NewInt(0)}}, {Gadget{Kind: "mul"}, []*big.Int{pm1, big.NewInt(1)}}, {Gadget{Kind: "mul"}, []*big.Int{two32, two32}},
		{Gadget{Kind: "inverse"}, []*big.Int{big.NewInt(1)}}, {Gadget{Kind: "inverse"}, []*big.Int{pm1}}, {Gadget{Kind: "inverse"}, []*big.Int{two32}},
		{Gadget{Kind: "rangecheck"}, []*big.Int{pm1}}, {Gadget{Kind: "rangecheck"}, []*big.Int{big.NewInt(0)}}, {Gadget{Kind: "rangecheck"}, []*big.Int{new(big.Int).Sub(bigP, two32)}},
		{Gadget{Kind: "rangecheck"}, []*big.Int{new(big.Int).Lsh(new(big.Int).Sub(two32, one), 32)}}, // hi = 2^32 - 1, lo = 0: the largest high limb
	}
	for _, mode := range []engine.Mode{engine.Native, engine.Plain} {
		for _, gc := range fit {
			outs, err := runGadget(&engine.Config{Mode: mode}, gc.g, gc.in, nil)
			key := fmt.Sprintf("fit/%d/%s/%v", mode, gc.g.Kind, strsOf(gc.in))
			resp.Count(key, false)
			var want *big.Int
			in := gc.in
			switch gc.g.Kind {
			case "reduce":
				want = new(big.Int).Mod(in[0], bigP)
			case "muladd":
				want = new(big.Int).Mod(new(big.Int).Add(new(big.Int).Mul(in[0], in[1]), in[2]), bigP)
			case "add":
				want = new(big.Int).Mod(new(big.Int).Add(in[0], in[1]), bigP)
			case "sub":
				want = new(big.Int).Mod(new(big.Int).Sub(in[0], in[1]), bigP)
			case "mul":
				want = new(big.Int).Mod(new(big.Int).Mul(in[0], in[1]), bigP)
			case "inverse":
				want = new(big.Int).ModInverse(in[0], bigP)
			}
			if err != nil {
				resp.Violate("c05/fit/honest-rejected gadget="+gc.g.Kind, fmt.Sprintf("%s%v with the honest hints is rejected: %s", gc.g.Kind, strsOf(gc.in), firstLine(err)), map[string]any{"gadget": gc.g.Kind, "in": strsOf(gc.in)})
			} else if want != nil && (len(outs) == 0 || outs[0].Cmp(want) != 0) {
				resp.Violate("c05/fit/honest-wrong gadget="+gc.g.Kind, fmt.Sprintf("%s%v with the honest hints gives %v, the field's result is %v", gc.g.Kind, strsOf(gc.in), strsOf(outs), want), map[string]any{"gadget": gc.g.Kind, "in": strsOf(gc.in)})
			}
		}
	}
	for _, plainPass := range []bool{false, true} {
		for _, gc := range cases {
			for _, hint := range []string{"MulAddHint", "ReduceHint", "SplitLimbsHint", "InverseHint"} {
				if plainPass && hint == "SplitLimbsHint" {
					continue
				}
				strats := map[string][]string{"MulAddHint": {"k1", "q-1", "q+1", "solve"}, "ReduceHint": {"k1", "k2", "q-1", "q+1", "solve"},
					"SplitLimbsHint": {"hi-1", "hi+1", "solve-hi"}, "InverseHint": {"inv+p", "inv+1", "zero"}}[hint]
				for occ := 0; occ < 3; occ++ {
					for _, st := range strats {
						seen, applied, trivial := 0, false, false
						var sub []*big.Int
						cfg := &engine.Config{Mode: engine.Native, Permissive: true}
						if plainPass {
							// the bit-decomposition mechanism, with the digits a prover supplies for a value that does not fit its width
							cfg = &engine.Config{Mode: engine.Plain, Permissive: true, PermissiveFlavor: 2}
						}
						cfg.Strategy = func(h *engine.HintCall) []*big.Int {
							if h.Name != hint {
								return nil
							}
							seen++
							if seen-1 != occ {
								return nil
							}
							applied = true
							out := hintStrategy(st, h)
							if out == nil {
								trivial = true
								return nil
							}
							same := h.Honest != nil
							for i := range out {
								if same && new(big.Int).Mod(out[i], bigR).Cmp(h.Honest[i]) != 0 {
									same = false
								}
							}
							trivial = same
							sub = out
							return out
						}
						_, err := runGadget(cfg, gc.g, gc.in, nil)
						if !applied {
							break
						}
						key := fmt.Sprintf("gadget/%v/%s/%v/%s#%d/%s", plainPass, gc.g.Kind, strsOf(gc.in), hint, occ, st)
						resp.Count(key, trivial)
						if !trivial && err == nil {
							resp.Violate(fmt.Sprintf("c05/gadget/accepted gadget=%s hint=%s strat=%s", gc.g.Kind, hint, st),
								fmt.Sprintf("%s%v: substituting %v at occurrence %d of %s satisfies all constraints of the gadget (a second result is accepted)", gc.g.Kind, strsOf(gc.in), strsOf(sub), occ, hint), map[string]any{"gadget": gc.g.Kind, "in": strsOf(gc.in), "hint": hint, "occ": occ, "strat": st})
						}
						if len(resp.Samples) < 8 && !trivial {
							resp.Sample(map[string]any{"gadget": gc.g.Kind, "in": strsOf(gc.in), "hint": hint, "occ": occ, "strat": st, "outcome": hc.Outcome(err)})
						}
					}
				}
			}
		}
	}
	return nil
}

func leafVals(vs []gl.Variable) []*big.Int {
	out := []*big.Int{}
	for _, v := range vs {
		out = append(out, engine.ToBig(v.Limb))
	}
	return out
}

var pInvModR = new(big.Int).ModInverse(engine.P, engine.R)

// hintStrategy computes the adversarial alternatives of DESIGN.md C05 for one hint call.
func hintStrategy(name string, h *engine.HintCall) []*big.Int {
	in := h.Inputs
	switch h.Name {
	case "ReduceHint", "MulAddHint":
		var x *big.Int // the integer the honest hint divides
		if h.Name == "ReduceHint" {
			x = new(big.Int).Set(in[0])
		} else {
			x = new(big.Int).Mul(in[0], in[1])
			x.Add(x, in[2])
		}
		q, rem := new(big.Int).QuoRem(x, bigP, new(big.Int))
		switch name {
		case "k1", "k2", "k7":
			k := map[string]int64{"k1": 1, "k2": 2, "k7": 7}[name]
			y := new(big.Int).Add(x, new(big.Int).Mul(big.NewInt(k), bigR))
			q2, r2 := new(big.Int).QuoRem(y, bigP, new(big.Int))
			return []*big.Int{q2, r2}
		case "q-1":
			return []*big.Int{new(big.Int).Mod(new(big.Int).Sub(q, one), bigR), new(big.Int).Add(rem, bigP)}
		case "q+1":
			return []*big.Int{new(big.Int).Add(q, one), new(big.Int).Mod(new(big.Int).Sub(rem, bigP), bigR)}
		case "solve":
			r2 := new(big.Int).Add(rem, one)
			if r2.Cmp(bigP) >= 0 {
				r2.SetInt64(0)
			}
			q2 := new(big.Int).Sub(new(big.Int).Mod(x, bigR), r2)
			q2.Mul(q2, pInvModR).Mod(q2, bigR)
			return []*big.Int{q2, r2}
		}
	case "SplitLimbsHint":
		g := engine.GenericHint("SplitLimbsHint", in, 2)
		switch name {
		case "hi-1":
			return []*big.Int{new(big.Int).Mod(new(big.Int).Sub(g[0], one), bigR), new(big.Int).Add(g[1], two32)}
		case "hi+1":
			return []*big.Int{new(big.Int).Add(g[0], one), new(big.Int).Mod(new(big.Int).Sub(g[1], two32), bigR)}
		case "solve-hi": // the low limb with its lowest bit flipped (still 32 bits), the high limb solved in the scalar field
			lo := new(big.Int).Xor(g[1], one)
			hi := new(big.Int).Sub(new(big.Int).Mod(in[0], bigR), lo)
			hi.Mul(hi, new(big.Int).ModInverse(two32, bigR)).Mod(hi, bigR)
			return []*big.Int{hi, lo}
		}
	case "InverseHint":
		g := engine.GenericHint("InverseHint", in, 1)
		switch name {
		case "inv+p":
			return []*big.Int{new(big.Int).Add(g[0], bigP)}
		case "inv+1":
			return []*big.Int{new(big.Int).Add(g[0], one)}
		case "zero":
			return []*big.Int{big.NewInt(0)}
		}
	}
	return nil
}

// c05Gates: the gate evaluators with parameters the shipped circuits do not have (other bases, limb counts, copies, degrees).  Their
// arithmetic goes through the same prover-supplied quotients and remainders; the two halves of the property are decided on the real
// code: (fit) a random row evaluated with the honest hints is accepted, (single result) the field-wrap alternative (quotient and
// remainder of x + r) at the first occurrence of every static hint site is rejected by the local constraints.
func c05Gates(req c05Req, resp *drv.Response) error {
	rng := drv.Rng(int64(5500 + req.Shard))
	type gp struct {
		kind string
		p    []int
	}
	var list []gp
	for _, b := range []int{2, 3, 4, 5, 8} {
		for _, l := range []int{1, 4, 20} {
			list = append(list, gp{"BaseSumGate", []int{l, b}})
		}
	}
	for _, n := range []int{1, 7, 20} {
		list = append(list, gp{"ArithmeticGate", []int{n}}, gp{"MulExtensionGate", []int{n}}, gp{"ReducingGate", []int{n}}, gp{"ExponentiationGate", []int{n}})
	}
	list = append(list, gp{"ArithmeticExtensionGate", []int{5}}, gp{"ReducingExtensionGate", []int{9}}, gp{"RandomAccessGate", []int{2, 3, 2}}, gp{"RandomAccessGate", []int{5, 1, 0}},
		gp{"ConstantGate", []int{3}}, gp{"PoseidonMdsGate", []int{0}})
	for _, g := range list {
		id := gateID(gateSpec{Kind: g.kind, P: g.p}, nil)
		row := randRow(rng, 160, 8)
		sites := map[string]*engine.SiteStat{}
		var honestErr error
		func() {
			defer func() {
				if x := recover(); x != nil {
					honestErr = fmt.Errorf("%v", x)
				}
			}()
			honestErr = hc.Run(&engine.Config{Mode: engine.Native, Sites: sites}, row.flat(), func(api frontend.API, iv []frontend.Variable) error {
				gates.GateInstanceFromId(id).EvalUnfiltered(api, gl.New(api), *row.vars(iv))
				return nil
			})
		}()
		resp.Count("gates/fit/"+id, false)
		if honestErr != nil {
			resp.Violate("c05/fit/honest-rejected gadget=gate:"+g.kind, fmt.Sprintf("%s on a random row with the honest hints is rejected: %s", id, firstLine(honestErr)), map[string]any{"gate": id})
			continue
		}
		for _, st := range sites {
			if st.Name != "ReduceHint" && st.Name != "MulAddHint" {
				continue
			}
			applied, trivial := false, false
			cfg := &engine.Config{Mode: engine.Native, Permissive: true, AbortAfterLocal: true, TargetGlobal: st.FirstOcc}
			cfg.Strategy = func(h *engine.HintCall) []*big.Int {
				applied = true
				out := hintStrategy("k1", h)
				if out == nil {
					trivial = true
				}
				return out
			}
			func() {
				defer func() { recover() }()
				hc.Run(cfg, row.flat(), func(api frontend.API, iv []frontend.Variable) error {
					gates.GateInstanceFromId(id).EvalUnfiltered(api, gl.New(api), *row.vars(iv))
					return nil
				})
			}()
			if !applied || trivial {
				continue
			}
			resp.Count("gates/k1/"+id+"/"+st.Site, false)
			if cfg.LocalAccepted {
				short := st.Site
				if len(short) > 120 {
					short = short[:120]
				}
				resp.Violate("c05/gate/accepted gate="+g.kind+" hint="+st.Name+" strat=k1", fmt.Sprintf("%s: the quotient and remainder of the integer + r (a wrap of BN254's field) at %s satisfy the local constraints: a second result is accepted", id, short), map[string]any{"gate": id, "site": st.Site})
			}
		}
		if len(resp.Samples) < 4 {
			resp.Sample(map[string]any{"gate": id, "hint_sites": len(sites)})
		}
	}
	return nil
}
