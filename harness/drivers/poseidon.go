package drivers

import (
	"encoding/json"
	"fmt"
	"math/big"
	"math/rand"
	"os"
	"strings"

	"github.com/consensys/gnark/frontend"
	gl "github.com/wormhole-foundation/example-near-light-client/goldilocks"
	"github.com/wormhole-foundation/example-near-light-client/poseidon"
	"verifharness/drv"
	"verifharness/engine"
	"verifharness/hc"
	"verifharness/ref"
)

type oracleFiles struct {
	GlSched string `json:"gl_sched"`
	BnSched string `json:"bn_sched"`
	Plans   string `json:"plans"`
}

func loadOracle(f oracleFiles) (*ref.Oracle, error) {
	o, err := ref.Load(f.GlSched, f.BnSched, f.Plans)
	if err != nil {
		return nil, err
	}
	if err := o.SelfTest(); err != nil {
		return nil, fmt.Errorf("oracle self-test: %w", err)
	}
	return o, nil
}

type poseidonReq struct {
	oracleFiles
	Part    string `json:"part"` // glperm | glhash | bnperm | bnhash | tovec
	Mode    string `json:"mode"`
	NRandom int    `json:"nrandom"`
	MaxLen  int    `json:"maxlen"`
	Shard   int    `json:"shard"`
}

func init() { drv.Register("poseidon", poseidonDrv) }

func strsOf(xs []*big.Int) []string {
	out := make([]string, len(xs))
	for i, x := range xs {
		out[i] = x.String()
	}
	return out
}

func glEdge() []*big.Int {
	return []*big.Int{big.NewInt(0), big.NewInt(1), new(big.Int).Sub(two32, one), two32, pow2(63), new(big.Int).Sub(bigP, two32), new(big.Int).Sub(bigP, one)}
}

func poseidonDrv(raw json.RawMessage, resp *drv.Response) error {
	var req poseidonReq
	if err := json.Unmarshal(raw, &req); err != nil {
		return err
	}
	if req.Mode == "" {
		req.Mode = "native"
	}
	o, err := loadOracle(req.oracleFiles)
	if err != nil {
		return err
	}
	rng := drv.Rng(int64(900 + req.Shard))
	var pad []*big.Int
	if req.Mode == "commit" {
		pad = padValues(commitPad, rng)
	}
	withPad := func(in []*big.Int) []*big.Int { return append(append([]*big.Int{}, in...), pad...) }
	doPad := func(api frontend.API, in []frontend.Variable, from int) {
		if len(pad) == 0 {
			return
		}
		chip := gl.New(api)
		for j := from; j < len(in); j++ {
			chip.RangeCheckWithMaxBits(gl.NewVariable(in[j]), 32)
		}
	}
	switch req.Part {
	case "glperm":
		states := [][]*big.Int{}
		z := func(v *big.Int) []*big.Int {
			s := make([]*big.Int, 12)
			for i := range s {
				s[i] = v
			}
			return s
		}
		states = append(states, z(big.NewInt(0)), z(new(big.Int).Sub(bigP, one)))
		for _, e := range glEdge()[1:] {
			for _, pos := range []int{0, rng.Intn(12), 11} {
				s := z(big.NewInt(0))
				s[pos] = e
				states = append(states, s)
			}
		}
		for i := 0; i < req.NRandom; i++ {
			s := make([]*big.Int, 12)
			for j := range s {
				s[j] = drv.RandBelow(rng, bigP)
			}
			states = append(states, s)
		}
		for _, st := range states {
			var got []*big.Int
			cfg := &engine.Config{Mode: modeOf(req.Mode)}
			err := hc.Run(cfg, withPad(st), func(api frontend.API, in []frontend.Variable) error {
				doPad(api, in, 12)
				var s poseidon.GoldilocksState
				for i := range s {
					s[i] = gl.NewVariable(in[i])
				}
				out := poseidon.NewGoldilocksChip(api).Poseidon(s)
				for i := range out {
					got = append(got, new(big.Int).Set(engine.ToBig(out[i].Limb)))
				}
				return nil
			})
			key := fmt.Sprint("glperm/", req.Mode, "/", strsOf(st))
			resp.Count(key, false)
			want := o.GlPerm(st)
			if err != nil {
				resp.Violate("c09/perm/rejected mode="+req.Mode, fmt.Sprintf("Poseidon(%v) rejected: %s", strsOf(st), firstLine(err)), map[string]any{"state": strsOf(st)})
				continue
			}
			for i := range want {
				if got[i].Cmp(want[i]) != 0 {
					resp.Violate("c09/perm/wrong mode="+req.Mode, fmt.Sprintf("Poseidon(%v)[%d] = %v, reference %v", strsOf(st), i, got[i], want[i]), map[string]any{"state": strsOf(st)})
					break
				}
			}
			if len(resp.Samples) < 3 {
				resp.Sample(map[string]any{"state": strsOf(st), "out0": got[0].String(), "mode": req.Mode})
			}
		}
	case "glunique":
		// "the permutation is a function": at sampled prover-supplied-value sites inside ONE permutation the model's adversarial
		// alternatives must fail the local constraints (the same local verdict as C05's injection)
		st := make([]*big.Int, 12)
		for i := range st {
			st[i] = drv.RandBelow(rng, bigP)
		}
		perm := func(cfg *engine.Config) error {
			return hc.Run(cfg, st, func(api frontend.API, in []frontend.Variable) error {
				var s poseidon.GoldilocksState
				for i := range s {
					s[i] = gl.NewVariable(in[i])
				}
				poseidon.NewGoldilocksChip(api).Poseidon(s)
				return nil
			})
		}
		// the same for the sponge entry point, whose inputs are reduced before absorption (HashNoPad): a few inputs are given as value + k*p
		hin := make([]*big.Int, 11)
		for i := range hin {
			hin[i] = drv.RandBelow(rng, bigP)
			if i%3 == 0 {
				hin[i] = new(big.Int).Add(hin[i], new(big.Int).Mul(big.NewInt(int64(1+i)), bigP))
			}
		}
		hash := func(cfg *engine.Config) error {
			return hc.Run(cfg, hin, func(api frontend.API, in []frontend.Variable) error {
				vs := make([]gl.Variable, len(in))
				for i := range vs {
					vs[i] = gl.NewVariable(in[i])
				}
				poseidon.NewGoldilocksChip(api).HashNoPad(vs)
				return nil
			})
		}
		// an input whose OUTPUT has small elements (the permutation run backwards from a chosen output): "remainder + p" fits 64 bits
		// there, so a final reduction that bounds its remainder by a width only - instead of the canonical check - shows
		tgt := make([]*big.Int, 12)
		for i := range tgt {
			tgt[i] = drv.RandBelow(rng, bigP)
			if i%2 == 0 || i >= 8 {
				tgt[i] = big.NewInt(int64(1 + rng.Intn(1<<20)))
			}
		}
		pre := o.GlPermInv(tgt)
		if chk := o.GlPerm(pre); chk[0].Cmp(tgt[0]) != 0 || chk[11].Cmp(tgt[11]) != 0 {
			return fmt.Errorf("the inverse permutation of the oracle does not invert")
		}
		permSmall := func(cfg *engine.Config) error {
			return hc.Run(cfg, pre, func(api frontend.API, in []frontend.Variable) error {
				var s poseidon.GoldilocksState
				for i := range s {
					s[i] = gl.NewVariable(in[i])
				}
				poseidon.NewGoldilocksChip(api).Poseidon(s)
				return nil
			})
		}
		for ri, run := range []func(cfg *engine.Config) error{perm, hash, permSmall} {
			perm := run
			what := []string{"one permutation", "HashNoPad of 11 inputs", "one permutation whose output has small elements"}[ri]
			h := &engine.Config{Mode: engine.Native}
			if err := perm(h); err != nil {
				return fmt.Errorf("honest permutation rejected: %s", firstLine(err))
			}
			total := h.Counters["hint:ReduceHint"] + h.Counters["hint:MulAddHint"] + h.Counters["hint:SplitLimbsHint"]
			idx := map[int]bool{}
			for i := 1; i <= 40 && i <= total; i++ {
				idx[i] = true
			}
			if ri == 2 { // the hints of the last layer produce the output
				idx = map[int]bool{}
				for i := total; i > total-60 && i >= 1; i-- {
					idx[i] = true
				}
			}
			for i := 0; i < 60+req.NRandom; i++ {
				idx[1+rng.Intn(total)] = true
			}
			for g := range idx {
				for _, strat := range []string{"k1", "k2", "q-1", "hi-1"} {
					applied, trivial := false, false
					cfg := &engine.Config{Mode: engine.Native, Permissive: true, AbortAfterLocal: true, TargetGlobal: g}
					var site string
					cfg.Strategy = func(c *engine.HintCall) []*big.Int {
						applied = true
						site = c.Name + "@" + c.Site
						out := hintStrategy(strat, c)
						if out == nil {
							trivial = true
							return nil
						}
						same := c.Honest != nil
						for i := range out {
							if same && new(big.Int).Mod(out[i], bigR).Cmp(c.Honest[i]) != 0 {
								same = false
							}
						}
						trivial = same
						return out
					}
					_ = perm(cfg)
					if !applied || trivial {
						continue
					}
					resp.Count(fmt.Sprintf("glunique/%d/%s/%v", g, strat, st[0]), false)
					if cfg.LocalAccepted {
						short := site
						if i := strings.Index(site, "<-poseidon.(*GoldilocksChip).Poseidon"); i > 0 {
							short = site[:i]
						}
						resp.Violate("c09/unique/second-output site="+short+" strat="+strat,
							fmt.Sprintf("hint %d of "+what+" (%s): the alternative %s satisfies the local constraints - the permutation accepts a second output for the same input", g, site, strat), map[string]any{"global": g, "strat": strat})
					}
				}
			}
		}
		resp.Sample(map[string]any{"runs": "one permutation + HashNoPad(11 inputs)", "strategies": "k1 k2 q-1 hi-1"})
	case "glhash":
		for n := 0; n <= req.MaxLen; n++ {
			ms := []int{1 + rng.Intn(12), 4}
			if n%7 == 0 {
				ms = []int{1, 4, 8, 9, 12}
			}
			for _, m := range ms {
				for variant := 0; variant < 2; variant++ { // 0: HashNToMNoPad canonical inputs; 1: HashNoPad with non-canonical inputs
					if variant == 1 && m != 4 {
						continue
					}
					in := make([]*big.Int, n)
					for i := range in {
						in[i] = drv.RandBelow(rng, bigP)
						if rng.Intn(6) == 0 {
							in[i] = glEdge()[rng.Intn(7)]
						}
						if variant == 1 && rng.Intn(3) == 0 {
							k := []int64{1, 2, 1 << 32, 1 << 40}[rng.Intn(4)]
							in[i] = new(big.Int).Add(in[i], new(big.Int).Mul(big.NewInt(k), bigP)) // value + k*p
						}
					}
					var got []*big.Int
					cfg := &engine.Config{Mode: modeOf(req.Mode)}
					err := hc.Run(cfg, withPad(in), func(api frontend.API, iv []frontend.Variable) error {
						doPad(api, iv, n)
						vs := make([]gl.Variable, n)
						for i := range vs {
							vs[i] = gl.NewVariable(iv[i])
						}
						chip := poseidon.NewGoldilocksChip(api)
						var out []gl.Variable
						if variant == 0 {
							out = chip.HashNToMNoPad(vs, m)
						} else {
							h := chip.HashNoPad(vs)
							out = h[:]
						}
						for _, x := range out {
							got = append(got, new(big.Int).Set(engine.ToBig(x.Limb)))
						}
						return nil
					})
					resp.Count(fmt.Sprintf("glhash/%s/%d/%d/%d/%v", req.Mode, n, m, variant, strsOf(in)), false)
					var want []*big.Int
					if variant == 0 {
						want = o.RunPlan("gl", in, m)
					} else {
						want = o.GlHashNoPad(in)
					}
					if err != nil {
						resp.Violate(fmt.Sprintf("c09/hash/rejected variant=%d mode=%s", variant, req.Mode), fmt.Sprintf("n=%d m=%d rejected: %s", n, m, firstLine(err)), map[string]any{"n": n, "m": m, "in": strsOf(in)})
						continue
					}
					bad := len(got) != len(want)
					for i := 0; !bad && i < len(want); i++ {
						bad = got[i].Cmp(want[i]) != 0
					}
					if bad {
						resp.Violate(fmt.Sprintf("c09/hash/wrong variant=%d mode=%s", variant, req.Mode), fmt.Sprintf("n=%d m=%d in=%v: got %v want %v", n, m, strsOf(in), strsOf(got), strsOf(want)), map[string]any{"n": n, "m": m, "in": strsOf(in)})
					}
					if len(resp.Samples) < 3 && n > 8 {
						resp.Sample(map[string]any{"n": n, "m": m, "variant": variant, "out": strsOf(got)})
					}
				}
			}
		}
		// one chip used for several hashes, results read only at the end: a result must not depend on (or be disturbed by) what the
		// same chip hashed before or after
		if req.Shard%2 == 0 && req.Mode != "commit" { // (the commit checker needs the padded circuit; the sequence runs under the other two)
			type call struct {
				in []*big.Int
				m  int // 0 = HashNoPad
			}
			for rep := 0; rep < 3; rep++ {
				var calls []call
				var flat []*big.Int
				for _, m := range [][]int{{8, 4, 0}, {4, 4, 4, 2}, {12, 1, 0, 8}}[rep] {
					n := 1 + rng.Intn(13)
					c := call{m: m}
					for i := 0; i < n; i++ {
						c.in = append(c.in, drv.RandBelow(rng, bigP))
					}
					calls = append(calls, c)
					flat = append(flat, c.in...)
				}
				got := make([][]*big.Int, len(calls))
				err := hc.Run(&engine.Config{Mode: modeOf(req.Mode)}, flat, func(api frontend.API, iv []frontend.Variable) error {
					chip := poseidon.NewGoldilocksChip(api)
					outs := make([][]gl.Variable, len(calls))
					p := 0
					for ci, c := range calls {
						vs := make([]gl.Variable, len(c.in))
						for i := range vs {
							vs[i] = gl.NewVariable(iv[p])
							p++
						}
						if c.m == 0 {
							h := chip.HashNoPad(vs)
							outs[ci] = h[:]
						} else {
							outs[ci] = chip.HashNToMNoPad(vs, c.m)
						}
					}
					for ci := range outs { // read only now
						for _, x := range outs[ci] {
							got[ci] = append(got[ci], new(big.Int).Set(engine.ToBig(x.Limb)))
						}
					}
					return nil
				})
				resp.Count(fmt.Sprintf("glhash-seq/%s/%d/%v", req.Mode, rep, strsOf(flat)), false)
				if err != nil {
					resp.Violate("c09/hash-sequence/rejected mode="+req.Mode, firstLine(err), nil)
					continue
				}
				for ci, c := range calls {
					var want []*big.Int
					if c.m == 0 {
						want = o.GlHashNoPad(c.in)
					} else {
						want = o.RunPlan("gl", c.in, c.m)
					}
					bad := len(got[ci]) != len(want)
					for i := 0; !bad && i < len(want); i++ {
						bad = got[ci][i].Cmp(want[i]) != 0
					}
					if bad {
						resp.Violate("c09/hash-sequence/wrong mode="+req.Mode, fmt.Sprintf("hash %d of %d on one chip (n=%d, m=%d), read after all of them: got %v want %v", ci, len(calls), len(c.in), c.m, strsOf(got[ci]), strsOf(want)), map[string]any{"call": ci})
						break
					}
				}
			}
		}
	case "glconst":
		// the permutation and the sponge on gnark's real builders with the state given as COMPILE-TIME CONSTANTS (a builder may fold
		// constants on the host side, in machine words): the compiled system must accept exactly the reference output
		pm1 := new(big.Int).Sub(bigP, one)
		mkState := func(f func(i int) *big.Int) []*big.Int {
			s := make([]*big.Int, 12)
			for i := range s {
				s[i] = f(i)
			}
			return s
		}
		states := [][]*big.Int{
			mkState(func(i int) *big.Int { return big.NewInt(0) }),
			mkState(func(i int) *big.Int { return big.NewInt(int64(i + 1)) }),
			mkState(func(i int) *big.Int { return pm1 }),
			mkState(func(i int) *big.Int {
				if i == 3 {
					return pm1
				}
				return big.NewInt(0)
			}),
			mkState(func(i int) *big.Int { return drv.RandBelow(rng, bigP) }),
			mkState(func(i int) *big.Int { return new(big.Int).Sub(bigP, big.NewInt(int64(1+rng.Intn(1<<30)))) }),
		}
		for si, st := range states {
			want := o.GlPerm(st)
			for _, sys := range []string{"r1cs", "scs"} {
				stage, err := solveOnBuilder(sys, nil, want, func(api frontend.API, in []frontend.Variable) []frontend.Variable {
					var s poseidon.GoldilocksState
					for i := range s {
						s[i] = gl.NewVariable(new(big.Int).Set(st[i])) // a constant, not a wire
					}
					out := poseidon.NewGoldilocksChip(api).Poseidon(s)
					res := make([]frontend.Variable, 12)
					for i := range res {
						res[i] = out[i].Limb
					}
					return res
				})
				resp.Count(fmt.Sprintf("glconst/%s/%d/%v", sys, si, st[3]), false)
				if err != nil {
					resp.Violate("c09/perm-constants/"+stage+" sys="+sys, fmt.Sprintf("Poseidon on the constant state %v compiled with the real %s builder does not accept the reference output (%s: %s)", strsOf(st), sys, stage, firstLine(err)), map[string]any{"state": strsOf(st)})
				}
			}
		}
		// the sponge on constant inputs (incl. the empty input); variant 1: the constants are not canonical (value + k p, beyond 64 bits) -
		// HashNoPad reduces its inputs first, also when a builder can do that on the host
		for _, nv := range [][2]int{{0, 0}, {1, 0}, {8, 0}, {9, 0}, {3, 1}, {9, 1}} {
			n := nv[0]
			in := make([]*big.Int, n)
			canon := make([]*big.Int, n)
			for i := range in {
				canon[i] = new(big.Int).Sub(bigP, big.NewInt(int64(1+i)))
				in[i] = new(big.Int).Set(canon[i])
				if nv[1] == 1 {
					canon[i] = drv.RandBelow(rng, bigP)
					k := []*big.Int{big.NewInt(1), big.NewInt(2), big.NewInt(3), pow2(33), new(big.Int).Sub(pow2(60), one)}[i%5]
					in[i] = new(big.Int).Add(canon[i], new(big.Int).Mul(k, bigP))
				}
			}
			want := o.GlHashNoPad(canon)
			stage, err := solveOnBuilder("r1cs", nil, want, func(api frontend.API, _ []frontend.Variable) []frontend.Variable {
				vs := make([]gl.Variable, n)
				for i := range vs {
					vs[i] = gl.NewVariable(new(big.Int).Set(in[i]))
				}
				h := poseidon.NewGoldilocksChip(api).HashNoPad(vs)
				return []frontend.Variable{h[0].Limb, h[1].Limb, h[2].Limb, h[3].Limb}
			})
			resp.Count(fmt.Sprintf("glconst-hash/%d/%d", n, nv[1]), false)
			if err != nil {
				resp.Violate("c09/hash-constants/"+stage, fmt.Sprintf("HashNoPad on %d constant inputs %v compiled with the real r1cs builder does not accept the reference output (%s: %s)", n, strsOf(in), stage, firstLine(err)), map[string]any{"n": n})
			}
		}
	case "glreal":
		// the permutation and the sponge on WITNESS inputs compiled with gnark's real builders (a builder manipulates linear expressions and
		// may write a multiply-accumulate into the storage of an operand: nothing of that exists on the test engine)
		for si := 0; si < 2; si++ {
			st := make([]*big.Int, 12)
			for i := range st {
				st[i] = drv.RandBelow(rng, bigP)
				if si == 0 && i%4 == 1 {
					st[i] = glEdge()[rng.Intn(7)]
				}
			}
			want := o.GlPerm(st)
			for _, sys := range []string{"r1cs", "scs"} {
				stage, err := solveOnBuilder(sys, st, want, func(api frontend.API, in []frontend.Variable) []frontend.Variable {
					var s poseidon.GoldilocksState
					for i := range s {
						s[i] = gl.NewVariable(in[i])
					}
					out := poseidon.NewGoldilocksChip(api).Poseidon(s)
					res := make([]frontend.Variable, 12)
					for i := range res {
						res[i] = out[i].Limb
					}
					return res
				})
				resp.Count(fmt.Sprintf("glreal/%s/%d/%v", sys, si, st[0]), false)
				if err != nil {
					resp.Violate("c09/perm-real/"+stage+" sys="+sys, fmt.Sprintf("Poseidon on the witness state %v compiled with the real %s builder does not accept the reference output (%s: %s)", strsOf(st), sys, stage, firstLine(err)), map[string]any{"state": strsOf(st)})
				}
			}
		}
		for _, n := range []int{3, 9} {
			in := make([]*big.Int, n)
			for i := range in {
				in[i] = drv.RandBelow(rng, bigP)
			}
			want := o.GlHashNoPad(in)
			for _, sys := range []string{"r1cs", "scs"} {
				stage, err := solveOnBuilder(sys, in, want, func(api frontend.API, iv []frontend.Variable) []frontend.Variable {
					vs := make([]gl.Variable, n)
					for i := range vs {
						vs[i] = gl.NewVariable(iv[i])
					}
					h := poseidon.NewGoldilocksChip(api).HashNoPad(vs)
					return []frontend.Variable{h[0].Limb, h[1].Limb, h[2].Limb, h[3].Limb}
				})
				resp.Count(fmt.Sprintf("glreal-hash/%s/%d", sys, n), false)
				if err != nil {
					resp.Violate("c09/hash-real/"+stage+" sys="+sys, fmt.Sprintf("HashNoPad on %d witness inputs compiled with the real %s builder does not accept the reference output (%s: %s)", n, sys, stage, firstLine(err)), map[string]any{"n": n})
				}
			}
		}
	case "bnreal":
		// BN254 Poseidon, the two-to-one compression and the sponge on witness inputs compiled with gnark's real builders
		rm1 := new(big.Int).Sub(bigR, one)
		states := [][]*big.Int{{big.NewInt(0), big.NewInt(0), big.NewInt(0), big.NewInt(0)}, {rm1, big.NewInt(0), big.NewInt(1), rm1}}
		for i := 0; i < 2; i++ {
			states = append(states, []*big.Int{drv.RandBelow(rng, bigR), drv.RandBelow(rng, bigR), drv.RandBelow(rng, bigR), drv.RandBelow(rng, bigR)})
		}
		for si, st := range states {
			want := o.BnPerm(st)
			for _, sys := range []string{"r1cs", "scs"} {
				stage, err := solveOnBuilder(sys, st, want, func(api frontend.API, in []frontend.Variable) []frontend.Variable {
					out := poseidon.NewBN254Chip(api).Poseidon(poseidon.BN254State{in[0], in[1], in[2], in[3]})
					return []frontend.Variable{out[0], out[1], out[2], out[3]}
				})
				resp.Count(fmt.Sprintf("bnreal/%s/%d/%v", sys, si, st[0]), false)
				if err != nil {
					resp.Violate("c10/perm-real/"+stage+" sys="+sys, fmt.Sprintf("BN254 Poseidon(%v) compiled with the real %s builder does not accept the reference output (%s: %s)", strsOf(st), sys, stage, firstLine(err)), map[string]any{"state": strsOf(st)})
				}
			}
		}
		for i := 0; i < 3; i++ {
			l, r := drv.RandBelow(rng, bigR), drv.RandBelow(rng, bigR)
			if i == 0 {
				l, r = big.NewInt(0), big.NewInt(0)
			}
			for _, sys := range []string{"r1cs", "scs"} {
				stage, err := solveOnBuilder(sys, []*big.Int{l, r}, []*big.Int{o.BnTwoToOne(l, r)}, func(api frontend.API, in []frontend.Variable) []frontend.Variable {
					return []frontend.Variable{poseidon.NewBN254Chip(api).TwoToOne(in[0], in[1])}
				})
				resp.Count(fmt.Sprintf("bnreal-2to1/%s/%v", sys, l), false)
				if err != nil {
					resp.Violate("c10/hash-real/"+stage+" fn=TwoToOne sys="+sys, fmt.Sprintf("TwoToOne(%v,%v) compiled with the real %s builder does not accept the reference output (%s: %s)", l, r, sys, stage, firstLine(err)), nil)
				}
			}
		}
		for _, n := range []int{0, 2, 3, 4, 12} {
			in := make([]*big.Int, n)
			for i := range in {
				in[i] = drv.RandBelow(rng, bigP)
			}
			want := []*big.Int{o.RunPlan("bn", in, 1)[0], o.BnHashOrNoop(in)}
			for _, sys := range []string{"r1cs", "scs"} {
				stage, err := solveOnBuilder(sys, in, want, func(api frontend.API, iv []frontend.Variable) []frontend.Variable {
					vs := make([]gl.Variable, n)
					for i := range vs {
						vs[i] = gl.NewVariable(iv[i])
					}
					chip := poseidon.NewBN254Chip(api)
					return []frontend.Variable{chip.HashNoPad(vs), chip.HashOrNoop(vs)}
				})
				resp.Count(fmt.Sprintf("bnreal-hash/%s/%d", sys, n), false)
				if err != nil {
					resp.Violate("c10/hash-real/"+stage+" fn=HashNoPad/HashOrNoop sys="+sys, fmt.Sprintf("n=%d witness inputs compiled with the real %s builder: the reference outputs are not accepted (%s: %s)", n, sys, stage, firstLine(err)), map[string]any{"n": n})
				}
			}
		}
	case "bnperm":
		rm1 := new(big.Int).Sub(bigR, one)
		states := [][]*big.Int{{big.NewInt(0), big.NewInt(0), big.NewInt(0), big.NewInt(0)}, {big.NewInt(0), big.NewInt(1), big.NewInt(2), big.NewInt(3)}, {rm1, rm1, rm1, rm1},
			{big.NewInt(1), big.NewInt(0), big.NewInt(0), big.NewInt(0)}, {big.NewInt(0), big.NewInt(0), big.NewInt(0), rm1}, {rm1, big.NewInt(0), big.NewInt(1), rm1}}
		for i := 0; i < req.NRandom; i++ {
			s := make([]*big.Int, 4)
			for j := range s {
				s[j] = drv.RandBelow(rng, bigR)
			}
			states = append(states, s)
		}
		for _, st := range states {
			var got []*big.Int
			cfg := &engine.Config{Mode: modeOf(req.Mode)}
			err := hc.Run(cfg, st, func(api frontend.API, in []frontend.Variable) error {
				out := poseidon.NewBN254Chip(api).Poseidon(poseidon.BN254State{in[0], in[1], in[2], in[3]})
				for i := range out {
					got = append(got, new(big.Int).Set(engine.ToBig(out[i])))
				}
				return nil
			})
			resp.Count(fmt.Sprint("bnperm/", strsOf(st)), false)
			want := o.BnPerm(st)
			if err != nil {
				resp.Violate("c10/perm/rejected", firstLine(err), map[string]any{"state": strsOf(st)})
				continue
			}
			for i := range want {
				if got[i].Cmp(want[i]) != 0 {
					resp.Violate("c10/perm/wrong", fmt.Sprintf("BN254 Poseidon(%v)[%d] = %v, reference %v", strsOf(st), i, got[i], want[i]), map[string]any{"state": strsOf(st)})
					break
				}
			}
			if len(resp.Samples) < 2 {
				resp.Sample(map[string]any{"bn_state": strsOf(st), "out0": got[0].String()})
			}
		}
	case "bnhash":
		for n := 0; n <= req.MaxLen; n++ {
			for rep := 0; rep < 1+req.NRandom; rep++ {
				in := make([]*big.Int, n)
				for i := range in {
					in[i] = drv.RandBelow(rng, bigP)
					if rep == 0 && rng.Intn(3) == 0 {
						in[i] = glEdge()[rng.Intn(7)]
					}
				}
				var gotNoPad, gotNoop *big.Int
				cfg := &engine.Config{Mode: modeOf(req.Mode)}
				err := hc.Run(cfg, in, func(api frontend.API, iv []frontend.Variable) error {
					vs := make([]gl.Variable, n)
					for i := range vs {
						vs[i] = gl.NewVariable(iv[i])
					}
					chip := poseidon.NewBN254Chip(api)
					gotNoPad = new(big.Int).Set(engine.ToBig(chip.HashNoPad(vs)))
					gotNoop = new(big.Int).Set(engine.ToBig(chip.HashOrNoop(vs)))
					return nil
				})
				resp.Count(fmt.Sprintf("bnhash/%d/%v", n, strsOf(in)), false)
				if err != nil {
					resp.Violate("c10/hash/rejected", fmt.Sprintf("n=%d: %s", n, firstLine(err)), map[string]any{"in": strsOf(in)})
					continue
				}
				wantNoPad := o.RunPlan("bn", in, 1)[0]
				wantNoop := o.BnHashOrNoop(in)
				if gotNoPad.Cmp(wantNoPad) != 0 {
					resp.Violate("c10/hash/wrong fn=HashNoPad", fmt.Sprintf("n=%d in=%v: got %v want %v", n, strsOf(in), gotNoPad, wantNoPad), map[string]any{"in": strsOf(in)})
				}
				if gotNoop.Cmp(wantNoop) != 0 {
					resp.Violate("c10/hash/wrong fn=HashOrNoop", fmt.Sprintf("n=%d in=%v: got %v want %v", n, strsOf(in), gotNoop, wantNoop), map[string]any{"in": strsOf(in)})
				}
				if len(resp.Samples) < 3 && (n == 3 || n == 10) {
					resp.Sample(map[string]any{"n": n, "hash_or_noop": gotNoop.String()})
				}
			}
		}
		// two-to-one compression
		for i := 0; i < 6+req.NRandom; i++ {
			l, r := drv.RandBelow(rng, bigR), drv.RandBelow(rng, bigR)
			if i == 0 {
				l, r = big.NewInt(0), big.NewInt(0)
			}
			if i == 1 {
				l, r = new(big.Int).Sub(bigR, one), big.NewInt(1)
			}
			var got *big.Int
			err := hc.Run(&engine.Config{Mode: modeOf(req.Mode)}, []*big.Int{l, r}, func(api frontend.API, iv []frontend.Variable) error {
				got = new(big.Int).Set(engine.ToBig(poseidon.NewBN254Chip(api).TwoToOne(iv[0], iv[1])))
				return nil
			})
			resp.Count(fmt.Sprintf("two2one/%v/%v", l, r), false)
			if err != nil || got.Cmp(o.BnTwoToOne(l, r)) != 0 {
				resp.Violate("c10/hash/wrong fn=TwoToOne", fmt.Sprintf("TwoToOne(%v,%v) = %v want %v (%v)", l, r, got, o.BnTwoToOne(l, r), firstLine(err)), map[string]any{"l": l.String(), "r": r.String()})
			}
		}
	case "tovec":
		vals := []*big.Int{big.NewInt(0), big.NewInt(1), new(big.Int).Sub(bigR, one), pow2(56), new(big.Int).Sub(pow2(56), one), pow2(224), new(big.Int).Sub(pow2(253), one), pow2(253),
			new(big.Int).Sub(pow2(64), one), new(big.Int).Add(pow2(112), pow2(55))}
		for i := 0; i < req.NRandom; i++ {
			vals = append(vals, drv.RandBelow(rng, bigR))
		}
		for _, h := range vals {
			var got []*big.Int
			err := hc.Run(&engine.Config{Mode: modeOf(req.Mode)}, []*big.Int{h}, func(api frontend.API, iv []frontend.Variable) error {
				for _, x := range poseidon.NewBN254Chip(api).ToVec(iv[0]) {
					got = append(got, new(big.Int).Set(engine.ToBig(x.Limb)))
				}
				return nil
			})
			resp.Count("tovec/"+h.String(), false)
			want := ref.BnToVec(h)
			bad := err != nil || len(got) != len(want)
			for i := 0; !bad && i < len(want); i++ {
				bad = got[i].Cmp(want[i]) != 0
			}
			if bad {
				resp.Violate("c10/tovec/wrong", fmt.Sprintf("ToVec(%v) = %v want %v (%v)", h, strsOf(got), strsOf(want), firstLine(err)), map[string]any{"h": h.String()})
			}
			// the chunks determine the hash (injectivity witness): recompose
			rec := new(big.Int)
			for i := len(got) - 1; i >= 0; i-- {
				rec.Lsh(rec, 56)
				rec.Add(rec, got[i])
			}
			if !bad && rec.Cmp(h) != 0 {
				resp.Violate("c10/tovec/not-injective", fmt.Sprintf("chunks of %v recompose to %v", h, rec), map[string]any{"h": h.String()})
			}
		}
		// "the conversion is a function": if the decomposition of the hash is supplied by the prover (a hint), the bits of h + r must
		// not be accepted in place of the bits of h.  (gnark's full-width api.ToBinary has no hint on the test engine; then nothing is
		// substituted and the case counts as trivial.)
		lim := new(big.Int).Sub(pow2(254), bigR)
		for _, h := range []*big.Int{big.NewInt(0), big.NewInt(1), new(big.Int).Sub(lim, one), drv.RandBelow(rng, lim), drv.RandBelow(rng, lim)} {
			applied := false
			cfg := &engine.Config{Mode: modeOf(req.Mode)}
			cfg.Strategy = func(c *engine.HintCall) []*big.Int {
				if len(c.Honest) < 200 || len(c.Inputs) == 0 {
					return nil
				}
				for _, b := range c.Honest {
					if b.Sign() != 0 && b.Cmp(one) != 0 {
						return nil
					}
				}
				y := new(big.Int).Add(c.Inputs[len(c.Inputs)-1], bigR)
				if y.BitLen() > len(c.Honest) {
					return nil
				}
				out := make([]*big.Int, len(c.Honest))
				for i := range out {
					out[i] = big.NewInt(int64(y.Bit(i)))
				}
				applied = true
				return out
			}
			var got []*big.Int
			err := hc.Run(cfg, []*big.Int{h}, func(api frontend.API, iv []frontend.Variable) error {
				for _, x := range poseidon.NewBN254Chip(api).ToVec(iv[0]) {
					got = append(got, new(big.Int).Set(engine.ToBig(x.Limb)))
				}
				return nil
			})
			resp.Count("tovec-unique/"+h.String(), !applied)
			if applied && err == nil {
				resp.Violate("c10/tovec/second-decomposition", fmt.Sprintf("ToVec(%v): the bits of h + r supplied for the prover-chosen decomposition satisfy every constraint; the chunks become %v instead of %v", h, strsOf(got), strsOf(ref.BnToVec(h))), map[string]any{"h": h.String()})
			}
		}
		// ... and if the five chunks themselves are prover-supplied: the hash h + p*2^(56 i) presented with the chunks of h, chunk i given
		// as value + p (the same element for the transcript, which reduces what it absorbs) must not be accepted
		for i := 0; i < 5; i++ {
			h := drv.RandBelow(rng, bigR)
			h2 := new(big.Int).Add(h, new(big.Int).Lsh(bigP, uint(56*i)))
			h2.Mod(h2, bigR) // the recomposition is an equation in the scalar field
			applied := false
			cfg := &engine.Config{Mode: modeOf(req.Mode)}
			cfg.Strategy = func(c *engine.HintCall) []*big.Int {
				if len(c.Honest) != 5 || engine.KnownHint(c.Name) {
					return nil
				}
				out := ref.BnToVec(h)
				out[i] = new(big.Int).Add(out[i], bigP)
				applied = true
				return out
			}
			err := hc.Run(cfg, []*big.Int{h2}, func(api frontend.API, iv []frontend.Variable) error {
				poseidon.NewBN254Chip(api).ToVec(iv[0])
				return nil
			})
			resp.Count(fmt.Sprintf("tovec-alias/%d/%s", i, h), !applied)
			if applied && err == nil {
				resp.Violate("c10/tovec/aliased-hash", fmt.Sprintf("ToVec(h + p*2^%d) accepts the chunks of h with chunk %d given as value + p: two hashes are observed as the same elements", 56*i, i), map[string]any{"h": h.String(), "i": i})
			}
		}
		resp.Sample(map[string]any{"tovec_of_r_minus_1": strsOf(ref.BnToVec(new(big.Int).Sub(bigR, one)))})
	default:
		return fmt.Errorf("unknown part %q", req.Part)
	}
	return nil
}

var _ = rand.Int

// loadOracleDefault loads the oracle from the files named by VERIF_GL_SCHED / VERIF_BN_SCHED / VERIF_PLANS.
func loadOracleDefault() (*ref.Oracle, error) {
	return loadOracle(oracleFiles{GlSched: os.Getenv("VERIF_GL_SCHED"), BnSched: os.Getenv("VERIF_BN_SCHED"), Plans: os.Getenv("VERIF_PLANS")})
}
