package drivers

import (
	"encoding/json"
	"fmt"
	"os"
	"regexp"
	"sort"
	"strings"

	"github.com/wormhole-foundation/example-near-light-client/plonk/gates"
	"github.com/wormhole-foundation/example-near-light-client/types"
	"verifharness/data"
	"verifharness/drv"
)

type gateIdCase struct {
	ID        string   `json:"id"`
	Gate      string   `json:"gate"`
	Supported bool     `json:"supported"`
	D         int      `json:"d"`
	MatchSet  []string `json:"matchset"`
}

type c18Req struct {
	Cases string `json:"cases"`
	Reps  int    `json:"reps"`
	Shard int    `json:"shard"`
	N     int    `json:"nshards"`
}

func init() { drv.Register("c18", c18) }

var reLeadIdent = regexp.MustCompile(`^[A-Za-z0-9]+`)
var reNum = regexp.MustCompile(`\d+`)

func entryName(regexSrc string) string { return reLeadIdent.FindString(regexSrc) }

func resolve(id string) (g gates.Gate, panicked string) {
	defer func() {
		if r := recover(); r != nil {
			panicked = fmt.Sprint(r)
		}
	}()
	return gates.GateInstanceFromId(id), ""
}

// parameters stated by an identifier: the numbers before the phantom / weight list
func statedParams(id string) []string {
	cut := id
	for _, m := range []string{"barycentric_weights", "_phantom", "(PhantomData", "<WIDTH", "<D="} {
		if i := strings.Index(cut, m); i >= 0 {
			cut = cut[:i]
		}
	}
	name := reLeadIdent.FindString(cut)
	return reNum.FindAllString(cut[len(name):], -1)
}

func c18(raw json.RawMessage, resp *drv.Response) error {
	var req c18Req
	if err := json.Unmarshal(raw, &req); err != nil {
		return err
	}
	b, err := os.ReadFile(req.Cases)
	if err != nil {
		return err
	}
	var cases []gateIdCase
	if err := json.Unmarshal(b, &cases); err != nil {
		return err
	}
	if req.Reps == 0 {
		req.Reps = 200
	}
	// the implementation's table, by entry name
	table := gates.VerifGateRegexes()
	names := []string{}
	for _, r := range table {
		names = append(names, entryName(r))
	}
	sort.Strings(names)
	resp.Note("table_entries", strings.Join(names, ","))
	for ci, c := range cases {
		if req.N > 0 && ci%req.N != req.Shard {
			continue
		}
		resp.Count(c.ID, false)
		// (a) the deterministic view: which expressions match
		var real []string
		for _, r := range gates.VerifMatchingGateRegexes(c.ID) {
			real = append(real, entryName(r))
		}
		sort.Strings(real)
		model := append([]string{}, c.MatchSet...)
		sort.Strings(model)
		if strings.Join(real, ",") != strings.Join(model, ",") {
			if len(real) > 1 || (c.Supported && !(len(real) == 1 && real[0] == c.Gate)) {
				resp.Violate(fmt.Sprintf("c18/matchset gate=%s supported=%v", c.Gate, c.Supported),
					fmt.Sprintf("identifier %q is matched by the expressions of %v (the model: %v): the resolution depends on map iteration order or names another gate", c.ID, real, model), c)
			} else {
				resp.Inc("matchset_drift", 1)
			}
		}
		// (b) repeated resolution sweeps Go's randomised map iteration order
		seen := map[string]int{}
		for r := 0; r < req.Reps; r++ {
			g, p := resolve(c.ID)
			key := "panic"
			if p == "" {
				key = g.Id()
			}
			seen[key]++
		}
		if c.Supported {
			for k := range seen {
				ok := k != "panic" && strings.HasPrefix(k, c.Gate) && (len(k) == len(c.Gate) || k[len(c.Gate)] == ' ' || k[len(c.Gate)] == '(')
				if ok {
					want := statedParams(c.ID)
					got := statedParams(k)
					if len(want) > len(got) {
						ok = false
					}
					for i := range want {
						if ok && got[i] != want[i] {
							ok = false
						}
					}
				}
				if !ok {
					resp.Violate(fmt.Sprintf("c18/resolve/wrong gate=%s", c.Gate),
						fmt.Sprintf("identifier %q resolved to %q in %d of %d resolutions", c.ID, k, seen[k], req.Reps), c)
				}
			}
		} else {
			for k, n := range seen {
				if k != "panic" {
					resp.Violate(fmt.Sprintf("c18/resolve/unimplemented-accepted gate=%s d=%d", c.Gate, c.D),
						fmt.Sprintf("identifier %q of a gate the verifier does not implement was bound to %q in %d of %d resolutions instead of being refused", c.ID, k, n, req.Reps), c)
				}
			}
		}
		if len(resp.Samples) < 4 {
			resp.Sample(map[string]any{"id": c.ID, "matches": real, "resolutions": seen})
		}
	}
	// (b') resolution is a function of the identifier, not of what the process resolved before: every supported identifier once
	// more, each a single time, in reverse and in an interleaved order (neighbours then differ in one parameter only)
	if req.Shard == 0 {
		var sup []gateIdCase
		for _, c := range cases {
			if c.Supported {
				sup = append(sup, c)
			}
		}
		orders := [][]int{{}, {}}
		for i := range sup {
			orders[0] = append(orders[0], len(sup)-1-i)
		}
		for i := 0; i < len(sup); i += 2 {
			orders[1] = append(orders[1], i)
		}
		for i := 1; i < len(sup); i += 2 {
			orders[1] = append(orders[1], i)
		}
		for oi, ord := range orders {
			for _, ci := range ord {
				c := sup[ci]
				g, p := resolve(c.ID)
				k := "panic"
				if p == "" {
					k = g.Id()
				}
				resp.Count(fmt.Sprintf("order%d/%s", oi, c.ID), false)
				ok := k != "panic" && strings.HasPrefix(k, c.Gate)
				if ok {
					want, got := statedParams(c.ID), statedParams(k)
					if len(want) > len(got) {
						ok = false
					}
					for i := range want {
						if ok && got[i] != want[i] {
							ok = false
						}
					}
				}
				if !ok {
					resp.Violate(fmt.Sprintf("c18/resolve/history-dependent gate=%s", c.Gate),
						fmt.Sprintf("identifier %q resolved to %q after other identifiers had been resolved in the same process (order %d)", c.ID, k, oi), c)
				}
			}
		}
	}
	// (b'') identifiers that must be refused (another extension degree, gates the verifier does not implement) are still refused after
	// every supported identifier has been resolved in the same process
	if req.Shard == 0 {
		for _, c := range cases {
			if c.Supported {
				resolve(c.ID)
			}
		}
		for _, c := range cases {
			if c.Supported {
				continue
			}
			g, p := resolve(c.ID)
			resp.Count("after-supported/"+c.ID, false)
			if p == "" {
				resp.Violate(fmt.Sprintf("c18/resolve/history-dependent-accept gate=%s d=%d", c.Gate, c.D),
					fmt.Sprintf("identifier %q, refused in a fresh process, is bound to %q once the supported identifiers have been resolved in the same process", c.ID, g.Id()), c)
			}
		}
	}
	// (c) hiding
	if req.Shard == 0 {
		inst := data.ByName("testdata")
		rawCD, err := os.ReadFile(inst.Common)
		if err != nil {
			return err
		}
		var doc map[string]any
		if err := json.Unmarshal(rawCD, &doc); err != nil {
			return err
		}
		doc["fri_params"].(map[string]any)["hiding"] = true
		tmp := drv.Tmp() + "/hiding.json"
		bb, _ := json.Marshal(doc)
		os.WriteFile(tmp, bb, 0644)
		refused := func() (r bool) {
			defer func() {
				if recover() != nil {
					r = true
				}
			}()
			types.ReadCommonCircuitData(tmp)
			return false
		}()
		resp.Count("hiding", false)
		if !refused {
			resp.Violate("c18/hiding/accepted", "a circuit description with fri_params.hiding = true is read without an error", map[string]any{"hiding": true})
		}
		os.Remove(tmp)
	}
	return nil
}
