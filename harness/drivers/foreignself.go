package drivers

// foreignself: the table of ForeignMoves.tla (which generic prover move wins against which set of constraints) replayed on real
// gadgets - gnark's own bit decomposition with the corresponding options for the shape "digits", a two-limb split with the harness's own
// hint for the shape "split".  The families are the ones engine.ForeignAlternatives plays at foreign hint
// sites; a disagreement with the table means the guard (drivers/foreign.go) and its specification have drifted apart.

import (
	"encoding/json"
	"fmt"
	"math/big"
	"os"
	"strings"

	"github.com/consensys/gnark/constraint/solver"
	"github.com/consensys/gnark/frontend"
	stdbits "github.com/consensys/gnark/std/math/bits"
	"verifharness/drv"
	"verifharness/engine"
	"verifharness/hc"
)

type foreignRow struct {
	Shape        string `json:"shape"`
	N            int    `json:"n"`
	Boolean      bool   `json:"boolean"`
	BelowModulus bool   `json:"belowModulus"`
	Family       string `json:"family"`
	Wins         bool   `json:"wins"`
}

type foreignSelfReq struct {
	Table string `json:"table"`
	Shard int    `json:"shard"`
}

func init() {
	drv.Register("foreignself", foreignSelf)
	solver.RegisterHint(splitSelfHint)
}

// splitSelfHint: (hi, lo) with x = hi*2^32 + lo - the harness's own two-limb split (independent of the repository's hint functions)
func splitSelfHint(_ *big.Int, in []*big.Int, out []*big.Int) error {
	out[0].Rsh(in[0], 32)
	out[1].And(in[0], new(big.Int).Sub(new(big.Int).Lsh(big.NewInt(1), 32), big.NewInt(1)))
	return nil
}

var familyName = map[string]string{
	"nonbooleanTop": "bits/nonboolean-top-digit", "topShift": "bits/two-top-digits-shifted", "allInDigit0": "bits/all-in-digit-0", "plusR": "bits/of-input-plus-r",
	"lowFlipHighSolved": "split/low-bit-flipped-high-solved", "allInLow": "split/all-in-low", "allInHigh": "split/all-in-high",
}

func foreignSelf(raw json.RawMessage, resp *drv.Response) error {
	var req foreignSelfReq
	if err := json.Unmarshal(raw, &req); err != nil {
		return err
	}
	b, err := os.ReadFile(req.Table)
	if err != nil {
		return err
	}
	var rows []foreignRow
	if err := json.Unmarshal(b, &rows); err != nil {
		return err
	}
	rng := drv.Rng(int64(4100 + req.Shard))
	narrow := 0
	for _, r := range rows {
		if r.Shape == "digits" && (narrow == 0 || r.N < narrow) {
			narrow = r.N
		}
	}
	for _, r := range rows {
		fam := familyName[r.Family]
		if fam == "" {
			return fmt.Errorf("unknown family %s", r.Family)
		}
		var xs []*big.Int
		var gadget func(api frontend.API, x frontend.Variable)
		if r.Shape == "digits" {
			n := 8 // narrow: 2^n below the modulus
			if r.N != narrow {
				n = 254 // full width
			}
			opts := []stdbits.BaseConversionOption{stdbits.WithNbDigits(n)}
			if !r.Boolean {
				opts = append(opts, stdbits.WithUnconstrainedOutputs())
			}
			if !r.BelowModulus {
				opts = append(opts, stdbits.OmitModulusCheck())
			}
			gadget = func(api frontend.API, x frontend.Variable) { stdbits.ToBinary(api, x, opts...) }
			lim := pow2(n)
			if lim.Cmp(bigR) > 0 {
				lim = new(big.Int).Sub(pow2(254), bigR) // values whose x + r still fits 254 digits
			}
			xs = []*big.Int{big.NewInt(0), big.NewInt(1), big.NewInt(5), new(big.Int).Sub(lim, one), drv.RandBelow(rng, lim), drv.RandBelow(rng, lim)}
		} else {
			gadget = func(api frontend.API, x frontend.Variable) {
				out, err := api.Compiler().NewHint(splitSelfHint, 2, x)
				if err != nil {
					panic(err)
				}
				hi, lo := out[0], out[1]
				api.AssertIsEqual(api.Add(api.Mul(hi, new(big.Int).Lsh(big.NewInt(1), 32)), lo), x)
				if r.Boolean { // BoundLo
					api.ToBinary(lo, 32)
				}
				if r.BelowModulus { // BoundHi
					api.ToBinary(hi, 32)
				}
			}
			xs = []*big.Int{big.NewInt(1), new(big.Int).Add(two32, big.NewInt(6)), new(big.Int).Sub(two64, one), drv.RandBelow(rng, two64), drv.RandBelow(rng, two64), two32}
		}
		wins := false
		applied := 0
		for _, x := range xs {
			var used bool
			cfg := &engine.Config{Mode: engine.Plain}
			cfg.Strategy = func(c *engine.HintCall) []*big.Int {
				for _, a := range engine.ForeignAlternatives(c) {
					if strings.HasPrefix(a.Family, fam) {
						same := true
						for i := range a.Out {
							if new(big.Int).Mod(a.Out[i], bigR).Cmp(c.Honest[i]) != 0 {
								same = false
							}
						}
						if same {
							return nil
						}
						used = true
						return a.Out
					}
				}
				return nil
			}
			err := hc.Run(cfg, []*big.Int{x}, func(api frontend.API, iv []frontend.Variable) error {
				gadget(api, iv[0])
				return nil
			})
			if used {
				applied++
				if err == nil {
					wins = true
				}
			}
		}
		key := fmt.Sprintf("%s/%d/%v/%v/%s", r.Shape, r.N, r.Boolean, r.BelowModulus, r.Family)
		resp.Count(key, false)
		if wins != r.Wins {
			resp.Violate("foreignself/table-mismatch "+key,
				fmt.Sprintf("ForeignMoves.tla: family %s against (%s, boolean/boundLo=%v, belowModulus/boundHi=%v) wins=%v; on the real gadget wins=%v (move applied to %d inputs)", r.Family, r.Shape, r.Boolean, r.BelowModulus, r.Wins, wins, applied), r)
		}
		if len(resp.Samples) < 5 {
			resp.Sample(map[string]any{"row": key, "model_wins": r.Wins, "real_wins": wins, "inputs_where_the_move_applied": applied})
		}
	}
	return nil
}
