package drivers

// foreignself: the table of ForeignMoves.tla (which generic prover move wins against which set of constraints) replayed on real
// gadgets - gnark's own bit decomposition with the corresponding options for the shape "digits", a two-limb split with the harness's own
// hint for the shape "split".  The families are the ones engine.ForeignAlternatives plays at foreign hint
// sites; a disagreement with the table means the guard (drivers/foreign.go) and its specification have drifted apart.

import (
	"encoding/json"
	"fmt"
	"math/big"
	"os"
	"strings"

	"github.com/consensys/gnark/constraint/solver"
	"github.com/consensys/gnark/frontend"
	stdbits "github.com/consensys/gnark/std/math/bits"
	"verifharness/drv"
	"verifharness/engine"
	"verifharness/hc"
)

type foreignRow struct {
	Shape        string `json:"shape"`
	N            int    `json:"n"`
	W            int    `json:"w"`     // digits: the width of a digit (1 = bits)
	Bound        string `json:"bound"` // digits: none | exact | wide
	Boolean      bool   `json:"boolean"`
	BelowModulus bool   `json:"belowModulus"`
	Family       string `json:"family"`
	Wins         bool   `json:"wins"`
}

type foreignSelfReq struct {
	Table string `json:"table"`
	Shard int    `json:"shard"`
}

func init() {
	drv.Register("foreignself", foreignSelf)
	solver.RegisterHint(splitSelfHint)
	solver.RegisterHint(radixSelfHint)
}

// radixSelfHint: the digits of in[0] in radix 2^in[1], least significant first - the harness's own chunk decomposition
func radixSelfHint(_ *big.Int, in []*big.Int, out []*big.Int) error {
	w := uint(in[1].Uint64())
	rest := new(big.Int).Set(in[0])
	mask := new(big.Int).Sub(new(big.Int).Lsh(big.NewInt(1), w), big.NewInt(1))
	for i := range out {
		out[i].And(rest, mask)
		rest.Rsh(rest, w)
	}
	return nil
}

// assertBitsLE: the bit string (least significant first) read as an integer is at most bound - the classic bitwise comparison
func assertBitsLE(api frontend.API, bits []frontend.Variable, bound *big.Int) {
	var eq frontend.Variable = 1
	for i := len(bits) - 1; i >= 0; i-- {
		if bound.Bit(i) == 1 {
			eq = api.Mul(eq, bits[i])
		} else {
			api.AssertIsEqual(api.Mul(eq, bits[i]), 0)
		}
	}
}

var radixFamilyName = map[string]string{
	"nonbooleanTop": "radix/low-bit-flipped-top-solved", "topShift": "radix/two-top-digits-shifted", "allInDigit0": "radix/all-in-digit-0", "plusR": "radix/of-input-plus-r",
	"borrow": "radix/borrow-from-top",
}

// splitSelfHint: (hi, lo) with x = hi*2^32 + lo - the harness's own two-limb split (independent of the repository's hint functions)
func splitSelfHint(_ *big.Int, in []*big.Int, out []*big.Int) error {
	out[0].Rsh(in[0], 32)
	out[1].And(in[0], new(big.Int).Sub(new(big.Int).Lsh(big.NewInt(1), 32), big.NewInt(1)))
	return nil
}

var familyName = map[string]string{
	"nonbooleanTop": "bits/nonboolean-top-digit", "topShift": "bits/two-top-digits-shifted", "allInDigit0": "bits/all-in-digit-0", "plusR": "bits/of-input-plus-r",
	"lowFlipHighSolved": "split/low-bit-flipped-high-solved", "allInLow": "split/all-in-low", "allInHigh": "split/all-in-high",
}

func foreignSelf(raw json.RawMessage, resp *drv.Response) error {
	var req foreignSelfReq
	if err := json.Unmarshal(raw, &req); err != nil {
		return err
	}
	b, err := os.ReadFile(req.Table)
	if err != nil {
		return err
	}
	var rows []foreignRow
	if err := json.Unmarshal(b, &rows); err != nil {
		return err
	}
	rng := drv.Rng(int64(4100 + req.Shard))
	var unexercised []string // rows whose move applied to none of the inputs (expected: "the digits of x + r" at a narrow width only)
	narrow, narrowRadix := 0, 0
	for _, r := range rows {
		if r.Shape == "digits" && r.W <= 1 && (narrow == 0 || r.N < narrow) {
			narrow = r.N
		}
		if r.Shape == "digits" && r.W > 1 && (narrowRadix == 0 || r.N < narrowRadix) {
			narrowRadix = r.N
		}
	}
	for _, r := range rows {
		r := r
		fam := familyName[r.Family]
		if r.Shape == "digits" && r.W > 1 {
			fam = radixFamilyName[r.Family]
		}
		if fam == "" {
			return fmt.Errorf("unknown family %s", r.Family)
		}
		var xs []*big.Int
		var gadget func(api frontend.API, x frontend.Variable)
		if r.Shape == "digits" && r.W > 1 {
			// digits of 64 bits: three of them stay below r (narrow), four exceed it (full width)
			const w = 64
			n := 3
			if r.N != narrowRadix {
				n = 4
			}
			full := n*w >= 254
			gadget = func(api frontend.API, x frontend.Variable) {
				d, err := api.Compiler().NewHint(radixSelfHint, n, x, w)
				if err != nil {
					panic(err)
				}
				var sum frontend.Variable = 0
				for i := range d {
					sum = api.Add(sum, api.Mul(d[i], new(big.Int).Lsh(big.NewInt(1), uint(w*i))))
				}
				api.AssertIsEqual(sum, x)
				switch r.Bound {
				case "exact":
					for i := range d {
						api.ToBinary(d[i], w)
					}
				case "wide":
					for i := range d {
						api.ToBinary(d[i], w+8)
					}
				}
				if r.BelowModulus && full {
					var bits []frontend.Variable
					for i := range d {
						bits = append(bits, api.ToBinary(d[i], w)...)
					}
					assertBitsLE(api, bits, new(big.Int).Sub(bigR, one))
				}
			}
			lim := pow2(n * w)
			if full {
				lim = bigR
			}
			xs = []*big.Int{new(big.Int).Add(two64, big.NewInt(6)), new(big.Int).Add(pow2(70), big.NewInt(3)), new(big.Int).Sub(lim, one),
				drv.RandBelow(rng, lim), drv.RandBelow(rng, lim), drv.RandBelow(rng, lim), new(big.Int).Add(pow2((n-1)*w), big.NewInt(5))}
		} else if r.Shape == "digits" {
			n := 8 // narrow: 2^n below the modulus
			if r.N != narrow {
				n = 254 // full width
			}
			opts := []stdbits.BaseConversionOption{stdbits.WithNbDigits(n)}
			if !r.Boolean {
				opts = append(opts, stdbits.WithUnconstrainedOutputs())
			}
			if !r.BelowModulus {
				opts = append(opts, stdbits.OmitModulusCheck())
			}
			gadget = func(api frontend.API, x frontend.Variable) { stdbits.ToBinary(api, x, opts...) }
			lim := pow2(n)
			if lim.Cmp(bigR) > 0 {
				lim = new(big.Int).Sub(pow2(254), bigR) // values whose x + r still fits 254 digits
			}
			xs = []*big.Int{big.NewInt(0), big.NewInt(1), big.NewInt(5), new(big.Int).Sub(lim, one), drv.RandBelow(rng, lim), drv.RandBelow(rng, lim)}
		} else {
			gadget = func(api frontend.API, x frontend.Variable) {
				out, err := api.Compiler().NewHint(splitSelfHint, 2, x)
				if err != nil {
					panic(err)
				}
				hi, lo := out[0], out[1]
				api.AssertIsEqual(api.Add(api.Mul(hi, new(big.Int).Lsh(big.NewInt(1), 32)), lo), x)
				if r.Boolean { // BoundLo
					api.ToBinary(lo, 32)
				}
				if r.BelowModulus { // BoundHi
					api.ToBinary(hi, 32)
				}
			}
			xs = []*big.Int{big.NewInt(1), new(big.Int).Add(two32, big.NewInt(6)), new(big.Int).Sub(two64, one), drv.RandBelow(rng, two64), drv.RandBelow(rng, two64), two32}
		}
		wins := false
		applied := 0
		for _, x := range xs {
			var used bool
			cfg := &engine.Config{Mode: engine.Plain}
			cfg.Strategy = func(c *engine.HintCall) []*big.Int {
				for _, a := range engine.ForeignAlternatives(c) {
					if strings.HasPrefix(a.Family, fam) {
						same := true
						for i := range a.Out {
							if new(big.Int).Mod(a.Out[i], bigR).Cmp(c.Honest[i]) != 0 {
								same = false
							}
						}
						if same {
							return nil
						}
						used = true
						return a.Out
					}
				}
				return nil
			}
			err := hc.Run(cfg, []*big.Int{x}, func(api frontend.API, iv []frontend.Variable) error {
				gadget(api, iv[0])
				return nil
			})
			if used {
				applied++
				if err == nil {
					wins = true
				}
			}
		}
		key := fmt.Sprintf("%s/w%d/%d/%s%v/%v/%s", r.Shape, r.W, r.N, r.Bound, r.Boolean, r.BelowModulus, r.Family)
		resp.Count(key, false)
		if applied == 0 {
			unexercised = append(unexercised, key)
		}
		if wins != r.Wins {
			resp.Violate("foreignself/table-mismatch "+key,
				fmt.Sprintf("ForeignMoves.tla: family %s against (%s w=%d n=%d, bound=%s boolean/boundLo=%v, belowModulus/boundHi=%v) wins=%v; on the real gadget wins=%v (move applied to %d inputs)", r.Family, r.Shape, r.W, r.N, r.Bound, r.Boolean, r.BelowModulus, r.Wins, wins, applied), r)
		}
		if len(resp.Samples) < 5 {
			resp.Sample(map[string]any{"row": key, "model_wins": r.Wins, "real_wins": wins, "inputs_where_the_move_applied": applied})
		}
	}
	resp.Note("rows_move_never_applied", unexercised)
	return nil
}
