package drivers

import (
	"encoding/json"
	"fmt"
	"math/big"
	"os"
	"sort"
	"strings"

	"github.com/consensys/gnark/frontend"
	gl "github.com/wormhole-foundation/example-near-light-client/goldilocks"
	"verifharness/engine"
	"verifharness/hc"
)

var (
	bigP   = engine.P
	bigR   = engine.R
	two32  = new(big.Int).Lsh(big.NewInt(1), 32)
	two64  = new(big.Int).Lsh(big.NewInt(1), 64)
	one    = big.NewInt(1)
	rMinus = new(big.Int).Sub(engine.R, big.NewInt(1))
)

func pow2(n int) *big.Int { return new(big.Int).Lsh(big.NewInt(1), uint(n)) }

func bi(s string) *big.Int {
	x, ok := new(big.Int).SetString(s, 10)
	if !ok {
		panic("bad int " + s)
	}
	return x
}

// Gadget describes one call of a base-field gadget of the repository.
type Gadget struct {
	Kind string `json:"kind"` // rangecheck nbits reduce reducebits muladd add sub mul inverse addnr subnr mulnr muladdnr
	Bits int    `json:"bits,omitempty"`
}

// runGadget executes one gadget on the proxy engine; inputs are witness leaves. Returns the gadget's outputs.
func runGadget(cfg *engine.Config, g Gadget, inputs []*big.Int, pad []*big.Int) ([]*big.Int, error) {
	var outs []*big.Int
	all := append(append([]*big.Int{}, inputs...), pad...)
	err := hc.Run(cfg, all, func(api frontend.API, in []frontend.Variable) error {
		chip := gl.New(api)
		for j := len(inputs); j < len(all); j++ {
			chip.RangeCheckWithMaxBits(gl.NewVariable(in[j]), 32)
		}
		v := func(i int) gl.Variable { return gl.NewVariable(in[i]) }
		out := func(xs ...gl.Variable) {
			for _, x := range xs {
				outs = append(outs, new(big.Int).Set(engine.ToBig(x.Limb)))
			}
		}
		switch g.Kind {
		case "rangecheck":
			chip.RangeCheck(v(0))
		case "nbits":
			chip.RangeCheckWithMaxBits(v(0), uint64(g.Bits))
		case "reduce":
			out(chip.Reduce(v(0)))
		case "reducebits":
			out(chip.ReduceWithMaxBits(v(0), uint64(g.Bits)))
		case "muladd":
			out(chip.MulAdd(v(0), v(1), v(2)))
		case "add":
			out(chip.Add(v(0), v(1)))
		case "sub":
			out(chip.Sub(v(0), v(1)))
		case "mul":
			out(chip.Mul(v(0), v(1)))
		case "addnr":
			out(chip.AddNoReduce(v(0), v(1)))
		case "subnr":
			out(chip.SubNoReduce(v(0), v(1)))
		case "mulnr":
			out(chip.MulNoReduce(v(0), v(1)))
		case "muladdnr":
			out(chip.MulAddNoReduce(v(0), v(1), v(2)))
		case "inverse":
			inv, has := chip.Inverse(v(0))
			out(inv, gl.NewVariable(has))
		default:
			return fmt.Errorf("unknown gadget %s", g.Kind)
		}
		return nil
	})
	return outs, err
}

func setBitDecompEnv(on bool) {
	if on {
		os.Setenv("USE_BIT_DECOMPOSITION_RANGE_CHECK", "true")
	} else {
		os.Unsetenv("USE_BIT_DECOMPOSITION_RANGE_CHECK")
	}
}

// rangeTrace turns the proxy's event list into the ndjson records of RangeChipTrace.tla.  Exact
// aggregations only: an rcreq immediately followed by the delivery of the same width is one record with
// deliv=1; identical consecutive rcreq records are run-length encoded (count); the hand-offs that follow a
// flush and the decompositions of gnark's commit callback are counted into their record.
func rangeTrace(cfg *engine.Config, start map[string]any, outcome string, pad int) []map[string]any {
	nreq := 0
	recs := []map[string]any{start}
	modeName := func(m int) string { return [...]string{"native", "commit", "bitdecomp"}[m] }
	evs := cfg.Events
	var flush, gnark map[string]any
	hw := map[int]bool{}
	for i := 0; i < len(evs); i++ {
		e := evs[i]
		switch e.Kind {
		case "newchip":
			recs = append(recs, map[string]any{"ev": "newchip", "mode": modeName(e.Args[0].(int))})
		case "rcreq":
			r := map[string]any{"ev": "rcreq", "mode": modeName(e.Args[0].(int)), "bits": e.Args[2].(int), "deliv": 0, "count": 1}
			if i+1 < len(evs) && evs[i+1].Kind == "deliver" && evs[i+1].Args[0] != "decompose" && evs[i+1].Args[1].(int) == e.Args[2].(int) {
				r["deliv"] = 1
				i++
			}
			last := recs[len(recs)-1]
			nreq++
			// only the padding requests (the first `pad` requests of the harness circuit) are run-length encoded
			if nreq > 1 && nreq <= pad && last["ev"] == "rcreq" && last["mode"] == r["mode"] && last["bits"] == r["bits"] && last["deliv"] == r["deliv"] {
				last["count"] = last["count"].(int) + 1
			} else {
				recs = append(recs, r)
			}
		case "deliver":
			if e.Args[0] == "decompose" {
				if gnark == nil {
					gnark = map[string]any{"ev": "gnarkcommit", "decomposed": 0}
					recs = append(recs, gnark)
				}
				gnark["decomposed"] = gnark["decomposed"].(int) + 1
			} else {
				recs = append(recs, map[string]any{"ev": "deliver", "via": e.Args[0], "bits": e.Args[1].(int)})
			}
		case "rcflush":
			flush = map[string]any{"ev": "rcflush", "n": e.Args[0].(int), "nbbits": e.Args[1].(int), "handoffs": 0}
			recs = append(recs, flush)
		case "rcdeliver":
			if flush != nil {
				flush["handoffs"] = flush["handoffs"].(int) + 1
				hw[e.Args[1].(int)] = true
			}
		case "enddefine":
			recs = append(recs, map[string]any{"ev": "enddefine"})
		}
	}
	if flush != nil {
		ws := []int{}
		for w := range hw {
			ws = append(ws, w)
		}
		sort.Ints(ws)
		flush["hwidths"] = ws
	}
	recs = append(recs, map[string]any{"ev": "outcome", "kind": outcome})
	// normalise: every record carries every field (TLC records are accessed by field name)
	for _, r := range recs {
		for k, d := range map[string]any{"mode": "", "bits": 0, "deliv": 0, "count": 1, "n": 0, "nbbits": 0, "via": "", "kind": "",
			"handoffs": 0, "hwidths": []int{}, "decomposed": 0,
			"rc": false, "commit": false, "ft": "none", "typer": false, "real": false, "env": false, "pad": 0} {
			if _, ok := r[k]; !ok {
				r[k] = d
			}
		}
	}
	return recs
}

func firstLine(err error) string { return hc.FirstLine(err) }

func modeOf(s string) engine.Mode { return engine.ParseMode(s) }

func join(xs []string) string { return strings.Join(xs, ",") }

func writeNdjson(path string, recs []map[string]any) error {
	f, err := os.Create(path)
	if err != nil {
		return err
	}
	defer f.Close()
	enc := json.NewEncoder(f)
	for _, r := range recs {
		if err := enc.Encode(r); err != nil {
			return err
		}
	}
	return nil
}
