// Package drivers holds one conformance driver per property.
package drivers
