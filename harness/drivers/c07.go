package drivers

import (
	"encoding/json"
	"fmt"
	"math/big"

	"github.com/consensys/gnark/frontend"
	gl "github.com/wormhole-foundation/example-near-light-client/goldilocks"
	"verifharness/drv"
	"verifharness/engine"
	"verifharness/gf"
	"verifharness/hc"
)

type c07Req struct {
	Part     string          `json:"part"` // ops | programs | reduce
	Mode     string          `json:"mode"`
	Ops      []opCase        `json:"ops"`
	Programs [][]interface{} `json:"programs"` // each: list of [op, i, j, k]
	NRandom  int             `json:"nrandom"`
	Shard    int             `json:"shard"`
}

type opCase struct {
	Op string   `json:"op"`
	In []string `json:"in"`
}

func init() { drv.Register("c07", c07) }

// refOp is the interpretation of GlOps.tla's operators at the real P (math/big).
func refOp(op string, a, b, c *big.Int) *big.Int {
	switch op {
	case "add", "addnr":
		return gf.Add(a, b)
	case "sub", "subnr":
		return gf.Sub(a, b)
	case "mul", "mulnr":
		return gf.Mul(a, b)
	case "muladd", "muladdnr":
		return gf.Add(gf.Mul(a, b), c)
	case "reduce":
		return gf.Mod(a)
	case "inverse":
		if gf.Mod(a).Sign() == 0 {
			return big.NewInt(0)
		}
		return gf.Inv(a)
	}
	panic("refOp " + op)
}

func applyOp(chip *gl.Chip, op string, a, b, c gl.Variable) (gl.Variable, frontend.Variable) {
	switch op {
	case "add":
		return chip.Add(a, b), nil
	case "sub":
		return chip.Sub(a, b), nil
	case "mul":
		return chip.Mul(a, b), nil
	case "muladd":
		return chip.MulAdd(a, b, c), nil
	case "addnr":
		return chip.AddNoReduce(a, b), nil
	case "subnr":
		return chip.SubNoReduce(a, b), nil
	case "mulnr":
		return chip.MulNoReduce(a, b), nil
	case "muladdnr":
		return chip.MulAddNoReduce(a, b, c), nil
	case "reduce":
		return chip.Reduce(a), nil
	case "inverse":
		return chip.Inverse(a)
	}
	panic("applyOp " + op)
}

var reducingOps = map[string]bool{"add": true, "sub": true, "mul": true, "muladd": true, "inverse": true, "reduce": true}

func c07(raw json.RawMessage, resp *drv.Response) error {
	var req c07Req
	if err := json.Unmarshal(raw, &req); err != nil {
		return err
	}
	if req.Mode == "" {
		req.Mode = "native"
	}
	rng := drv.Rng(int64(700 + req.Shard))
	var pad []*big.Int
	if req.Mode == "commit" {
		pad = padValues(commitPad, rng)
	}
	switch req.Part {
	case "ops":
		// all operand cases in one circuit; on failure, each case alone to locate it
		type res struct{ out, has *big.Int }
		runBatch := func(cases []opCase) ([]res, error) {
			var flat []*big.Int
			for _, c := range cases {
				for _, s := range c.In {
					flat = append(flat, bi(s))
				}
			}
			results := make([]res, len(cases))
			all := append(append([]*big.Int{}, flat...), pad...)
			cfg := &engine.Config{Mode: modeOf(req.Mode)}
			err := hc.Run(cfg, all, func(api frontend.API, in []frontend.Variable) error {
				chip := gl.New(api)
				for j := len(flat); j < len(all); j++ {
					chip.RangeCheckWithMaxBits(gl.NewVariable(in[j]), 32)
				}
				pos := 0
				for ci, c := range cases {
					var v [3]gl.Variable
					for t := 0; t < 3; t++ {
						if t < len(c.In) {
							v[t] = gl.NewVariable(in[pos+t])
						} else {
							v[t] = gl.Zero()
						}
					}
					pos += len(c.In)
					o, h := applyOp(chip, c.Op, v[0], v[1], v[2])
					results[ci].out = new(big.Int).Set(engine.ToBig(o.Limb))
					if h != nil {
						results[ci].has = new(big.Int).Set(engine.ToBig(h))
					}
				}
				return nil
			})
			return results, err
		}
		check := func(c opCase, r res, err error) {
			key := c.Op + ":" + join(c.In)
			resp.Count(req.Mode+"/"+key, false)
			var a [3]*big.Int
			for t := 0; t < 3; t++ {
				a[t] = big.NewInt(0)
				if t < len(c.In) {
					a[t] = bi(c.In[t])
				}
			}
			if err != nil {
				resp.Violate(fmt.Sprintf("c07/ops/rejected op=%s mode=%s", c.Op, req.Mode), fmt.Sprintf("%s on %v was rejected: %s", c.Op, c.In, firstLine(err)), c)
				return
			}
			want := refOp(c.Op, a[0], a[1], a[2])
			bad := false
			if reducingOps[c.Op] {
				bad = r.out.Cmp(want) != 0 // canonical result
			} else {
				bad = gf.Mod(r.out).Cmp(want) != 0 // congruent result
			}
			if c.Op == "inverse" {
				wantHas := int64(1)
				if gf.Mod(a[0]).Sign() == 0 {
					wantHas = 0
					bad = false // the value returned for zero is unspecified; the flag is what matters
				}
				if r.has == nil || r.has.Int64() != wantHas {
					bad = true
				}
			}
			if bad {
				resp.Violate(fmt.Sprintf("c07/ops/wrong op=%s mode=%s", c.Op, req.Mode),
					fmt.Sprintf("%s%v = %v (flag %v), the field says %v", c.Op, c.In, r.out, r.has, want), c)
			}
			if len(resp.Samples) < 4 {
				resp.Sample(map[string]any{"op": c.Op, "in": c.In, "out": r.out.String(), "ref": want.String(), "mode": req.Mode})
			}
		}
		rs, err := runBatch(req.Ops)
		if err == nil {
			for i, c := range req.Ops {
				check(c, rs[i], nil)
			}
		} else {
			for _, c := range req.Ops {
				r1, e1 := runBatch([]opCase{c})
				check(c, r1[0], e1)
			}
		}
		return nil
	case "programs-real":
		// the same programs compiled with gnark's real builders (R1CS, SCS) and solved with the honest hints: every step's result, reduced,
		// must be the field's.  A builder manipulates linear expressions, so an operand may be changed behind the caller's back there
		// although the test engine shows nothing; the fixed programs reuse an unreduced multiply-add result several times.
		fixed := [][]interface{}{
			{[]interface{}{"muladdnr", 1.0, 2.0, 3.0}, []interface{}{"add", 1.0, 4.0, 1.0}, []interface{}{"sub", 4.0, 2.0, 1.0}, []interface{}{"muladd", 1.0, 2.0, 4.0}, []interface{}{"add", 3.0, 4.0, 1.0}},
			{[]interface{}{"mulnr", 1.0, 2.0, 1.0}, []interface{}{"muladd", 3.0, 2.0, 4.0}, []interface{}{"muladd", 1.0, 1.0, 4.0}, []interface{}{"reduce", 4.0, 1.0, 1.0}},
			{[]interface{}{"addnr", 1.0, 2.0, 1.0}, []interface{}{"muladdnr", 4.0, 3.0, 4.0}, []interface{}{"sub", 5.0, 4.0, 1.0}, []interface{}{"mul", 4.0, 5.0, 1.0}},
			// a sum used as addend of a multiply-add whose multiplier is register 3 (a compile-time constant in the second pass) and whose
			// multiplicand already occurs in the sum - and read again afterwards
			{[]interface{}{"addnr", 1.0, 2.0, 1.0}, []interface{}{"muladdnr", 1.0, 3.0, 4.0}, []interface{}{"reduce", 4.0, 1.0, 1.0}, []interface{}{"muladdnr", 2.0, 3.0, 4.0}, []interface{}{"add", 4.0, 1.0, 1.0}},
			{[]interface{}{"addnr", 1.0, 2.0, 1.0}, []interface{}{"muladd", 1.0, 3.0, 4.0}, []interface{}{"reduce", 4.0, 1.0, 1.0}, []interface{}{"muladd", 3.0, 2.0, 4.0}, []interface{}{"add", 4.0, 2.0, 1.0}},
			{[]interface{}{"muladdnr", 1.0, 3.0, 1.0}, []interface{}{"add", 1.0, 2.0, 1.0}, []interface{}{"muladdnr", 3.0, 1.0, 1.0}, []interface{}{"mul", 1.0, 2.0, 1.0}},
		}
		progs := append(fixed, req.Programs...)
		for pi, prog := range progs {
			var in [3]*big.Int
			for t := range in {
				in[t] = drv.RandBelow(rng, bigP)
				if (pi+t)%4 == 0 {
					in[t] = glEdge()[rng.Intn(7)]
				}
				if pi < len(fixed) {
					// the fixed programs feed an unreduced result to gadgets that take canonical operands: small inputs keep it canonical
					in[t] = big.NewInt(int64(2 + rng.Intn(1<<20)))
				}
			}
			ref := []*big.Int{in[0], in[1], in[2]}
			skip := false
			for _, st := range prog {
				s := st.([]interface{})
				op := s[0].(string)
				i, j, k := int(s[1].(float64))-1, int(s[2].(float64))-1, int(s[3].(float64))-1
				if op == "inverse" && ref[i].Sign() == 0 {
					skip = true // the value returned for zero is unspecified
					break
				}
				ref = append(ref, refOp(op, ref[i], ref[j], ref[k]))
			}
			if skip {
				continue
			}
			for _, constReg3 := range []bool{false, true} {
				constReg3 := constReg3
				body := func(api frontend.API, iv []frontend.Variable) []frontend.Variable {
					chip := gl.New(api)
					vars := []gl.Variable{gl.NewVariable(iv[0]), gl.NewVariable(iv[1]), gl.NewVariable(iv[2])}
					if constReg3 {
						vars[2] = gl.NewVariable(new(big.Int).Set(in[2])) // register 3 is a compile-time constant of the circuit
					}
					var outs []frontend.Variable
					for _, st := range prog {
						s := st.([]interface{})
						op := s[0].(string)
						i, j, k := int(s[1].(float64))-1, int(s[2].(float64))-1, int(s[3].(float64))-1
						o, _ := applyOp(chip, op, vars[i], vars[j], vars[k])
						vars = append(vars, o)
					}
					for si, st := range prog { // read (and, for the unreduced variants, reduce) only after the whole program has run
						op := st.([]interface{})[0].(string)
						v := vars[3+si]
						if !reducingOps[op] {
							v = chip.Reduce(v)
						}
						outs = append(outs, v.Limb)
					}
					return outs
				}
				for _, sys := range []string{"r1cs", "scs"} {
					stage, err := solveOnBuilder(sys, in[:], ref[3:], body)
					b, _ := json.Marshal(prog)
					resp.Count(fmt.Sprintf("real/%s/%v/%s/%v", sys, constReg3, b, in), false)
					if err != nil {
						resp.Violate(fmt.Sprintf("c07/program-real/%s sys=%s", stage, sys),
							fmt.Sprintf("program %s on %v (register 3 a compile-time constant: %v) compiled with the real %s builder: the field's results are not accepted (%s: %s)", b, in, constReg3, sys, stage, firstLine(err)), map[string]any{"prog": prog, "sys": sys})
					}
				}
			}
		}
		return nil
	case "programs":
		classes := []*big.Int{big.NewInt(0), big.NewInt(1), new(big.Int).Sub(two32, one), two32, pow2(63), new(big.Int).Sub(bigP, two32), new(big.Int).Sub(bigP, one)}
		for pi, prog := range req.Programs {
			for rep := 0; rep < 1+req.NRandom; rep++ {
				var in [3]*big.Int
				for t := range in {
					if rep == 0 {
						in[t] = classes[rng.Intn(len(classes))]
					} else {
						in[t] = drv.RandBelow(rng, bigP)
					}
				}
				regs := []*big.Int{}
				cfg := &engine.Config{Mode: modeOf(req.Mode)}
				all := append([]*big.Int{in[0], in[1], in[2]}, pad...)
				err := hc.Run(cfg, all, func(api frontend.API, iv []frontend.Variable) error {
					chip := gl.New(api)
					for j := 3; j < len(all); j++ {
						chip.RangeCheckWithMaxBits(gl.NewVariable(iv[j]), 32)
					}
					vars := []gl.Variable{gl.NewVariable(iv[0]), gl.NewVariable(iv[1]), gl.NewVariable(iv[2])}
					for _, st := range prog {
						s := st.([]interface{})
						op := s[0].(string)
						i, j, k := int(s[1].(float64))-1, int(s[2].(float64))-1, int(s[3].(float64))-1
						o, _ := applyOp(chip, op, vars[i], vars[j], vars[k])
						vars = append(vars, o)
					}
					for _, v := range vars {
						regs = append(regs, new(big.Int).Set(engine.ToBig(v.Limb)))
					}
					return nil
				})
				key := fmt.Sprintf("prog%d/%v/%v/%v/%s", pi, in[0], in[1], in[2], req.Mode)
				b, _ := json.Marshal(prog)
				resp.Count(string(b)+key, false)
				if err != nil {
					resp.Violate("c07/program/rejected mode="+req.Mode, fmt.Sprintf("program %s on %v rejected: %s", b, in, firstLine(err)), map[string]any{"prog": prog, "in": []string{in[0].String(), in[1].String(), in[2].String()}})
					continue
				}
				ref := []*big.Int{in[0], in[1], in[2]}
				for si, st := range prog {
					s := st.([]interface{})
					op := s[0].(string)
					i, j, k := int(s[1].(float64))-1, int(s[2].(float64))-1, int(s[3].(float64))-1
					want := refOp(op, ref[i], ref[j], ref[k])
					ref = append(ref, want)
					got := regs[3+si]
					ok := gf.Mod(got).Cmp(want) == 0
					if reducingOps[op] && got.Cmp(want) != 0 {
						ok = false
					}
					if op == "inverse" && ref[i].Sign() == 0 {
						ok = true
						ref[len(ref)-1] = gf.Mod(got)
					}
					if !ok {
						resp.Violate(fmt.Sprintf("c07/program/wrong op=%s mode=%s", op, req.Mode),
							fmt.Sprintf("program %s on %v: step %d (%s) gives %v, the field says %v", b, in, si, op, got, want), map[string]any{"prog": prog})
						break
					}
				}
				if len(resp.Samples) < 3 {
					resp.Sample(map[string]any{"program": prog, "inputs": []string{in[0].String(), in[1].String(), in[2].String()}, "last": regs[len(regs)-1].String()})
				}
			}
		}
		return nil
	case "reduce":
		lim := new(big.Int).Mul(pow2(144), bigP) // exclusive
		m64 := new(big.Int).Sub(two64, one)
		vals := []*big.Int{new(big.Int).Mul(bigP, two64), new(big.Int).Add(new(big.Int).Mul(bigP, two64), big.NewInt(12345)), new(big.Int).Sub(pow2(128), one),
			new(big.Int).Mul(m64, m64), new(big.Int).Mul(new(big.Int).Sub(bigP, one), new(big.Int).Sub(bigP, one)), pow2(127), new(big.Int).Sub(pow2(96), one), pow2(96),
			new(big.Int).Sub(new(big.Int).Mul(bigP, two64), one),
			big.NewInt(0), new(big.Int).Sub(bigP, one), new(big.Int).Set(bigP), new(big.Int).Add(bigP, one), two64, pow2(128), pow2(191),
			new(big.Int).Sub(lim, one), new(big.Int).Sub(lim, bigP), new(big.Int).Sub(new(big.Int).Mul(pow2(143), bigP), one)}
		for i := 0; i < 20+req.NRandom; i++ {
			vals = append(vals, drv.RandBelow(rng, lim))
			vals = append(vals, drv.RandBelow(rng, pow2(64+rng.Intn(140))))
		}
		for _, x := range vals {
			if x.Cmp(lim) >= 0 {
				continue
			}
			cfg := &engine.Config{Mode: modeOf(req.Mode)}
			outs, err := runGadget(cfg, Gadget{Kind: "reduce"}, []*big.Int{x}, pad)
			resp.Count("reduce/"+req.Mode+"/"+x.String(), false)
			if err != nil {
				resp.Violate("c07/reduce/rejected mode="+req.Mode, fmt.Sprintf("Reduce(%v) (< 2^144*p) rejected: %s", x, firstLine(err)), map[string]any{"x": x.String()})
				continue
			}
			if outs[0].Cmp(gf.Mod(x)) != 0 {
				resp.Violate("c07/reduce/wrong mode="+req.Mode, fmt.Sprintf("Reduce(%v) = %v, residue is %v", x, outs[0], gf.Mod(x)), map[string]any{"x": x.String()})
			}
		}
		resp.Sample(map[string]any{"reduce_max_input": new(big.Int).Sub(lim, one).String(), "mode": req.Mode})
		return nil
	}
	return fmt.Errorf("unknown part %q", req.Part)
}
