package drivers

import (
	"encoding/json"
	"fmt"
	"math/big"
	"os"
	"regexp"
	"strings"

	"github.com/wormhole-foundation/example-near-light-client/types"
	"verifharness/data"
	"verifharness/drv"
	"verifharness/engine"
	"verifharness/hc"
)

// leafInfo is one entry of the leaf inventory of an instance.
type leafInfo struct {
	Path  string `json:"path"`
	Class string `json:"cls"`   // class of Verifier.tla
	GL    bool   `json:"gl"`    // Goldilocks-valued
	Sel   bool   `json:"sel"`   // cap entry selected by some query / fold evaluation at the query's own position
	Round int    `json:"round"` // -1 when not in a query round
	Zero  bool   `json:"zero"`
}

var (
	reInitElem = regexp.MustCompile(`QueryRoundProofs\[(\d+)\]\.InitialTreesProof\.EvalsProofs\[(\d+)\]\.Elements\[(\d+)\]`)
	reInitSib  = regexp.MustCompile(`QueryRoundProofs\[(\d+)\]\.InitialTreesProof\.EvalsProofs\[(\d+)\]\.MerkleProof\.Siblings\[(\d+)\]`)
	reStepEval = regexp.MustCompile(`QueryRoundProofs\[(\d+)\]\.Steps\[(\d+)\]\.Evals\[(\d+)\]\[(\d+)\]`)
	reStepSib  = regexp.MustCompile(`QueryRoundProofs\[(\d+)\]\.Steps\[(\d+)\]\.MerkleProof\.Siblings\[(\d+)\]`)
	reCommit   = regexp.MustCompile(`CommitPhaseMerkleCaps\[(\d+)\]\[(\d+)\]`)
	reIdx      = regexp.MustCompile(`\[(\d+)\]`)
)

func atoi(s string) int {
	var n int
	fmt.Sscanf(s, "%d", &n)
	return n
}

// queryGeometry: for every round the cap index and, per step, the query's own position within the coset.
type queryGeometry struct {
	capIdx  []int
	stepPos [][]int
}

func geometry(l *data.Loaded) (*queryGeometry, error) {
	cs, err := realChallenges(l)
	if err != nil {
		return nil, err
	}
	lde := int(l.Common.FriParams.DegreeBits + l.Common.FriParams.Config.RateBits)
	capH := int(l.Common.FriParams.Config.CapHeight)
	g := &queryGeometry{}
	for i, n := range cs.names {
		if !strings.HasPrefix(n, "query_indices[") {
			continue
		}
		x := new(big.Int).Set(cs.vals[i])
		idx := new(big.Int).And(x, new(big.Int).Sub(pow2(lde), one)).Int64()
		g.capIdx = append(g.capIdx, int(idx>>uint(lde-capH)))
		var pos []int
		used := 0
		for _, a := range l.Common.FriParams.ReductionArityBits {
			pos = append(pos, int((idx>>uint(used))&((1<<a)-1)))
			used += int(a)
		}
		g.stepPos = append(g.stepPos, pos)
	}
	return g, nil
}

func inventory(l *data.Loaded) ([]leafInfo, []data.Leaf, error) {
	g, err := geometry(l)
	if err != nil {
		return nil, nil, err
	}
	selCap := map[int]bool{}
	for _, c := range g.capIdx {
		selCap[c] = true
	}
	var infos []leafInfo
	var leaves []data.Leaf
	add := func(prefix string, root any) {
		for _, lf := range data.Walk(root) {
			lf.Path = prefix + lf.Path
			li := leafInfo{Path: lf.Path, GL: lf.GL, Round: -1, Zero: lf.Get().Sign() == 0}
			p := lf.Path
			lastIdx := -1
			if m := reIdx.FindAllStringSubmatch(p, -1); len(m) > 0 {
				lastIdx = atoi(m[len(m)-1][1])
			}
			switch {
			case strings.HasPrefix(p, "PWPI.PublicInputs"):
				li.Class = "PI"
			case p == "VD.CircuitDigest":
				li.Class = "VD.digest"
			case strings.HasPrefix(p, "VD.ConstantSigmasCap"):
				li.Class, li.Sel = "VD.cap", selCap[lastIdx]
			case strings.HasPrefix(p, "PWPI.Proof.WiresCap"):
				li.Class, li.Sel = "WiresCap", selCap[lastIdx]
			case strings.HasPrefix(p, "PWPI.Proof.PlonkZsPartialProductsCap"):
				li.Class, li.Sel = "ZsCap", selCap[lastIdx]
			case strings.HasPrefix(p, "PWPI.Proof.QuotientPolysCap"):
				li.Class, li.Sel = "QuotCap", selCap[lastIdx]
			case strings.HasPrefix(p, "PWPI.Proof.Openings."):
				li.Class = strings.Split(strings.TrimPrefix(p, "PWPI.Proof.Openings."), "[")[0]
			case reCommit.MatchString(p):
				m := reCommit.FindStringSubmatch(p)
				li.Class, li.Sel = "CommitCap", selCap[atoi(m[2])]
			case reInitElem.MatchString(p):
				li.Class, li.Round = "Init.Elem", atoi(reInitElem.FindStringSubmatch(p)[1])
			case reInitSib.MatchString(p):
				li.Class, li.Round = "Init.Sib", atoi(reInitSib.FindStringSubmatch(p)[1])
			case reStepEval.MatchString(p):
				m := reStepEval.FindStringSubmatch(p)
				r, s, i := atoi(m[1]), atoi(m[2]), atoi(m[3])
				li.Class, li.Round = "Step.Eval", r
				li.Sel = r < len(g.stepPos) && s < len(g.stepPos[r]) && g.stepPos[r][s] == i
			case reStepSib.MatchString(p):
				li.Class, li.Round = "Step.Sib", atoi(reStepSib.FindStringSubmatch(p)[1])
			case strings.Contains(p, "FinalPoly.Coeffs"):
				li.Class = "FinalPoly"
			case strings.HasSuffix(p, "PowWitness"):
				li.Class = "Pow"
			default:
				li.Class = "unclassified:" + p
			}
			infos = append(infos, li)
			leaves = append(leaves, lf)
		}
	}
	add("PWPI.", &l.PWPI)
	add("VD.", &l.VD)
	return infos, leaves, nil
}

// failureLocation names the check during which the run failed, from the hook events seen before the failure.
func failureLocation(cfg *engine.Config) string {
	loc := "sweep"
	merkleInRound := 0
	for _, e := range cfg.Events {
		switch e.Kind {
		case "phase":
			switch e.Args[0].(string) {
			case "sweep_done":
				loc = "transcript"
			case "challenges_done":
				loc = "plonk"
			case "plonk_done":
				loc = "fri_pre"
			}
		case "pow":
			loc = "pow"
		case "round":
			loc = "round"
			merkleInRound = 0
		case "merkle":
			merkleInRound++
			if merkleInRound <= 4 {
				loc = "merkle_init"
			} else {
				loc = "merkle_step"
			}
		case "consistency":
			loc = "consistency"
		case "final":
			loc = "final"
		}
	}
	return loc
}

var locEvents = map[string]bool{"phase": true, "pow": true, "round": true, "merkle": true, "consistency": true, "final": true}

type pertCase struct {
	Path string `json:"path"`
	Kind string `json:"kind"` // +1 -1 random swap zero | noncanon:<k> | vd_other:<instance>
	Cls  string `json:"cls"`
	Sel  bool   `json:"sel"`
}

type c01Req struct {
	Part     string           `json:"part"` // inventory | perturb | cdconst
	Instance string           `json:"instance"`
	K        int              `json:"k"`
	Cases    []pertCase       `json:"cases"`
	Table    map[string][]any `json:"table"` // "cls|kind|sel" -> [[verdict, first], ...]
	CDCases  []cdCase         `json:"cdcases"`
	Shard    int              `json:"shard"`
}

type cdCase struct {
	Field string `json:"field"` // JSON path into common_circuit_data, dot separated, indices as numbers
	Op    string `json:"op"`    // "+1" | "set:<json>"
}

func init() { drv.Register("c01", c01) }

func applyPerturbation(l *data.Loaded, infos []leafInfo, leaves []data.Leaf, c pertCase, rngSalt int64) (trivial bool, desc string, err error) {
	rng := drv.Rng(rngSalt)
	idx := -1
	for i := range infos {
		if infos[i].Path == c.Path {
			idx = i
			break
		}
	}
	if idx < 0 {
		return false, "", fmt.Errorf("no leaf %s", c.Path)
	}
	lf := leaves[idx]
	mod := bigR
	if lf.GL {
		mod = bigP
	}
	old := new(big.Int).Set(lf.Get())
	var nv *big.Int
	switch {
	case c.Kind == "+1":
		nv = new(big.Int).Mod(new(big.Int).Add(old, one), mod)
	case c.Kind == "-1":
		nv = new(big.Int).Mod(new(big.Int).Sub(old, one), mod)
	case c.Kind == "random":
		nv = drv.RandBelow(rng, mod)
	case c.Kind == "zero":
		nv = big.NewInt(0)
	case c.Kind == "swap":
		// the neighbouring leaf: the next (or previous) leaf of the same class list
		j := idx + 1
		if j >= len(infos) || classOf(infos[j].Path) != classOf(infos[idx].Path) {
			j = idx - 1
		}
		if j < 0 || classOf(infos[j].Path) != classOf(infos[idx].Path) {
			return true, "no neighbour", nil
		}
		other := new(big.Int).Set(leaves[j].Get())
		if other.Cmp(old) == 0 {
			return true, "equal neighbours", nil
		}
		leaves[j].Set(old)
		lf.Set(other)
		return false, fmt.Sprintf("swap with %s", infos[j].Path), nil
	case strings.HasPrefix(c.Kind, "noncanon:"):
		ks := strings.TrimPrefix(c.Kind, "noncanon:")
		var k *big.Int
		if ks == "max" { // the largest k with value + k*p < r
			k = new(big.Int).Div(new(big.Int).Sub(new(big.Int).Sub(bigR, one), old), bigP)
		} else {
			k = bi(ks)
		}
		nv = new(big.Int).Add(old, new(big.Int).Mul(k, bigP))
		if nv.Cmp(bigR) >= 0 {
			return true, "does not fit", nil
		}
	default:
		return false, "", fmt.Errorf("unknown perturbation %s", c.Kind)
	}
	if nv.Cmp(old) == 0 {
		return true, "same value", nil
	}
	lf.Set(nv)
	return false, fmt.Sprintf("%s -> %s", old, nv), nil
}

func c01(raw json.RawMessage, resp *drv.Response) error {
	var req c01Req
	if err := json.Unmarshal(raw, &req); err != nil {
		return err
	}
	inst := data.ByName(req.Instance)
	switch req.Part {
	case "inventory":
		l := data.Load(inst, req.K)
		infos, _, err := inventory(l)
		if err != nil {
			return err
		}
		for _, li := range infos {
			resp.Results = append(resp.Results, li)
		}
		// the honest instance must be accepted (otherwise nothing below means anything)
		cfg := &engine.Config{Mode: engine.Native}
		if err := hc.RunVerifier(cfg, l, l); err != nil {
			return fmt.Errorf("honest instance %s k=%d rejected: %s", req.Instance, req.K, firstLine(err))
		}
		resp.Count("honest/"+req.Instance, false)
		resp.Count("honest2/"+req.Instance, false)
		return nil
	case "perturb":
		for ci, c := range req.Cases {
			l := data.Load(inst, req.K)
			var out, loc, desc string
			trivial := false
			if strings.HasPrefix(c.Kind, "vd_other:") {
				other := data.Load(data.ByName(strings.TrimPrefix(c.Kind, "vd_other:")), req.K)
				l.VD = other.VD
				desc = "verifier data of " + other.Inst.Name
			} else {
				infos, leaves, err := inventory(l)
				if err != nil {
					return err
				}
				var e2 error
				trivial, desc, e2 = applyPerturbation(l, infos, leaves, c, int64(req.Shard*100000+ci))
				if e2 != nil {
					return e2
				}
			}
			key := fmt.Sprintf("%s/%d/%s/%s/%s", req.Instance, req.K, c.Path, c.Kind, desc)
			resp.Count(key, trivial)
			if trivial {
				continue
			}
			cfg := &engine.Config{Mode: engine.Native, RecordEvts: locEvents}
			err := hc.RunVerifier(cfg, l, l)
			out = hc.Outcome(err)
			if out != "accept" {
				loc = failureLocation(cfg)
				out = "reject"
			}
			kindCls := "value"
			if strings.HasPrefix(c.Kind, "noncanon") {
				kindCls = "noncanon"
			}
			allowed := req.Table[fmt.Sprintf("%s|%s|%v", c.Cls, kindCls, c.Sel)]
			okVerdict, okFirst := false, false
			for _, a := range allowed {
				p := a.([]any)
				if p[0].(string) == out {
					okVerdict = true
					if p[1].(string) == loc || out == "accept" {
						okFirst = true
					}
				}
			}
			if strings.HasPrefix(c.Kind, "vd_other:") {
				okVerdict, okFirst = out == "reject", true
			}
			if !okVerdict {
				resp.Violate(fmt.Sprintf("c01/perturb/%s cls=%s kind=%s sel=%v", out, c.Cls, kindCls, c.Sel),
					fmt.Sprintf("%s k=%d: %s (%s, %s): the model allows %v, the verifier gives %s", req.Instance, req.K, c.Path, c.Kind, desc, allowed, out),
					map[string]any{"instance": req.Instance, "k": req.K, "case": c})
			} else if !okFirst {
				resp.Inc("first_blame_mismatch", 1)
				if _, has := resp.Info["first_blame_example"]; !has {
					resp.Note("first_blame_example", fmt.Sprintf("%s %s: failed at %s, model: %v", c.Path, c.Kind, loc, allowed))
				}
			}
			if len(resp.Samples) < 3 {
				resp.Sample(map[string]any{"instance": req.Instance, "leaf": c.Path, "kind": c.Kind, "change": desc, "outcome": out, "failed_at": loc})
			}
		}
		return nil
	case "cdconst":
		rawCD, err := os.ReadFile(inst.Common)
		if err != nil {
			return err
		}
		for ci, c := range req.CDCases {
			var doc any
			dec := json.NewDecoder(strings.NewReader(string(rawCD)))
			dec.UseNumber()
			if err := dec.Decode(&doc); err != nil {
				return err
			}
			changed, err := editJSON(&doc, strings.Split(c.Field, "."), c.Op)
			if err != nil {
				return err
			}
			key := fmt.Sprintf("cd/%s/%s/%s", req.Instance, c.Field, c.Op)
			resp.Count(key, !changed)
			if !changed {
				continue
			}
			tmp := fmt.Sprintf("%s/cd-%d-%d.json", drv.Tmp(), req.Shard, ci)
			b, _ := json.Marshal(doc)
			if err := os.WriteFile(tmp, b, 0644); err != nil {
				return err
			}
			out, msg := runWithCommon(inst, req.K, tmp)
			os.Remove(tmp)
			if out == "accept" {
				resp.Violate(fmt.Sprintf("c01/cdconst/accept field=%s", reIdx.ReplaceAllString(strings.Join(strings.FieldsFunc(c.Field, func(r rune) bool { return r >= '0' && r <= '9' }), ""), "")),
					fmt.Sprintf("%s k=%d: the proof verifies against a circuit description with %s %s", req.Instance, req.K, c.Field, c.Op), map[string]any{"instance": req.Instance, "cd": c})
			}
			if len(resp.Samples) < 3 {
				resp.Sample(map[string]any{"instance": req.Instance, "field": c.Field, "op": c.Op, "outcome": out, "msg": msg})
			}
		}
		return nil
	}
	return fmt.Errorf("unknown part %q", req.Part)
}

func runWithCommon(inst data.Instance, k int, commonPath string) (out string, msg string) {
	defer func() {
		if r := recover(); r != nil {
			out, msg = "refuse", fmt.Sprint(r)
		}
	}()
	l := data.Load(inst, k)
	cd := types.ReadCommonCircuitData(commonPath)
	cd.Config.FriConfig.NumQueryRounds = uint64(l.K)
	cd.FriParams.Config.NumQueryRounds = uint64(l.K)
	l.Common = cd
	cfg := &engine.Config{Mode: engine.Native}
	err := hc.RunVerifier(cfg, l, l)
	return hc.Outcome(err), firstLine(err)
}

// editJSON applies op at the path; numbers are json.Number (exact) in the generic document.
func editJSON(doc *any, path []string, op string) (bool, error) {
	var cur any = *doc
	var parent any
	var key string
	for _, p := range path {
		parent, key = cur, p
		switch t := cur.(type) {
		case map[string]any:
			cur = t[p]
		case []any:
			cur = t[atoi(p)]
		default:
			return false, fmt.Errorf("bad path %v", path)
		}
	}
	var nv any
	switch {
	case op == "+1" || op == "-1":
		f, ok := cur.(json.Number)
		if !ok {
			return false, fmt.Errorf("not a number at %v", path)
		}
		x := bi(f.String())
		if op == "+1" {
			x.Add(x, one)
		} else {
			x.Sub(x, one)
		}
		if x.Sign() < 0 {
			return false, nil
		}
		nv = json.Number(x.String())
	case strings.HasPrefix(op, "set:"):
		if err := json.Unmarshal([]byte(strings.TrimPrefix(op, "set:")), &nv); err != nil {
			return false, err
		}
	default:
		return false, fmt.Errorf("unknown op %s", op)
	}
	if fmt.Sprint(nv) == fmt.Sprint(cur) {
		return false, nil
	}
	switch t := parent.(type) {
	case map[string]any:
		t[key] = nv
	case []any:
		t[atoi(key)] = nv
	}
	return true, nil
}
