package drivers

import (
	"encoding/json"
	"fmt"
	"math/big"

	"github.com/consensys/gnark/frontend"
	gl "github.com/wormhole-foundation/example-near-light-client/goldilocks"
	"github.com/wormhole-foundation/example-near-light-client/types"
	"verifharness/data"
	"verifharness/drv"
	"verifharness/engine"
	"verifharness/hc"
)

type powCase struct {
	B    int    `json:"b"`
	Resp string `json:"resp"`
	Mode string `json:"mode"`
}

type c14Req struct {
	oracleFiles
	Part       string    `json:"part"` // gadget | witness
	Cases      []powCase `json:"cases"`
	Instance   string    `json:"instance"`
	Histories  string    `json:"histories"`
	NWitness   int       `json:"nwitness"`
	FinalLen   int       `json:"final_len"`   // witness: truncate the final polynomial (response comparison only)
	ZeroRounds bool      `json:"zero_rounds"` // witness: a description with num_query_rounds = 0 - the condition on the response is all that is left of FRI
	Shard      int       `json:"shard"`
}

func init() { drv.Register("c14", c14) }

func c14(raw json.RawMessage, resp *drv.Response) error {
	var req c14Req
	if err := json.Unmarshal(raw, &req); err != nil {
		return err
	}
	rng := drv.Rng(int64(1400 + req.Shard))
	switch req.Part {
	case "gadget":
		pad := padValues(commitPad, rng)
		for _, c := range req.Cases {
			x := bi(c.Resp)
			in := []*big.Int{x}
			if c.Mode == "commit" {
				in = append(in, pad...)
			}
			cfg := &engine.Config{Mode: modeOf(c.Mode)}
			err := hc.Run(cfg, in, func(api frontend.API, iv []frontend.Variable) error {
				chip := gl.New(api)
				for j := 1; j < len(iv); j++ {
					chip.RangeCheckWithMaxBits(gl.NewVariable(iv[j]), 32)
				}
				newFriChip(api).VerifAssertLeadingZeros(gl.NewVariable(iv[0]), types.FriConfig{ProofOfWorkBits: uint64(c.B)})
				return nil
			})
			out := hc.Outcome(err)
			// Pow.tla's Outcome at WBITS = 64, BASE = 16
			want := "reject"
			if c.Mode == "commit" && (64-c.B)%16 != 0 {
				want = "refuse"
			} else if x.Cmp(pow2(64-c.B)) < 0 {
				want = "accept"
			}
			resp.Count(fmt.Sprintf("pow/%s/%d/%s", c.Mode, c.B, c.Resp), false)
			ok := out == want || (want == "refuse" && out != "accept")
			if !ok {
				resp.Violate(fmt.Sprintf("c14/gadget/%s-instead-of-%s mode=%s", out, want, c.Mode),
					fmt.Sprintf("difficulty %d, response %s (%d leading zeros) in mode %s: %s (%s)", c.B, c.Resp, 64-x.BitLen(), c.Mode, out, firstLine(err)), c)
			}
			if len(resp.Samples) < 4 {
				resp.Sample(map[string]any{"b": c.B, "resp": c.Resp, "mode": c.Mode, "outcome": out})
			}
			// where the width check is carried out by prover-supplied digits (the bit-decomposition mechanism) or limbs, a response
			// that is too large must also be rejected for the digit string "everything in digit 0" and the limb pair (0, x)
			if want == "reject" && c.Mode == "plain" {
				for _, strat := range []string{"nonbool", "lo-all"} {
					cfg2 := &engine.Config{Mode: modeOf(c.Mode), Permissive: true, Strategy: limbStrategy(strat)}
					err2 := hc.Run(cfg2, in, func(api frontend.API, iv []frontend.Variable) error {
						newFriChip(api).VerifAssertLeadingZeros(gl.NewVariable(iv[0]), types.FriConfig{ProofOfWorkBits: uint64(c.B)})
						return nil
					})
					resp.Count(fmt.Sprintf("pow/%s/%d/%s/%s", c.Mode, c.B, c.Resp, strat), cfg2.Counters["subst"] == 0)
					if cfg2.Counters["subst"] > 0 && err2 == nil {
						resp.Violate(fmt.Sprintf("c14/gadget/accept-instead-of-reject mode=%s strat=%s", c.Mode, strat),
							fmt.Sprintf("difficulty %d, response %s (%d leading zeros): accepted when the prover supplies the %s decomposition", c.B, c.Resp, 64-x.BitLen(), strat), c)
					}
				}
			}
		}
	case "witness":
		o, err := loadOracle(req.oracleFiles)
		if err != nil {
			return err
		}
		hs, err := readHistories(req.Histories)
		if err != nil {
			return err
		}
		inst := data.ByName(req.Instance)
		base := data.Load(inst, 1)
		powBits := int(base.Common.FriParams.Config.ProofOfWorkBits)
		honest := engine.ToBig(base.PWPI.Proof.OpeningProof.PowWitness.Limb)
		cands := []*big.Int{new(big.Int).Add(honest, one), new(big.Int).Sub(honest, one), big.NewInt(0), big.NewInt(1), new(big.Int).Sub(bigP, one)}
		for i := 0; i < req.NWitness; i++ {
			cands = append(cands, drv.RandBelow(rng, bigP))
		}
		cands = append(cands, honest)
		// the response is derived from the witness the prover SUPPLIED - a proof document: 64-bit words incl. the upper half of the range
		// must arrive unchanged through the repository's readers
		for _, w := range []*big.Int{pow2(63), new(big.Int).Add(pow2(63), big.NewInt(12345)), new(big.Int).Sub(bigP, one), new(big.Int).Sub(pow2(63), one), honest, new(big.Int).Add(honest, one)} {
			ld, err := data.LoadWithPowText(inst, 1, w.String(), drv.Tmp())
			resp.Count(fmt.Sprintf("powdoc/%s/%s", req.Instance, w), false)
			if err != nil {
				resp.Violate("c14/witness/document-refused", fmt.Sprintf("%s: a proof document whose pow_witness is the 64-bit word %s is refused: %s", req.Instance, w, firstLine(err)), map[string]any{"witness": w.String()})
				continue
			}
			if got := engine.ToBig(ld.PWPI.Proof.OpeningProof.PowWitness.Limb); got.Cmp(w) != 0 {
				resp.Violate("c14/witness/not-the-supplied-one", fmt.Sprintf("%s: the document supplies the witness %s, the circuit is given %s: the response is derived from another witness", req.Instance, w, got), map[string]any{"witness": w.String()})
			}
		}
		for _, w := range cands {
			l := data.Load(inst, 1)
			short := req.FinalLen > 0 && req.FinalLen < len(l.PWPI.Proof.OpeningProof.FinalPoly.Coeffs)
			if short {
				// a final polynomial that leaves the sponge's input block partly filled when the witness is observed: only the
				// response (the transcript) is compared, the truncated proof itself is of course not a valid one
				cs := l.PWPI.Proof.OpeningProof.FinalPoly.Coeffs
				l.PWPI.Proof.OpeningProof.FinalPoly.Coeffs = append(cs[:0:0], cs[:req.FinalLen]...)
			}
			l.PWPI.Proof.OpeningProof.PowWitness = gl.NewVariable(new(big.Int).Set(w))
			if req.ZeroRounds {
				l.PWPI.Proof.OpeningProof.QueryRoundProofs = l.PWPI.Proof.OpeningProof.QueryRoundProofs[:0:0]
				l.Common.Config.FriConfig.NumQueryRounds = 0
				l.Common.FriParams.Config.NumQueryRounds = 0
			}
			m, _ := leafValues(l, o)
			pis := []*big.Int{}
			for _, v := range l.PWPI.PublicInputs {
				pis = append(pis, engine.ToBig(v.Limb))
			}
			want := expectedChallenges(o, hs[0], m, o.GlHashNoPad(pis))
			var wantResp *big.Int
			for i, n := range want.names {
				if n == "pow_response[0]" {
					wantResp = want.vals[i]
				}
			}
			got, err := realChallenges(l)
			if err != nil {
				return fmt.Errorf("GetChallenges failed: %s", firstLine(err))
			}
			var gotResp *big.Int
			for i, n := range got.names {
				if n == "pow_response[0]" {
					gotResp = got.vals[i]
				}
			}
			resp.Count(fmt.Sprintf("powwitness/%s/%d/%v/%s", req.Instance, req.FinalLen, req.ZeroRounds, w), false)
			if wantResp == nil || gotResp == nil || wantResp.Cmp(gotResp) != 0 {
				resp.Violate("c14/witness/response-mismatch", fmt.Sprintf("%s: witness %s: response %v in the code, %v by the reference transcript", req.Instance, w, gotResp, wantResp), map[string]any{"witness": w.String()})
				continue
			}
			if short {
				continue
			}
			cfg := &engine.Config{Mode: engine.Native}
			err = hc.RunVerifier(cfg, l, l)
			out := hc.Outcome(err)
			passes := gotResp.Cmp(pow2(64-powBits)) < 0
			isHonest := w.Cmp(honest) == 0
			switch {
			case isHonest && out != "accept":
				resp.Violate("c14/witness/honest-rejected", fmt.Sprintf("%s: the proof's own witness is rejected: %s", req.Instance, firstLine(err)), map[string]any{"witness": w.String()})
			case !isHonest && out == "accept":
				resp.Violate("c14/witness/accepted", fmt.Sprintf("%s: substituted witness %s (response %v, passes=%v) is accepted", req.Instance, w, gotResp, passes), map[string]any{"witness": w.String(), "instance": req.Instance})
			}
			resp.Sample(map[string]any{"instance": req.Instance, "witness": w.String(), "response": gotResp.String(), "leading_zeros": 64 - gotResp.BitLen(), "outcome": out})
		}
	default:
		return fmt.Errorf("unknown part %q", req.Part)
	}
	return nil
}
