package drivers

import (
	"encoding/json"
	"fmt"
	"math/big"
	"math/rand"
	"os"

	"github.com/consensys/gnark/frontend"
	gl "github.com/wormhole-foundation/example-near-light-client/goldilocks"
	"github.com/wormhole-foundation/example-near-light-client/plonk"
	"github.com/wormhole-foundation/example-near-light-client/plonk/gates"
	"github.com/wormhole-foundation/example-near-light-client/poseidon"
	"github.com/wormhole-foundation/example-near-light-client/types"
	"github.com/wormhole-foundation/example-near-light-client/variables"
	"verifharness/data"
	"verifharness/drv"
	"verifharness/engine"
	"verifharness/gf"
	"verifharness/hc"
	"verifharness/terms"
)

type plonkShape struct {
	NC, RW, QD, NG, DB int
	Vanishing          []*terms.Term `json:"vanishing"`
	Rhs                []*terms.Term `json:"rhs"`
	ZH                 *terms.Term   `json:"zh"`
	L0                 *terms.Term   `json:"l0"`
}

func (s *plonkShape) UnmarshalJSON(b []byte) error {
	var m struct {
		Nc, Rw, Qd, Ng, Db int
		Vanishing, Rhs     []*terms.Term
		Zh, L0             *terms.Term
	}
	if err := json.Unmarshal(b, &m); err != nil {
		return err
	}
	*s = plonkShape{m.Nc, m.Rw, m.Qd, m.Ng, m.Db, m.Vanishing, m.Rhs, m.Zh, m.L0}
	return nil
}

type c16Req struct {
	Terms    string `json:"terms"`
	Part     string `json:"part"` // real | synthetic
	Instance string `json:"instance"`
	Index    int    `json:"index"` // which shape of the terms file
	NRandom  int    `json:"nrandom"`
	NPerturb int    `json:"nperturb"`
	Shard    int    `json:"shard"`
	Layout   int    `json:"layout"` // synthetic descriptions with gate constraints (shape ng = 2): 1 = one selector group [Noop, Constant{2}], 2 = two groups
}

func init() { drv.Register("c16", c16) }

// synthGateVals are the gate constraints of the synthetic descriptions with a ConstantGate { num_consts: 2 } next to the Noop gate, computed from
// plonky2's definition and not with the repository's evaluator: constraint k = filter * (c_{ns+k} - w_k), where ns is the number of selector
// polynomials, filter = prod over the other rows i of the gate's group of (i - s) times (UNUSED - s) iff ns > 1, and s the gate's selector opening.
func synthGateVals(d *plonkData, layout int) []gf.E {
	if layout == 0 {
		return nil
	}
	var filter gf.E
	ns := layout
	if layout == 1 { // group [0, 2), the Constant gate is row 1: the other row is 0
		filter = gf.ESub(gf.EB(big.NewInt(0)), d.consts[0])
	} else { // groups [0,1) and [1,2): no other row, two selector polynomials
		filter = gf.ESub(gf.EB(new(big.Int).SetUint64(uint64(^uint32(0)))), d.consts[1])
	}
	out := []gf.E{}
	for k := 0; k < 2; k++ {
		out = append(out, gf.EMul(filter, gf.ESub(d.consts[ns+k], d.wires[k])))
	}
	return out
}

// plonkData is one concrete set of openings and challenges for a description.
type plonkData struct {
	cd                                                types.CommonCircuitData
	betas, gammas, alphas                             []*big.Int
	zeta                                              gf.E
	consts, sigmas, wires, zs, zsnext, pps, quotients []gf.E
	pih                                               []*big.Int
}

func (d *plonkData) flat() []*big.Int {
	var in []*big.Int
	in = append(in, d.betas...)
	in = append(in, d.gammas...)
	in = append(in, d.alphas...)
	in = append(in, d.zeta[0], d.zeta[1])
	for _, l := range [][]gf.E{d.consts, d.sigmas, d.wires, d.zs, d.zsnext, d.pps, d.quotients} {
		for _, e := range l {
			in = append(in, e[0], e[1])
		}
	}
	in = append(in, d.pih...)
	return in
}

func (d *plonkData) build(iv []frontend.Variable) (variables.ProofChallenges, variables.OpeningSet, poseidon.GoldilocksHashOut) {
	p := 0
	glv := func(n int) []gl.Variable {
		out := make([]gl.Variable, n)
		for i := range out {
			out[i] = gl.NewVariable(iv[p])
			p++
		}
		return out
	}
	qes := func(n int) []gl.QuadraticExtensionVariable {
		out := make([]gl.QuadraticExtensionVariable, n)
		for i := range out {
			out[i] = qe(iv, p)
			p += 2
		}
		return out
	}
	ch := variables.ProofChallenges{PlonkBetas: glv(len(d.betas)), PlonkGammas: glv(len(d.gammas)), PlonkAlphas: glv(len(d.alphas))}
	ch.PlonkZeta = qes(1)[0]
	os := variables.OpeningSet{Constants: qes(len(d.consts)), PlonkSigmas: qes(len(d.sigmas)), Wires: qes(len(d.wires)), PlonkZs: qes(len(d.zs)),
		PlonkZsNext: qes(len(d.zsnext)), PartialProducts: qes(len(d.pps)), QuotientPolys: qes(len(d.quotients))}
	h := glv(4)
	return ch, os, poseidon.GoldilocksHashOut{h[0], h[1], h[2], h[3]}
}

func (d *plonkData) env(gateVals []gf.E) terms.Env {
	e := terms.Env{"zeta": d.zeta}
	for i := range d.betas {
		e[fmt.Sprintf("beta_%d", i)] = gf.EB(d.betas[i])
		e[fmt.Sprintf("gamma_%d", i)] = gf.EB(d.gammas[i])
		e[fmt.Sprintf("alpha_%d", i)] = gf.EB(d.alphas[i])
		e[fmt.Sprintf("z_%d", i)] = d.zs[i]
		e[fmt.Sprintf("zn_%d", i)] = d.zsnext[i]
		npp := len(d.pps) / len(d.betas)
		for c := 0; c < npp; c++ {
			e[fmt.Sprintf("pp_%d_%d", i, c)] = d.pps[i*npp+c]
		}
		qd := len(d.quotients) / len(d.betas)
		for j := 0; j < qd; j++ {
			e[fmt.Sprintf("t_%d_%d", i, j)] = d.quotients[i*qd+j]
		}
	}
	for j := 0; j < int(d.cd.Config.NumRoutedWires); j++ {
		e[fmt.Sprintf("w_%d", j)] = d.wires[j]
		e[fmt.Sprintf("s_%d", j)] = d.sigmas[j]
		e[fmt.Sprintf("k_%d", j)] = gf.EB(new(big.Int).SetUint64(d.cd.KIs[j]))
	}
	for k, g := range gateVals {
		e[fmt.Sprintf("g_%d", k)] = g
	}
	return e
}

// gateConstraints evaluates the gate constraints with the repository's own gate code (C15's subject).
func gateConstraints(d *plonkData) ([]gf.E, error) {
	var out []gf.E
	err := hc.Run(&engine.Config{Mode: engine.Native}, d.flat(), func(api frontend.API, iv []frontend.Variable) error {
		_, os, pih := d.build(iv)
		var gs []gates.Gate
		for _, id := range d.cd.GateIds {
			gs = append(gs, gates.GateInstanceFromId(id))
		}
		chip := gates.NewEvaluateGatesChip(api, gs, d.cd.NumGateConstraints, d.cd.SelectorsInfo)
		vars := gates.NewEvaluationVars(os.Constants, os.Wires, pih)
		for _, c := range chip.EvaluateGateConstraints(*vars) {
			out = append(out, getE(c))
		}
		return nil
	})
	return out, err
}

func vanishingReal(d *plonkData) ([]gf.E, error) {
	var out []gf.E
	err := hc.Run(&engine.Config{Mode: engine.Native}, d.flat(), func(api frontend.API, iv []frontend.Variable) error {
		ch, os, pih := d.build(iv)
		chip := plonk.NewPlonkChip(api, d.cd)
		zn := chip.VerifExpPowerOf2Extension(ch.PlonkZeta)
		vars := gates.NewEvaluationVars(os.Constants, os.Wires, pih)
		for _, v := range chip.VerifEvalVanishingPoly(*vars, ch, os, zn) {
			out = append(out, getE(v))
		}
		return nil
	})
	return out, err
}

func verifyReal(d *plonkData) (out string, msg string) {
	defer func() {
		if r := recover(); r != nil {
			out, msg = "refuse", fmt.Sprint(r)
		}
	}()
	err := hc.Run(&engine.Config{Mode: engine.Native}, d.flat(), func(api frontend.API, iv []frontend.Variable) error {
		ch, os, pih := d.build(iv)
		plonk.NewPlonkChip(api, d.cd).Verify(ch, os, pih)
		return nil
	})
	return hc.Outcome(err), firstLine(err)
}

// solveQuotient sets t_{i,0} so that the identity of round i holds:  t_{i,0} = V_i / Z_H - sum_{j>=1} t_{i,j} (zeta^n)^j
func solveQuotient(s *plonkShape, d *plonkData, gateVals []gf.E) bool {
	env := d.env(gateVals)
	zh, _ := terms.Eval(s.ZH, env)
	zhi, ok := gf.EInv(zh)
	if !ok {
		return false
	}
	zn := gf.EExp(d.zeta, new(big.Int).Lsh(big.NewInt(1), uint(s.DB)))
	qd := s.QD
	for i := 0; i < s.NC; i++ {
		v, ok := terms.Eval(s.Vanishing[i], env)
		if !ok {
			return false
		}
		t0 := gf.EMul(v, zhi)
		pw := gf.E1()
		for j := 1; j < qd; j++ {
			pw = gf.EMul(pw, zn)
			t0 = gf.ESub(t0, gf.EMul(d.quotients[i*qd+j], pw))
		}
		d.quotients[i*qd] = t0
	}
	return true
}

func randData(cd types.CommonCircuitData, rng *rand.Rand, nConst, nWires int) *plonkData {
	nc := int(cd.Config.NumChallenges)
	d := &plonkData{cd: cd}
	for i := 0; i < nc; i++ {
		d.betas = append(d.betas, drv.RandBelow(rng, bigP))
		d.gammas = append(d.gammas, drv.RandBelow(rng, bigP))
		d.alphas = append(d.alphas, drv.RandBelow(rng, bigP))
	}
	d.zeta = gf.E{drv.RandBelow(rng, bigP), drv.RandBelow(rng, bigP)}
	re := func(n int) []gf.E {
		out := make([]gf.E, n)
		for i := range out {
			out[i] = randE(rng)
		}
		return out
	}
	d.consts, d.sigmas, d.wires = re(nConst), re(int(cd.Config.NumRoutedWires)), re(nWires)
	d.zs, d.zsnext = re(nc), re(nc)
	d.pps, d.quotients = re(nc*int(cd.NumPartialProducts)), re(nc*int(cd.QuotientDegreeFactor))
	for i := 0; i < 4; i++ {
		d.pih = append(d.pih, drv.RandBelow(rng, bigP))
	}
	return d
}

// perturbOne changes one opening or challenge.
func perturbOne(d *plonkData, rng *rand.Rand) string {
	lists := map[string][]gf.E{"sigmas": d.sigmas, "wires": d.wires[:int(d.cd.Config.NumRoutedWires)], "zs": d.zs, "zsnext": d.zsnext, "pps": d.pps, "quotients": d.quotients}
	names := []string{"sigmas", "wires", "zs", "zsnext", "pps", "quotients", "beta", "gamma", "alpha", "zeta"}
	if len(d.cd.GateIds) == 2 { // the synthetic descriptions with a Constant gate: selector and constant openings as well
		lists["consts"] = d.consts
		names = append(names, "consts", "consts")
	}
	for {
		n := names[rng.Intn(len(names))]
		switch n {
		case "beta":
			i := rng.Intn(len(d.betas))
			d.betas[i] = gf.Add(d.betas[i], one)
			return fmt.Sprintf("beta[%d]", i)
		case "gamma":
			i := rng.Intn(len(d.gammas))
			d.gammas[i] = gf.Add(d.gammas[i], one)
			return fmt.Sprintf("gamma[%d]", i)
		case "alpha":
			i := rng.Intn(len(d.alphas))
			d.alphas[i] = gf.Add(d.alphas[i], one)
			return fmt.Sprintf("alpha[%d]", i)
		case "zeta":
			d.zeta = gf.E{gf.Add(d.zeta[0], one), d.zeta[1]}
			return "zeta"
		default:
			l := lists[n]
			if len(l) == 0 {
				continue
			}
			i, c := rng.Intn(len(l)), rng.Intn(2)
			e := gf.E{l[i][0], l[i][1]}
			e[c] = gf.Add(e[c], one)
			l[i] = e
			return fmt.Sprintf("%s[%d][%d]", n, i, c)
		}
	}
}

func c16(raw json.RawMessage, resp *drv.Response) error {
	var req c16Req
	if err := json.Unmarshal(raw, &req); err != nil {
		return err
	}
	b, err := os.ReadFile(req.Terms)
	if err != nil {
		return err
	}
	var shapes []plonkShape
	if err := json.Unmarshal(b, &shapes); err != nil {
		return err
	}
	rng := drv.Rng(int64(1600 + req.Shard))
	s := &shapes[req.Index]
	var cd types.CommonCircuitData
	nConst, nWires := 0, 0
	if req.Part == "real" {
		l := data.Load(data.ByName(req.Instance), 1)
		cd = l.Common
		nConst, nWires = len(l.PWPI.Proof.Openings.Constants), len(l.PWPI.Proof.Openings.Wires)
		if int(cd.Config.NumChallenges) != s.NC || int(cd.Config.NumRoutedWires) != s.RW || int(cd.QuotientDegreeFactor) != s.QD || int(cd.NumGateConstraints) != s.NG || int(cd.DegreeBits) != s.DB {
			return fmt.Errorf("terms shape %+v does not match the instance", []int{s.NC, s.RW, s.QD, s.NG, s.DB})
		}
		// the real proof itself: the code's vanishing values equal the terms, and the identity holds
		d := &plonkData{cd: cd}
		ev := func(xs []gl.QuadraticExtensionVariable) []gf.E {
			out := []gf.E{}
			for _, x := range xs {
				out = append(out, gf.E{engine.ToBig(x[0].Limb), engine.ToBig(x[1].Limb)})
			}
			return out
		}
		o := l.PWPI.Proof.Openings
		d.consts, d.sigmas, d.wires, d.zs, d.zsnext, d.pps, d.quotients = ev(o.Constants), ev(o.PlonkSigmas), ev(o.Wires), ev(o.PlonkZs), ev(o.PlonkZsNext), ev(o.PartialProducts), ev(o.QuotientPolys)
		cs, err := realChallenges(l)
		if err != nil {
			return err
		}
		get := func(prefix string, n int) []*big.Int {
			out := []*big.Int{}
			for i, nm := range cs.names {
				if len(out) < n && len(nm) > len(prefix) && nm[:len(prefix)+1] == prefix+"[" {
					out = append(out, cs.vals[i])
				}
			}
			return out
		}
		d.betas, d.gammas, d.alphas = get("betas", s.NC), get("gammas", s.NC), get("alphas", s.NC)
		z := get("zeta", 2)
		d.zeta = gf.E{z[0], z[1]}
		orc, err2 := loadOracleDefault()
		if err2 != nil {
			return err2
		}
		pis := pubInputs(l)
		d.pih = orc.GlHashNoPad(pis)
		gv, err := gateConstraints(d)
		if err != nil {
			return fmt.Errorf("gate constraints: %s", firstLine(err))
		}
		got, err := vanishingReal(d)
		if err != nil {
			return fmt.Errorf("evalVanishingPoly on the real proof: %s", firstLine(err))
		}
		env := d.env(gv)
		resp.Count("real/"+req.Instance, false)
		for i := 0; i < s.NC; i++ {
			want, _ := terms.Eval(s.Vanishing[i], env)
			rhs, _ := terms.Eval(s.Rhs[i], env)
			if !got[i].Eq(want) {
				resp.Violate("c16/vanishing/wrong data=real", fmt.Sprintf("%s round %d: evalVanishingPoly %s, reference combination %s", req.Instance, i, estr(got[i]), estr(want)), nil)
			}
			if !want.Eq(rhs) {
				resp.Violate("c16/identity/real-proof-fails-reference", fmt.Sprintf("%s round %d: the reference identity does not hold on a valid proof: %s vs %s", req.Instance, i, estr(want), estr(rhs)), nil)
			}
		}
		resp.Sample(map[string]any{"instance": req.Instance, "vanishing_0": estr(got[0])})
	} else {
		// a synthetic description with no gate constraints
		cd.Config.NumChallenges, cd.Config.NumRoutedWires, cd.Config.NumWires = uint64(s.NC), uint64(s.RW), uint64(s.RW)
		cd.QuotientDegreeFactor = uint64(s.QD)
		cd.NumPartialProducts = uint64((s.RW+s.QD-1)/s.QD - 1)
		cd.DegreeBits, cd.FriParams.DegreeBits = uint64(s.DB), uint64(s.DB)
		cd.NumGateConstraints = 0
		cd.GateIds = []string{"NoopGate"}
		cd.SelectorsInfo = *gates.NewSelectorsInfo([]uint64{0}, []uint64{0}, []uint64{1})
		nConst = 1
		if req.Layout != 0 {
			if s.NG != 2 {
				return fmt.Errorf("a gate layout needs a shape with two gate constraints")
			}
			cd.NumGateConstraints = 2
			cd.GateIds = []string{"NoopGate", "ConstantGate { num_consts: 2 }"}
			if req.Layout == 1 {
				cd.SelectorsInfo = *gates.NewSelectorsInfo([]uint64{0, 0}, []uint64{0}, []uint64{2})
			} else {
				cd.SelectorsInfo = *gates.NewSelectorsInfo([]uint64{0, 1}, []uint64{0, 1}, []uint64{1, 2})
			}
			nConst = req.Layout + 2
		}
		for j := 0; j < s.RW; j++ {
			cd.KIs = append(cd.KIs, rng.Uint64()>>1)
		}
		nWires = s.RW
	}
	if req.Part == "degenerate" {
		return c16Degenerate(s, cd, req, resp, rng, nConst, nWires)
	}
	for rep := 0; rep < req.NRandom; rep++ {
		d := randData(cd, rng, nConst, nWires)
		// structured evaluation points next to the random ones: first coordinate 1 (not the point 1 itself), base-field, purely imaginary
		switch rep % 4 {
		case 1:
			d.zeta = gf.E{big.NewInt(1), new(big.Int).Add(one, drv.RandBelow(rng, new(big.Int).Sub(bigP, one)))}
		case 2:
			d.zeta = gf.E{drv.RandBelow(rng, bigP), big.NewInt(0)}
		case 3:
			d.zeta = gf.E{big.NewInt(0), new(big.Int).Add(one, drv.RandBelow(rng, new(big.Int).Sub(bigP, one)))}
		}
		var gv []gf.E
		if req.Part == "real" {
			var err error
			gv, err = gateConstraints(d)
			if err != nil {
				return fmt.Errorf("gate constraints: %s", firstLine(err))
			}
		} else {
			gv = synthGateVals(d, req.Layout)
		}
		if !solveQuotient(s, d, gv) {
			continue
		}
		key := fmt.Sprintf("%s/%s/%d/%d/%d/%d/%s", req.Part, req.Instance, s.NC, s.RW, s.QD, rep, estr(d.zeta))
		resp.Count(key, false)
		sig := fmt.Sprintf("nc=%d rw=%d qd=%d divisible=%v", s.NC, s.RW, s.QD, s.RW%s.QD == 0)
		if req.Layout != 0 {
			sig += fmt.Sprintf(" gates=noop+constant selector-groups=%d", req.Layout)
		}
		if got, err := vanishingRealSafe(d); err == "" {
			env := d.env(gv)
			for i := 0; i < s.NC; i++ {
				want, _ := terms.Eval(s.Vanishing[i], env)
				if !got[i].Eq(want) {
					resp.Violate("c16/vanishing/wrong data=random "+sig, fmt.Sprintf("round %d: evalVanishingPoly %s, reference %s", i, estr(got[i]), estr(want)), map[string]any{"shape": []int{s.NC, s.RW, s.QD}})
					break
				}
			}
		}
		out, msg := verifyReal(d)
		if out != "accept" {
			resp.Violate(fmt.Sprintf("c16/accept/%s-instead-of-accept %s", out, sig),
				fmt.Sprintf("openings and challenges satisfying the identity (quotient solved) for nc=%d routed=%d degree factor=%d are %s: %s", s.NC, s.RW, s.QD, out, msg), map[string]any{"shape": []int{s.NC, s.RW, s.QD}})
			continue
		}
		for t := 0; t < req.NPerturb; t++ {
			d2 := *d
			d2.betas, d2.gammas, d2.alphas = append([]*big.Int{}, d.betas...), append([]*big.Int{}, d.gammas...), append([]*big.Int{}, d.alphas...)
			cp := func(x []gf.E) []gf.E { return append([]gf.E{}, x...) }
			d2.sigmas, d2.wires, d2.zs, d2.zsnext, d2.pps, d2.quotients = cp(d.sigmas), cp(d.wires), cp(d.zs), cp(d.zsnext), cp(d.pps), cp(d.quotients)
			d2.consts = cp(d.consts)
			what := perturbOne(&d2, rng)
			// the reference decides whether the identity still holds after the change (an opening that is multiplied by a zero - a partial
			// product that happens to be 0 - does not matter to it): accept exactly when it does
			gv2 := gv
			if req.Part == "real" {
				var err error
				if gv2, err = gateConstraints(&d2); err != nil {
					continue
				}
			} else {
				gv2 = synthGateVals(&d2, req.Layout)
			}
			env2 := d2.env(gv2)
			holds := true
			for i := 0; i < s.NC; i++ {
				a, okA := terms.Eval(s.Vanishing[i], env2)
				b, okB := terms.Eval(s.Rhs[i], env2)
				if !okA || !okB || !a.Eq(b) {
					holds = false
				}
			}
			out2, msg2 := verifyReal(&d2)
			resp.Count(key+"/"+what, holds)
			if holds && out2 != "accept" {
				resp.Violate("c16/accept/"+out2+"-instead-of-accept-after-change "+sig, fmt.Sprintf("after changing %s the reference identity still holds, the PLONK check gives %s: %s", what, out2, msg2), map[string]any{"shape": []int{s.NC, s.RW, s.QD}, "what": what})
			}
			if !holds && out2 == "accept" {
				resp.Violate("c16/reject/accepted "+sig, fmt.Sprintf("after changing %s the PLONK check still accepts", what), map[string]any{"shape": []int{s.NC, s.RW, s.QD}, "what": what})
			}
		}
		// structured differences between the two sides of the final comparison: the first quotient chunk of one round is shifted by
		// delta / Z_H(zeta), so that Z_H(zeta) t(zeta) moves by exactly delta = (+-2^k, -+1) or a unit - an equality assertion that
		// folds the two coordinates into one word (a0 + 2^k a1) would let one of them pass
		if rep < 2 {
			zh := gf.ESub(gf.EExp(d.zeta, new(big.Int).Lsh(one, uint(s.DB))), gf.E1())
			zhInv, ok := gf.EInv(zh)
			for _, k := range []uint{0, 1, 16, 31, 32, 33, 48, 62, 63, 64} {
				for sgn := 0; sgn < 2 && ok; sgn++ {
					delta := gf.E{gf.Mod(pow2(int(k))), gf.Neg(one)}
					if sgn == 1 {
						delta = gf.E{gf.Neg(pow2(int(k))), big.NewInt(1)}
					}
					if k == 64 { // the units
						delta = []gf.E{{big.NewInt(1), big.NewInt(0)}, {big.NewInt(0), big.NewInt(1)}}[sgn]
					}
					d2 := *d
					d2.quotients = append([]gf.E{}, d.quotients...)
					r := rng.Intn(s.NC)
					d2.quotients[r*s.QD] = gf.EAdd(d2.quotients[r*s.QD], gf.EMul(delta, zhInv))
					out2, _ := verifyReal(&d2)
					resp.Count(fmt.Sprintf("%s/delta/%d/%d", key, k, sgn), false)
					if out2 == "accept" {
						resp.Violate("c16/reject/accepted-delta "+sig, fmt.Sprintf("round %d: the quotient opening moved so that Z_H(zeta) t(zeta) differs from the vanishing combination by exactly %s - the PLONK check still accepts", r, estr(delta)), map[string]any{"shape": []int{s.NC, s.RW, s.QD}, "k": k})
					}
				}
			}
		}
		if len(resp.Samples) < 3 {
			resp.Sample(map[string]any{"shape": sig, "outcome": out})
		}
	}
	return nil
}

func vanishingRealSafe(d *plonkData) (out []gf.E, msg string) {
	defer func() {
		if r := recover(); r != nil {
			msg = fmt.Sprint(r)
		}
	}()
	o, err := vanishingReal(d)
	if err != nil {
		return nil, firstLine(err)
	}
	return o, ""
}

// solveProducts makes every chunk check of the permutation argument vanish: acc_{j+1} = acc_j * num_j / den_j from Z(zeta).
func solveProducts(d *plonkData) bool {
	nc := len(d.betas)
	rw := int(d.cd.Config.NumRoutedWires)
	qd := int(d.cd.QuotientDegreeFactor)
	npp := int(d.cd.NumPartialProducts)
	for i := 0; i < nc; i++ {
		acc := d.zs[i]
		b, g := gf.EB(d.betas[i]), gf.EB(d.gammas[i])
		chunk := 0
		for lo := 0; lo < rw; lo += qd {
			hi := lo + qd
			if hi > rw {
				hi = rw
			}
			num, den := gf.E1(), gf.E1()
			for j := lo; j < hi; j++ {
				k := gf.EB(new(big.Int).SetUint64(d.cd.KIs[j]))
				num = gf.EMul(num, gf.EAdd(gf.EAdd(d.wires[j], gf.EMul(b, gf.EMul(k, d.zeta))), g))
				den = gf.EMul(den, gf.EAdd(gf.EAdd(d.wires[j], gf.EMul(b, d.sigmas[j])), g))
			}
			di, ok := gf.EInv(den)
			if !ok {
				return false
			}
			acc = gf.EMul(gf.EMul(acc, num), di)
			if chunk < npp {
				d.pps[i*npp+chunk] = acc
			} else {
				d.zsnext[i] = acc
			}
			chunk++
		}
	}
	return true
}

// c16Degenerate: zeta on the subgroup H, where Z_H(zeta) = 0 and the identity reads "the combination vanishes".
//
//	zeta = w^j, j != 0: L0(zeta) = 0; openings whose chunk checks all vanish satisfy the identity for any quotient -> accept;
//	                    one opening of the permutation argument changed -> reject.
//	zeta = 1:           L0(1) = 1; with Z(1) != 1 the identity fails -> must not be accepted.  (With Z(1) = 1 the identity holds but
//	                    the code - like plonky2's recursive verifier - cannot form L0 and accepts nothing at zeta = 1; that point is
//	                    not replayed, see DESIGN.md.)
func c16Degenerate(s *plonkShape, cd types.CommonCircuitData, req c16Req, resp *drv.Response, rng *rand.Rand, nConst, nWires int) error {
	n := new(big.Int).Lsh(big.NewInt(1), uint(s.DB))
	w := new(big.Int).Exp(big.NewInt(7), new(big.Int).Div(new(big.Int).Sub(bigP, one), n), bigP) // a primitive n-th root of unity
	sig := fmt.Sprintf("nc=%d rw=%d qd=%d", s.NC, s.RW, s.QD)
	for rep := 0; rep < req.NRandom; rep++ {
		for _, kind := range []string{"one", "root"} {
			d := randData(cd, rng, nConst, nWires)
			if kind == "one" {
				d.zeta = gf.E{big.NewInt(1), big.NewInt(0)}
			} else {
				j := new(big.Int).Add(one, drv.RandBelow(rng, new(big.Int).Sub(n, one)))
				d.zeta = gf.E{new(big.Int).Exp(w, j, bigP), big.NewInt(0)}
			}
			if !solveProducts(d) {
				continue
			}
			env := d.env(nil)
			if zh, ok := terms.Eval(s.ZH, env); !ok || !zh.IsZero() {
				return fmt.Errorf("degenerate: Z_H(zeta) is not zero on the subgroup")
			}
			key := fmt.Sprintf("degenerate/%s/%s/%d/%s", kind, sig, rep, estr(d.zeta))
			out, msg := verifyReal(d)
			resp.Count(key, false)
			if kind == "one" {
				if out == "accept" {
					resp.Violate("c16/degenerate/accepted zeta=1 "+sig, "zeta = 1, Z(1) = "+estr(d.zs[0])+" != 1 and every other term vanishing: L0(1)(Z(1)-1) != 0 = Z_H(1) t(1), yet the PLONK check accepts", map[string]any{"shape": []int{s.NC, s.RW, s.QD}})
				}
				continue
			}
			ok := true
			for i := 0; i < s.NC; i++ {
				if v, e := terms.Eval(s.Vanishing[i], env); !e || !v.IsZero() {
					ok = false
				}
			}
			if !ok {
				return fmt.Errorf("degenerate: the constructed openings do not make the reference combination vanish (driver construction error)")
			}
			if out != "accept" {
				resp.Violate("c16/degenerate/"+out+"-instead-of-accept zeta=root "+sig, "zeta on the subgroup (not 1), every term of the combination vanishing: identity 0 = 0 holds, the check gives "+out+": "+msg, map[string]any{"shape": []int{s.NC, s.RW, s.QD}})
				continue
			}
			for t := 0; t < req.NPerturb; t++ {
				d2 := *d
				cp := func(x []gf.E) []gf.E { return append([]gf.E{}, x...) }
				d2.sigmas, d2.wires, d2.zs, d2.zsnext, d2.pps = cp(d.sigmas), cp(d.wires), cp(d.zs), cp(d.zsnext), cp(d.pps)
				lists := map[string][]gf.E{"zs": d2.zs, "zsnext": d2.zsnext, "wires": d2.wires[:s.RW], "sigmas": d2.sigmas}
				names := []string{"zs", "zsnext", "wires", "sigmas"}
				if len(d2.pps) > 0 {
					lists["pps"] = d2.pps
					names = append(names, "pps")
				}
				what := names[rng.Intn(len(names))]
				l := lists[what]
				ix := rng.Intn(len(l))
				l[ix] = gf.EAdd(l[ix], gf.E{big.NewInt(int64(rng.Intn(2))), big.NewInt(int64(1 + rng.Intn(5)))})
				// (the changed opening may be multiplied by a zero: the reference decides whether the combination still vanishes)
				still := true
				env2 := d2.env(nil)
				for i := 0; i < s.NC; i++ {
					if v, e := terms.Eval(s.Vanishing[i], env2); !e || !v.IsZero() {
						still = false
					}
				}
				out2, _ := verifyReal(&d2)
				resp.Count(key+"/"+what+fmt.Sprint(ix), still)
				if still {
					if out2 != "accept" {
						resp.Violate("c16/degenerate/"+out2+"-instead-of-accept-after-change zeta=root "+sig, fmt.Sprintf("zeta on the subgroup: after changing %s[%d] every term still vanishes, yet the PLONK check gives %s", what, ix, out2), map[string]any{"what": what})
					}
					continue
				}
				if out2 == "accept" {
					resp.Violate("c16/degenerate/reject-accepted zeta=root "+sig, fmt.Sprintf("zeta on the subgroup: after changing %s[%d] a chunk check no longer vanishes, yet the PLONK check accepts", what, ix), map[string]any{"what": what})
				}
			}
		}
	}
	return nil
}
