package drivers

import (
	"encoding/json"
	"fmt"
	"math/big"
	"math/rand"

	"github.com/consensys/gnark-crypto/field/goldilocks"
	"github.com/consensys/gnark/frontend"
	gl "github.com/wormhole-foundation/example-near-light-client/goldilocks"
	"verifharness/drv"
	"verifharness/engine"
	"verifharness/gf"
	"verifharness/hc"
)

type c08Req struct {
	Part    string `json:"part"` // binary | unary | exp | batch | lists | algebra | zero | real
	Mode    string `json:"mode"`
	NRandom int    `json:"nrandom"`
	Shard   int    `json:"shard"`
}

func init() { drv.Register("c08", c08) }

func edgeE(rng *rand.Rand) gf.E {
	ed := []*big.Int{big.NewInt(0), big.NewInt(1), new(big.Int).Sub(bigP, one), new(big.Int).Sub(two32, one), two32}
	return gf.E{ed[rng.Intn(len(ed))], ed[rng.Intn(len(ed))]}
}

func runQE(mode string, in []gf.E, extra []*big.Int, f func(chip *gl.Chip, api frontend.API, v []gl.QuadraticExtensionVariable, x []frontend.Variable) []gl.QuadraticExtensionVariable) ([]gf.E, error) {
	var flat []*big.Int
	for _, e := range in {
		flat = append(flat, e[0], e[1])
	}
	flat = append(flat, extra...)
	var out []gf.E
	err := hc.Run(&engine.Config{Mode: modeOf(mode)}, flat, func(api frontend.API, iv []frontend.Variable) error {
		chip := gl.New(api)
		vs := make([]gl.QuadraticExtensionVariable, len(in))
		for i := range vs {
			vs[i] = qe(iv, 2*i)
		}
		for _, r := range f(chip, api, vs, iv[2*len(in):]) {
			out = append(out, getE(r))
		}
		return nil
	})
	return out, err
}

func c08(raw json.RawMessage, resp *drv.Response) error {
	var req c08Req
	if err := json.Unmarshal(raw, &req); err != nil {
		return err
	}
	if req.Mode == "" {
		req.Mode = "native"
	}
	rng := drv.Rng(int64(800 + req.Shard))
	pick := func(i int) gf.E {
		if i%3 == 0 {
			return edgeE(rng)
		}
		return randE(rng)
	}
	bad := func(sig, detail string, c any) { resp.Violate("c08/"+sig+" mode="+req.Mode, detail, c) }
	switch req.Part {
	case "binary":
		for i := 0; i < 30+req.NRandom; i++ {
			a, b, c := pick(i), pick(i+1), pick(i+2)
			s := drv.RandBelow(rng, bigP)
			if i%5 == 0 {
				s = glEdge()[rng.Intn(7)]
			}
			got, err := runQE(req.Mode, []gf.E{a, b, c}, []*big.Int{s}, func(chip *gl.Chip, api frontend.API, v []gl.QuadraticExtensionVariable, x []frontend.Variable) []gl.QuadraticExtensionVariable {
				return []gl.QuadraticExtensionVariable{
					chip.AddExtension(v[0], v[1]), chip.SubExtension(v[0], v[1]), chip.MulExtension(v[0], v[1]),
					chip.ScalarMulExtension(v[0], gl.NewVariable(x[0])), chip.MulAddExtension(v[0], v[1], v[2]), chip.SubMulExtension(v[0], v[1], v[2]),
					chip.ReduceExtension(chip.AddExtensionNoReduce(v[0], v[1])), chip.ReduceExtension(chip.SubExtensionNoReduce(v[0], v[1])),
					chip.ReduceExtension(chip.MulExtensionNoReduce(v[0], v[1])), chip.ReduceExtension(chip.MulAddExtensionNoReduce(v[0], v[1], v[2])),
				}
			})
			want := []gf.E{gf.EAdd(a, b), gf.ESub(a, b), gf.EMul(a, b), gf.EScal(a, s), gf.EAdd(gf.EMul(a, b), c), gf.EMul(gf.ESub(a, b), c),
				gf.EAdd(a, b), gf.ESub(a, b), gf.EMul(a, b), gf.EAdd(gf.EMul(a, b), c)}
			names := []string{"add", "sub", "mul", "scalarmul", "muladd", "submul", "add_noreduce", "sub_noreduce", "mul_noreduce", "muladd_noreduce"}
			resp.Count(fmt.Sprintf("binary/%s/%s/%s/%s", estr(a), estr(b), estr(c), s), false)
			if err != nil {
				bad("binary/rejected", fmt.Sprintf("a=%s b=%s c=%s: %s", estr(a), estr(b), estr(c), firstLine(err)), nil)
				continue
			}
			for k := range want {
				if !got[k].Eq(want[k]) || got[k][0].Cmp(bigP) >= 0 || got[k][1].Cmp(bigP) >= 0 {
					bad("binary/wrong op="+names[k], fmt.Sprintf("%s(a=%s, b=%s, c=%s, s=%s) = %s, field: %s", names[k], estr(a), estr(b), estr(c), s, estr(got[k]), estr(want[k])), nil)
				}
			}
			if len(resp.Samples) < 2 {
				resp.Sample(map[string]any{"a": estr(a), "b": estr(b), "mul": estr(got[2])})
			}
		}
	case "unary":
		for i := 0; i < 30+req.NRandom; i++ {
			a, b := pick(i), pick(i+1)
			if a.IsZero() {
				a = gf.E1()
			}
			bit := big.NewInt(int64(rng.Intn(2)))
			bit2 := big.NewInt(int64(rng.Intn(2)))
			var isZ, hasI *big.Int
			got, err := runQE(req.Mode, []gf.E{a, b}, []*big.Int{bit, bit2}, func(chip *gl.Chip, api frontend.API, v []gl.QuadraticExtensionVariable, x []frontend.Variable) []gl.QuadraticExtensionVariable {
				inv, h := chip.InverseExtension(v[0])
				hasI = new(big.Int).Set(engine.ToBig(h))
				div, _ := chip.DivExtension(v[1], v[0])
				isZ = new(big.Int).Set(engine.ToBig(chip.IsZero(v[1])))
				return []gl.QuadraticExtensionVariable{inv, div, chip.Lookup(x[0], v[0], v[1]), chip.Lookup2(x[0], x[1], v[0], v[1], gl.OneExtension(), gl.ZeroExtension())}
			})
			resp.Count(fmt.Sprintf("unary/%s/%s", estr(a), estr(b)), false)
			if err != nil {
				bad("unary/rejected", fmt.Sprintf("a=%s: %s", estr(a), firstLine(err)), nil)
				continue
			}
			ai, _ := gf.EInv(a)
			sel := a
			if bit.Sign() != 0 {
				sel = b
			}
			l2 := []gf.E{a, b, gf.E1(), gf.E0()}[int(bit.Int64())+2*int(bit2.Int64())]
			wz := int64(0)
			if b.IsZero() {
				wz = 1
			}
			if !got[0].Eq(ai) || !got[1].Eq(gf.EMul(b, ai)) || hasI.Int64() != 1 {
				bad("unary/wrong op=inverse_or_div", fmt.Sprintf("a=%s b=%s: inv=%s div=%s has=%v; field inv=%s", estr(a), estr(b), estr(got[0]), estr(got[1]), hasI, estr(ai)), nil)
			}
			if !got[2].Eq(sel) || !got[3].Eq(l2) || isZ.Int64() != wz {
				bad("unary/wrong op=lookup_or_iszero", fmt.Sprintf("a=%s b=%s bits=%v,%v: lookup=%s lookup2=%s iszero=%v", estr(a), estr(b), bit, bit2, estr(got[2]), estr(got[3]), isZ), nil)
			}
		}
	case "zero": // inversion / division of zero is rejected
		for i := 0; i < 4; i++ {
			b := pick(i)
			_, err := runQE(req.Mode, []gf.E{gf.E0(), b}, nil, func(chip *gl.Chip, api frontend.API, v []gl.QuadraticExtensionVariable, x []frontend.Variable) []gl.QuadraticExtensionVariable {
				if i%2 == 0 {
					inv, _ := chip.InverseExtension(v[0])
					return []gl.QuadraticExtensionVariable{inv}
				}
				d, _ := chip.DivExtension(v[1], v[0])
				return []gl.QuadraticExtensionVariable{d}
			})
			resp.Count(fmt.Sprintf("zero/%d/%s", i, estr(b)), false)
			if err == nil {
				bad("zero/accepted", "inversion / division of zero is accepted", nil)
			}
		}
		// the equality assertion: equal elements pass; elements that differ by a unit or by (+-2^k, -+1) - the differences that an
		// assertion folding both coordinates into one word would not see - are rejected
		for i := 0; i < 3; i++ {
			a := pick(i + 1)
			var deltas []gf.E
			deltas = append(deltas, gf.E{big.NewInt(0), big.NewInt(0)}, gf.E{big.NewInt(1), big.NewInt(0)}, gf.E{big.NewInt(0), big.NewInt(1)})
			for _, k := range []int{0, 1, 31, 32, 33, 62, 63} {
				deltas = append(deltas, gf.E{gf.Mod(pow2(k)), gf.Neg(one)}, gf.E{gf.Neg(pow2(k)), big.NewInt(1)})
			}
			for di, dl := range deltas {
				b := gf.EAdd(a, dl)
				_, err := runQE(req.Mode, []gf.E{a, b}, nil, func(chip *gl.Chip, api frontend.API, v []gl.QuadraticExtensionVariable, x []frontend.Variable) []gl.QuadraticExtensionVariable {
					chip.AssertIsEqualExtension(v[0], v[1])
					return nil
				})
				resp.Count(fmt.Sprintf("equal/%s/%d", estr(a), di), false)
				if (err == nil) != (di == 0) {
					bad("equal/wrong", fmt.Sprintf("AssertIsEqualExtension(%s, %s): accepted=%v", estr(a), estr(b), err == nil), nil)
				}
			}
		}
	case "exp":
		exps := []uint64{0, 1, 2, 3, 4, 5, 6, 7, 8, 9, 10, 12, 22, 24, 100, 255, 256, 257, 1000, 65535, 65536, 65538, 1<<20 - 1, 1 << 20, 1<<20 + 1<<10, ^uint64(0), ^uint64(0) - 1, 1 << 63, 1<<63 + 2}
		for i := 0; i < 10+req.NRandom; i++ {
			exps = append(exps, uint64(rng.Intn(1<<20)), rng.Uint64())
		}
		for i, e := range exps {
			a := pick(i)
			got, err := runQE(req.Mode, []gf.E{a}, nil, func(chip *gl.Chip, api frontend.API, v []gl.QuadraticExtensionVariable, x []frontend.Variable) []gl.QuadraticExtensionVariable {
				return []gl.QuadraticExtensionVariable{chip.ExpExtension(v[0], e)}
			})
			resp.Count(fmt.Sprintf("exp/%s/%d", estr(a), e), false)
			want := gf.EExp(a, new(big.Int).SetUint64(e))
			if err != nil || !got[0].Eq(want) {
				bad("exp/wrong", fmt.Sprintf("%s^%d = %v, field: %s (%s)", estr(a), e, got, estr(want), firstLine(err)), nil)
			}
		}
	case "batch":
		// several calls on one chip in one circuit with related operands (same exponent, bases sharing a coordinate; the same operand
		// twice): a result is a function of its operands, not of what the chip computed before
		for rep := 0; rep < 6+req.NRandom; rep++ {
			c0, c1 := drv.RandBelow(rng, bigP), drv.RandBelow(rng, bigP)
			bases := []gf.E{{c0, drv.RandBelow(rng, bigP)}, {c0, drv.RandBelow(rng, bigP)}, {drv.RandBelow(rng, bigP), c1}, {big.NewInt(0), drv.RandBelow(rng, bigP)}, {big.NewInt(0), c1}, {c0, c1}}
			e := []uint64{3, 5, 6, 255, 256, 65537, uint64(3 + rng.Intn(1000))}[rep%7]
			got, err := runQE(req.Mode, bases, nil, func(chip *gl.Chip, api frontend.API, v []gl.QuadraticExtensionVariable, x []frontend.Variable) []gl.QuadraticExtensionVariable {
				var out []gl.QuadraticExtensionVariable
				for _, b := range v {
					out = append(out, chip.ExpExtension(b, e))
				}
				for i := range v {
					out = append(out, chip.MulExtension(v[i], v[(i+1)%len(v)]))
				}
				for _, b := range v {
					inv, _ := chip.InverseExtension(b)
					out = append(out, inv)
				}
				out = append(out, chip.ExpExtension(v[0], e)) // the first base again, last
				return out
			})
			resp.Count(fmt.Sprintf("batch/%d/%s/%s", e, c0, c1), false)
			if err != nil {
				bad("batch/rejected", firstLine(err), nil)
				continue
			}
			k := 0
			check := func(name string, want gf.E) {
				if k < len(got) && !got[k].Eq(want) {
					bad("batch/wrong op="+name, fmt.Sprintf("call %d of a batch on one chip (%s, exponent %d): %s, field: %s", k, name, e, estr(got[k]), estr(want)), nil)
				}
				k++
			}
			for _, b := range bases {
				check("exp", gf.EExp(b, new(big.Int).SetUint64(e)))
			}
			for i := range bases {
				check("mul", gf.EMul(bases[i], bases[(i+1)%len(bases)]))
			}
			for _, b := range bases {
				bi, _ := gf.EInv(b)
				check("inverse", bi)
			}
			check("exp", gf.EExp(bases[0], new(big.Int).SetUint64(e)))
		}
		// prover-supplied values other than the chip's four hints inside the extension gadgets, on operands whose results have small
		// coordinates (where value + p still fits 64 bits): a/a, 0/b, the inverses of 1 and of 1/2
		if req.Shard == 0 {
			half := new(big.Int).Rsh(new(big.Int).Add(bigP, one), 1)
			small := []gf.E{gf.E1(), {big.NewInt(3), big.NewInt(0)}, {new(big.Int).Set(half), big.NewInt(0)}, {big.NewInt(0), big.NewInt(1)}, randE(rng)}
			for i, a := range small {
				b := small[(i+1)%len(small)]
				flat := []*big.Int{a[0], a[1], b[0], b[1]}
				foreignProbe(resp, "c08", fmt.Sprintf("div-inverse-%d", i), modeOf(req.Mode), flat, func(api frontend.API, iv []frontend.Variable) error {
					chip := gl.New(api)
					x, y := qe(iv, 0), qe(iv, 2)
					chip.DivExtension(x, x)
					chip.DivExtension(gl.ZeroExtension(), y)
					chip.DivExtension(x, y)
					chip.InverseExtension(x)
					chip.MulExtension(x, y)
					return nil
				})
			}
		}
	case "lists":
		lens := []int{0, 1, 2, 3, 7, 16, 100, 300}
		for i := 0; i < 2+req.NRandom; i++ {
			lens = append(lens, rng.Intn(301))
		}
		for li, n := range lens {
			in := []gf.E{pick(li)}
			for j := 0; j < 2*n; j++ {
				in = append(in, pick(li+j))
			}
			c := drv.RandBelow(rng, bigP)
			got, err := runQE(req.Mode, in, []*big.Int{c}, func(chip *gl.Chip, api frontend.API, v []gl.QuadraticExtensionVariable, x []frontend.Variable) []gl.QuadraticExtensionVariable {
				pairs := make([][2]gl.QuadraticExtensionVariable, n)
				for j := range pairs {
					pairs[j] = [2]gl.QuadraticExtensionVariable{v[1+j], v[1+n+j]}
				}
				res := []gl.QuadraticExtensionVariable{chip.ReduceWithPowers(v[1:1+n], v[0])}
				if n <= 14 { // the inner product is specified for accumulations that fit one reduction (RANGE_CHECK_NB_BITS - 128 terms)
					res = append(res, chip.InnerProductExtension(gl.NewVariable(x[0]), v[0], pairs))
				}
				return res
			})
			resp.Count(fmt.Sprintf("lists/%d/%s", n, estr(in[0])), false)
			want := gf.E0()
			for j := n - 1; j >= 0; j-- {
				want = gf.EAdd(gf.EMul(want, in[0]), in[1+j])
			}
			if err != nil || !got[0].Eq(want) {
				bad("lists/wrong op=reduce_with_powers", fmt.Sprintf("n=%d: %v vs %s (%s)", n, got, estr(want), firstLine(err)), nil)
				continue
			}
			if n <= 14 {
				ip := in[0]
				for j := 0; j < n; j++ {
					ip = gf.EAdd(ip, gf.EMul(gf.EScal(in[1+j], c), in[1+n+j]))
				}
				if !got[1].Eq(ip) {
					bad("lists/wrong op=inner_product", fmt.Sprintf("n=%d: %s vs %s", n, estr(got[1]), estr(ip)), nil)
				}
			}
		}
	case "algebra":
		w7 := gf.EB(big.NewInt(7))
		amul := func(a, b [2]gf.E) [2]gf.E {
			return [2]gf.E{gf.EAdd(gf.EMul(a[0], b[0]), gf.EMul(w7, gf.EMul(a[1], b[1]))), gf.EAdd(gf.EMul(a[0], b[1]), gf.EMul(a[1], b[0]))}
		}
		for i := 0; i < 10+req.NRandom; i++ {
			a := [2]gf.E{pick(i), pick(i + 1)}
			b := [2]gf.E{pick(i + 2), pick(i + 3)}
			s := pick(i + 4)
			// partial barycentric interpolation over a small domain
			nd := 1 + rng.Intn(4)
			dom := make([]goldilocks.Element, nd)
			wts := make([]goldilocks.Element, nd)
			domB := make([]*big.Int, nd)
			wtB := make([]*big.Int, nd)
			vals := make([][2]gf.E, nd)
			in := []gf.E{a[0], a[1], b[0], b[1], s}
			for j := 0; j < nd; j++ {
				domB[j], wtB[j] = drv.RandBelow(rng, bigP), drv.RandBelow(rng, bigP)
				dom[j].SetBigInt(domB[j])
				wts[j].SetBigInt(wtB[j])
				vals[j] = [2]gf.E{pick(j), pick(j + 1)}
				in = append(in, vals[j][0], vals[j][1])
			}
			got, err := runQE(req.Mode, in, nil, func(chip *gl.Chip, api frontend.API, v []gl.QuadraticExtensionVariable, x []frontend.Variable) []gl.QuadraticExtensionVariable {
				A := gl.QuadraticExtensionAlgebraVariable{v[0], v[1]}
				B := gl.QuadraticExtensionAlgebraVariable{v[2], v[3]}
				m := chip.MulExtensionAlgebra(A, B)
				ad := chip.AddExtensionAlgebra(A, B)
				sb := chip.SubExtensionAlgebra(A, B)
				sc := chip.ScalarMulExtensionAlgebra(v[4], A)
				vv := make([]gl.QuadraticExtensionAlgebraVariable, nd)
				for j := range vv {
					vv[j] = gl.QuadraticExtensionAlgebraVariable{v[5+2*j], v[6+2*j]}
				}
				ev, pr := chip.PartialInterpolateExtAlgebra(dom, vv, wts, A, B, gl.OneExtensionAlgebra())
				return []gl.QuadraticExtensionVariable{m[0], m[1], ad[0], ad[1], sb[0], sb[1], sc[0], sc[1], ev[0], ev[1], pr[0], pr[1]}
			})
			resp.Count(fmt.Sprintf("algebra/%s/%s/%d", estr(a[0]), estr(b[1]), nd), false)
			if err != nil {
				bad("algebra/rejected", firstLine(err), nil)
				continue
			}
			m := amul(a, b)
			// reference of the running barycentric evaluation (ExtField.tla PartialInterpolate)
			ev, pr := b, [2]gf.E{gf.E1(), gf.E0()}
			for j := 0; j < nd; j++ {
				term := [2]gf.E{gf.ESub(a[0], gf.EB(domB[j])), a[1]}
				wv := [2]gf.E{gf.EMul(gf.EB(wtB[j]), vals[j][0]), gf.EMul(gf.EB(wtB[j]), vals[j][1])}
				e1 := amul(ev, term)
				t2 := amul(wv, pr)
				ev = [2]gf.E{gf.EAdd(e1[0], t2[0]), gf.EAdd(e1[1], t2[1])}
				pr = amul(pr, term)
			}
			want := []gf.E{m[0], m[1], gf.EAdd(a[0], b[0]), gf.EAdd(a[1], b[1]), gf.ESub(a[0], b[0]), gf.ESub(a[1], b[1]), gf.EMul(s, a[0]), gf.EMul(s, a[1]), ev[0], ev[1], pr[0], pr[1]}
			names := []string{"mul", "mul", "add", "add", "sub", "sub", "scalarmul", "scalarmul", "partial_interpolate", "partial_interpolate", "partial_interpolate", "partial_interpolate"}
			for k := range want {
				if !got[k].Eq(want[k]) {
					bad("algebra/wrong op="+names[k], fmt.Sprintf("component %d: %s vs %s", k, estr(got[k]), estr(want[k])), nil)
					break
				}
			}
		}
	case "real":
		// programs of extension-field operations compiled with gnark's real builders (R1CS, SCS) and solved with the honest hints; a
		// register may be used again after it was an operand (a builder that writes a multiply-accumulate into the storage of an operand
		// changes it behind the caller's back - nothing of that exists on the test engine); in the second and third pass register 3
		// resp. 2 is a compile-time constant of the circuit.  Unreduced results are only used as addends of multiply-adds and of
		// non-reducing additions (the operand ranges the gadgets state).
		type step struct {
			op      string
			i, j, k int
		}
		fixed := [][]step{
			{{"muladdnr", 0, 2, 0}, {"add", 0, 1, 0}, {"mul", 0, 1, 0}},
			{{"addnr", 0, 1, 0}, {"muladdnr", 0, 2, 3}, {"muladd", 0, 1, 3}, {"muladd", 1, 2, 3}, {"muladdnr", 1, 0, 3}},
			{{"muladd", 0, 2, 0}, {"sub", 0, 1, 0}, {"muladdnr", 2, 0, 0}, {"scalarmul", 0, 1, 0}},
			{{"mulnr", 0, 2, 0}, {"muladdnr", 1, 2, 3}, {"muladd", 0, 1, 3}, {"submul", 0, 1, 2}},
		}
		progs := fixed
		ops := []string{"add", "sub", "mul", "muladd", "submul", "addnr", "mulnr", "muladdnr", "scalarmul"}
		for r := 0; r < 6+req.NRandom; r++ {
			var prog []step
			reduced := []bool{true, true, true}
			pickReg := func(needReduced bool) int {
				for {
					x := rng.Intn(len(reduced))
					if rng.Intn(2) == 0 { // favour the inputs and the most recent result: reuse after use is the point
						x = []int{0, 1, 2, len(reduced) - 1}[rng.Intn(4)]
					}
					if !needReduced || reduced[x] {
						return x
					}
				}
			}
			for n := 0; n < 4+rng.Intn(3); n++ {
				op := ops[rng.Intn(len(ops))]
				st := step{op: op}
				switch op {
				case "addnr":
					st.i, st.j = pickReg(false), pickReg(false)
				case "add", "sub":
					st.i, st.j = pickReg(true), pickReg(true)
				case "mul", "mulnr", "scalarmul":
					st.i, st.j = pickReg(true), pickReg(true)
				case "muladd", "muladdnr":
					st.i, st.j, st.k = pickReg(true), pickReg(true), pickReg(false)
				case "submul":
					st.i, st.j, st.k = pickReg(true), pickReg(true), pickReg(true)
				}
				prog = append(prog, st)
				reduced = append(reduced, !(op == "addnr" || op == "mulnr" || op == "muladdnr"))
			}
			progs = append(progs, prog)
		}
		for pi, prog := range progs {
			in := []gf.E{randE(rng), randE(rng), randE(rng)}
			if pi%3 == 0 {
				in[pi%2] = edgeE(rng)
			}
			regs := append([]gf.E{}, in...)
			for _, st := range prog {
				a, b := regs[st.i], regs[st.j]
				var o gf.E
				switch st.op {
				case "add", "addnr":
					o = gf.EAdd(a, b)
				case "sub":
					o = gf.ESub(a, b)
				case "mul", "mulnr":
					o = gf.EMul(a, b)
				case "muladd", "muladdnr":
					o = gf.EAdd(gf.EMul(a, b), regs[st.k])
				case "submul":
					o = gf.EMul(gf.ESub(a, b), regs[st.k])
				case "scalarmul":
					o = gf.EScal(a, b[0])
				}
				regs = append(regs, o)
			}
			var flat, want []*big.Int
			for _, e := range in {
				flat = append(flat, e[0], e[1])
			}
			for _, e := range regs[3:] {
				want = append(want, gf.Mod(e[0]), gf.Mod(e[1]))
			}
			for constReg := -1; constReg <= 2; constReg++ {
				if constReg == 0 {
					continue
				}
				constReg := constReg
				body := func(api frontend.API, iv []frontend.Variable) []frontend.Variable {
					chip := gl.New(api)
					vs := []gl.QuadraticExtensionVariable{qe(iv, 0), qe(iv, 2), qe(iv, 4)}
					if constReg > 0 {
						vs[constReg] = gl.QuadraticExtensionVariable{gl.NewVariable(new(big.Int).Set(in[constReg][0])), gl.NewVariable(new(big.Int).Set(in[constReg][1]))}
					}
					for _, st := range prog {
						a, b := vs[st.i], vs[st.j]
						var o gl.QuadraticExtensionVariable
						switch st.op {
						case "add":
							o = chip.AddExtension(a, b)
						case "addnr":
							o = chip.AddExtensionNoReduce(a, b)
						case "sub":
							o = chip.SubExtension(a, b)
						case "mul":
							o = chip.MulExtension(a, b)
						case "mulnr":
							o = chip.MulExtensionNoReduce(a, b)
						case "muladd":
							o = chip.MulAddExtension(a, b, vs[st.k])
						case "muladdnr":
							o = chip.MulAddExtensionNoReduce(a, b, vs[st.k])
						case "submul":
							o = chip.SubMulExtension(a, b, vs[st.k])
						case "scalarmul":
							o = chip.ScalarMulExtension(a, b[0])
						}
						vs = append(vs, o)
					}
					var outs []frontend.Variable
					for si, st := range prog { // read (and reduce the unreduced ones) only after the whole program has run
						v := vs[3+si]
						if st.op == "addnr" || st.op == "mulnr" || st.op == "muladdnr" {
							v = chip.ReduceExtension(v)
						}
						outs = append(outs, v[0].Limb, v[1].Limb)
					}
					return outs
				}
				for _, sys := range []string{"r1cs", "scs"} {
					stage, err := solveOnBuilder(sys, flat, want, body)
					resp.Count(fmt.Sprintf("real/%s/%d/%d/%s", sys, constReg, pi, estr(in[0])), false)
					if err != nil {
						resp.Violate(fmt.Sprintf("c08/program-real/%s sys=%s", stage, sys),
							fmt.Sprintf("program %v on %s %s %s (constant register: %d) compiled with the real %s builder: the field's results are not accepted (%s: %s)", prog, estr(in[0]), estr(in[1]), estr(in[2]), constReg+1, sys, stage, firstLine(err)), map[string]any{"prog": fmt.Sprint(prog), "sys": sys})
					}
				}
			}
		}
	default:
		return fmt.Errorf("unknown part %q", req.Part)
	}
	return nil
}
