package drivers

import (
	"encoding/json"
	"fmt"
	"math/big"
	"math/rand"
	"os"
	"strings"

	"github.com/consensys/gnark/frontend"
	"github.com/wormhole-foundation/example-near-light-client/challenger"
	gl "github.com/wormhole-foundation/example-near-light-client/goldilocks"
	"github.com/wormhole-foundation/example-near-light-client/poseidon"
	"github.com/wormhole-foundation/example-near-light-client/variables"
	"github.com/wormhole-foundation/example-near-light-client/verifier"
	"verifharness/data"
	"verifharness/drv"
	"verifharness/engine"
	"verifharness/gf"
	"verifharness/hc"
	"verifharness/ref"
)

// ---- histories of Challenger.tla ---------------------------------------------------------------------

type chState struct {
	Prev int      `json:"prev"`
	Ib   []string `json:"ib"`
}
type chOut struct {
	St int `json:"st"`
	I  int `json:"i"`
}
type chOp struct {
	Op    string   `json:"op"`
	Label string   `json:"label"`
	Syms  []string `json:"syms"`
	Outs  []chOut  `json:"outs"`
}
type chHistory struct {
	States []chState `json:"states"`
	Hist   []chOp    `json:"hist"`
}

// evalStates interprets the state table with the permutation oracle: state 1 is all-zero; every later entry is
// "overwrite the first Len(ib) elements of the previous state with the (reduced) symbols, then permute".
func evalStates(o *ref.Oracle, h chHistory, val func(string) *big.Int) [][]*big.Int {
	out := make([][]*big.Int, len(h.States)+1)
	for id := 1; id <= len(h.States); id++ {
		e := h.States[id-1]
		if e.Prev == 0 {
			z := make([]*big.Int, 12)
			for i := range z {
				z[i] = new(big.Int)
			}
			out[id] = z
			continue
		}
		st := append([]*big.Int{}, out[e.Prev]...)
		for i, s := range e.Ib {
			st[i] = gf.Mod(val(s))
		}
		out[id] = o.GlPerm(st)
	}
	return out
}

type c11Req struct {
	oracleFiles
	Part      string   `json:"part"` // histories | transcript | trace
	Histories string   `json:"histories"`
	Max       int      `json:"max"`
	Instance  string   `json:"instance"`
	K         int      `json:"k"`
	Variants  []string `json:"variants"` // real | random | perturb
	NPerturb  int      `json:"nperturb"`
	TraceFile string   `json:"trace_file"`
	Shard     int      `json:"shard"`
	NShards   int      `json:"nshards"`
	FinalLen  int      `json:"final_len"` // transcript: truncate the final polynomial to this many coefficients (0 = as in the proof)
}

func init() { drv.Register("c11", c11) }

func c11(raw json.RawMessage, resp *drv.Response) error {
	var req c11Req
	if err := json.Unmarshal(raw, &req); err != nil {
		return err
	}
	o, err := loadOracle(req.oracleFiles)
	if err != nil {
		return err
	}
	rng := drv.Rng(int64(1100 + req.Shard))
	switch req.Part {
	case "histories":
		return c11Histories(req, o, resp, rng)
	case "transcript":
		return c11Transcript(req, o, resp, rng)
	case "trace":
		return c11Trace(req, resp)
	}
	return fmt.Errorf("unknown part %q", req.Part)
}

func readHistories(path string) ([]chHistory, error) {
	b, err := os.ReadFile(path)
	if err != nil {
		return nil, err
	}
	var hs []chHistory
	return hs, json.Unmarshal(b, &hs)
}

func c11Histories(req c11Req, o *ref.Oracle, resp *drv.Response, rng *rand.Rand) error {
	hs, err := readHistories(req.Histories)
	if err != nil {
		return err
	}
	n := 0
	for hi, h := range hs {
		if req.NShards > 0 && hi%req.NShards != req.Shard {
			continue
		}
		if req.Max > 0 && n >= req.Max {
			break
		}
		n++
		// seeded values for the symbols
		vals := map[string]*big.Int{}
		hashes := map[string]*big.Int{}
		val := func(s string) *big.Int {
			if v, ok := vals[s]; ok {
				return v
			}
			var v *big.Int
			if i := strings.Index(s, "#chunk@"); i >= 0 {
				hname := s[:i]
				hv, ok := hashes[hname]
				if !ok {
					hv = drv.RandBelow(rng, bigR)
					if rng.Intn(8) == 0 {
						hv = new(big.Int).Sub(bigR, one)
					}
					hashes[hname] = hv
				}
				var off int
				fmt.Sscanf(s[i+len("#chunk@"):], "%d", &off)
				v = ref.BnToVec(hv)[off/56]
			} else {
				v = drv.RandBelow(rng, bigP)
				switch rng.Intn(10) {
				case 0:
					v = glEdge()[rng.Intn(7)]
				case 1: // non-canonical: the challenger reduces what it absorbs
					v = new(big.Int).Add(v, bigP)
				}
			}
			vals[s] = v
			return v
		}
		// witness leaves: one per plain symbol, one per hash
		type slot struct {
			sym  string
			hash bool
		}
		var slots []slot
		seen := map[string]bool{}
		for _, op := range h.Hist {
			if op.Op == "bnhash" {
				if !seen[op.Label] {
					seen[op.Label] = true
					slots = append(slots, slot{op.Label, true})
				}
				for _, s := range op.Syms {
					val(s)
				}
				continue
			}
			for _, s := range op.Syms {
				if !seen[s] {
					seen[s] = true
					slots = append(slots, slot{s, false})
					val(s)
				}
			}
		}
		in := make([]*big.Int, len(slots))
		pos := map[string]int{}
		for i, s := range slots {
			pos[s.sym] = i
			if s.hash {
				in[i] = hashes[s.sym]
			} else {
				in[i] = vals[s.sym]
			}
		}
		var got []*big.Int
		cfg := &engine.Config{Mode: engine.Native}
		err := hc.Run(cfg, in, func(api frontend.API, iv []frontend.Variable) error {
			ch := challenger.NewChip(api)
			v := func(s string) gl.Variable { return gl.NewVariable(iv[pos[s]]) }
			for _, op := range h.Hist {
				switch op.Op {
				case "element":
					ch.ObserveElement(v(op.Syms[0]))
				case "ext":
					ch.ObserveExtensionElement(gl.QuadraticExtensionVariable{v(op.Syms[0]), v(op.Syms[1])})
				case "elements":
					es := make([]gl.Variable, len(op.Syms))
					for i := range es {
						es[i] = v(op.Syms[i])
					}
					ch.ObserveElements(es)
					if len(es) == 0 { // the other list observers on an empty list
						ch.ObserveCap(nil)
						ch.ObserveExtensionElements(nil)
					}
				case "extelements":
					es := make([]gl.QuadraticExtensionVariable, len(op.Syms)/2)
					for i := range es {
						es[i] = gl.QuadraticExtensionVariable{v(op.Syms[2*i]), v(op.Syms[2*i+1])}
					}
					ch.ObserveExtensionElements(es)
				case "hash":
					ch.ObserveHash(poseidon.GoldilocksHashOut{v(op.Syms[0]), v(op.Syms[1]), v(op.Syms[2]), v(op.Syms[3])})
				case "bnhash":
					ch.ObserveBN254Hash(iv[pos[op.Label]])
				case "challenges":
					var cs []gl.Variable
					if len(op.Outs) == 1 {
						cs = []gl.Variable{ch.GetChallenge()}
					} else {
						cs = ch.GetNChallenges(uint64(len(op.Outs)))
					}
					for _, c := range cs {
						got = append(got, new(big.Int).Set(engine.ToBig(c.Limb)))
					}
				case "extchallenge":
					e := ch.GetExtensionChallenge()
					got = append(got, new(big.Int).Set(engine.ToBig(e[0].Limb)), new(big.Int).Set(engine.ToBig(e[1].Limb)))
				case "gethash":
					hh := ch.GetHash()
					for _, c := range hh {
						got = append(got, new(big.Int).Set(engine.ToBig(c.Limb)))
					}
				default:
					return fmt.Errorf("unknown op %s", op.Op)
				}
			}
			return nil
		})
		hb, _ := json.Marshal(h.Hist)
		resp.Count(fmt.Sprintf("hist/%x/%d", hb, len(vals)), false)
		if err != nil {
			resp.Violate("c11/history/rejected", fmt.Sprintf("history %d rejected: %s", hi, firstLine(err)), map[string]any{"history": hi})
			continue
		}
		sv := evalStates(o, h, val)
		k := 0
		bad := false
		for oi, op := range h.Hist {
			for _, e := range op.Outs {
				want := sv[e.St][e.I-1]
				if k >= len(got) || got[k].Cmp(want) != 0 {
					if !bad {
						resp.Violate("c11/history/wrong op="+op.Op, fmt.Sprintf("history %d (%d ops): output %d of op %d (%s) = %v, the reference challenger gives %v", hi, len(h.Hist), k, oi, op.Op, got[k], want),
							map[string]any{"history": h.Hist})
					}
					bad = true
				}
				k++
			}
		}
		if len(resp.Samples) < 2 {
			ops := []string{}
			for _, op := range h.Hist {
				ops = append(ops, fmt.Sprintf("%s/%d/%d", op.Op, len(op.Syms), len(op.Outs)))
			}
			resp.Sample(map[string]any{"history_ops": ops, "challenges": len(got)})
		}
	}
	return nil
}

// ---- the verifier's transcript ---------------------------------------------------------------------------

func leafValues(l *data.Loaded, o *ref.Oracle) (map[string]*big.Int, []data.Leaf) {
	m := map[string]*big.Int{}
	var leaves []data.Leaf
	for _, lf := range data.Walk(&l.PWPI) {
		lf.Path = "PWPI." + lf.Path
		m[lf.Path] = lf.Get()
		leaves = append(leaves, lf)
	}
	for _, lf := range data.Walk(&l.VD) {
		lf.Path = "VD." + lf.Path
		m[lf.Path] = lf.Get()
		leaves = append(leaves, lf)
	}
	return m, leaves
}

func symValue(m map[string]*big.Int, pih []*big.Int, s string) *big.Int {
	if i := strings.Index(s, "#chunk@"); i >= 0 {
		var off int
		fmt.Sscanf(s[i+len("#chunk@"):], "%d", &off)
		h, ok := m[s[:i]]
		if !ok {
			panic("no leaf " + s[:i])
		}
		return ref.BnToVec(h)[off/56]
	}
	if strings.HasPrefix(s, "PIHASH[") {
		var j int
		fmt.Sscanf(s, "PIHASH[%d]", &j)
		return pih[j]
	}
	v, ok := m[s]
	if !ok {
		panic("no leaf " + s)
	}
	return v
}

type challengeSet struct {
	names []string
	vals  []*big.Int
	// the same verifier chip asked for the challenges of the same proof a second time: first name whose value differs ("" = none)
	repeatDiff string
}

// realChallenges runs the repository's GetChallenges on the proxy engine.
func realChallenges(l *data.Loaded) (*challengeSet, error) {
	cs := &challengeSet{}
	leaves := []*big.Int{}
	for _, lf := range data.Walk(&l.PWPI) {
		leaves = append(leaves, lf.Get())
	}
	_ = leaves
	cfg := &engine.Config{Mode: engine.Native}
	c := &gcCircuit{PWPI: l.PWPI, VD: l.VD, L: l, Cfg: cfg, Out: cs}
	err := hc.Solve(c, c)
	return cs, err
}

type gcCircuit struct {
	PWPI variables.ProofWithPublicInputs
	VD   variables.VerifierOnlyCircuitData
	L    *data.Loaded   `gnark:"-"`
	Cfg  *engine.Config `gnark:"-"`
	Out  *challengeSet  `gnark:"-"`
}

func (c *gcCircuit) Define(api frontend.API) error {
	p := engine.Wrap(api, c.Cfg)
	vc := verifier.NewVerifierChip(p, c.L.Common)
	pih := vc.GetPublicInputsHash(c.PWPI.PublicInputs)
	ch := vc.GetChallenges(c.PWPI.Proof, pih, c.VD)
	// a transcript starts from the empty sponge: a second transcript on the same chip (two proofs in one circuit) gives the same values
	ch2 := vc.GetChallenges(c.PWPI.Proof, pih, c.VD)
	same := func(name string, a, b gl.Variable) {
		if c.Out.repeatDiff == "" && engine.ToBig(a.Limb).Cmp(engine.ToBig(b.Limb)) != 0 {
			c.Out.repeatDiff = fmt.Sprintf("%s: %v the first time, %v the second", name, engine.ToBig(a.Limb), engine.ToBig(b.Limb))
		}
	}
	for i := range ch.PlonkBetas {
		same(fmt.Sprintf("betas[%d]", i), ch.PlonkBetas[i], ch2.PlonkBetas[i])
	}
	same("zeta[0]", ch.PlonkZeta[0], ch2.PlonkZeta[0])
	same("fri_alpha[0]", ch.FriChallenges.FriAlpha[0], ch2.FriChallenges.FriAlpha[0])
	same("pow_response", ch.FriChallenges.FriPowResponse, ch2.FriChallenges.FriPowResponse)
	for i := range ch.FriChallenges.FriQueryIndices {
		same(fmt.Sprintf("query_indices[%d]", i), ch.FriChallenges.FriQueryIndices[i], ch2.FriChallenges.FriQueryIndices[i])
	}
	add := func(name string, v gl.Variable) {
		c.Out.names = append(c.Out.names, name)
		c.Out.vals = append(c.Out.vals, new(big.Int).Set(engine.ToBig(v.Limb)))
	}
	for i, v := range ch.PlonkBetas {
		add(fmt.Sprintf("betas[%d]", i), v)
	}
	for i, v := range ch.PlonkGammas {
		add(fmt.Sprintf("gammas[%d]", i), v)
	}
	for i, v := range ch.PlonkAlphas {
		add(fmt.Sprintf("alphas[%d]", i), v)
	}
	add("zeta[0]", ch.PlonkZeta[0])
	add("zeta[1]", ch.PlonkZeta[1])
	add("fri_alpha[0]", ch.FriChallenges.FriAlpha[0])
	add("fri_alpha[1]", ch.FriChallenges.FriAlpha[1])
	for i, b := range ch.FriChallenges.FriBetas {
		add(fmt.Sprintf("fri_beta[%d][0]", i), b[0])
		add(fmt.Sprintf("fri_beta[%d][1]", i), b[1])
	}
	add("pow_response[0]", ch.FriChallenges.FriPowResponse)
	for i, v := range ch.FriChallenges.FriQueryIndices {
		add(fmt.Sprintf("query_indices[%d]", i), v)
	}
	return nil
}

// expectedChallenges evaluates the Transcript.tla history with the leaf values.
func expectedChallenges(o *ref.Oracle, h chHistory, m map[string]*big.Int, pih []*big.Int) *challengeSet {
	sv := evalStates(o, h, func(s string) *big.Int { return symValue(m, pih, s) })
	cs := &challengeSet{}
	for _, op := range h.Hist {
		for j, e := range op.Outs {
			cs.names = append(cs.names, fmt.Sprintf("%s[%d]", op.Label, j))
			cs.vals = append(cs.vals, sv[e.St][e.I-1])
		}
	}
	return cs
}

// normalise challenge names of the model (label[j]) to those of realChallenges
func normName(s string) string {
	// fri_beta[s][j] in the model is label "fri_beta[s]" + "[j]"
	return s
}

func c11Transcript(req c11Req, o *ref.Oracle, resp *drv.Response, rng *rand.Rand) error {
	hs, err := readHistories(req.Histories)
	if err != nil {
		return err
	}
	if len(hs) != 1 {
		return fmt.Errorf("expected exactly one scripted history, got %d", len(hs))
	}
	h := hs[0]
	inst := data.ByName(req.Instance)
	// position (number of squeezed elements before it) of every observed symbol
	symPos := map[string]int{}
	nsq := 0
	for _, op := range h.Hist {
		for _, s := range op.Syms {
			symPos[s] = nsq
		}
		nsq += len(op.Outs)
	}
	load := func() *data.Loaded {
		l := data.Load(inst, req.K)
		if req.FinalLen > 0 && req.FinalLen < len(l.PWPI.Proof.OpeningProof.FinalPoly.Coeffs) {
			// the transcript of a proof whose final polynomial leaves the sponge's input block partly filled when the proof-of-work
			// witness arrives (GetChallenges reads the list as it is; the script is generated for the same length)
			cs := l.PWPI.Proof.OpeningProof.FinalPoly.Coeffs
			l.PWPI.Proof.OpeningProof.FinalPoly.Coeffs = append(cs[:0:0], cs[:req.FinalLen]...)
		}
		return l
	}
	for _, variant := range req.Variants {
		l := load()
		base := variant
		if i := strings.Index(variant, "+npi"); i >= 0 {
			// a circuit with n public inputs (0, 1, 8, 9): their hash is the first thing the transcript absorbs after the digest; the
			// empty list hashes to the zero hash without any permutation
			var np int
			fmt.Sscanf(variant[i+4:], "%d", &np)
			pis := l.PWPI.PublicInputs[:0:0]
			for j := 0; j < np; j++ {
				pis = append(pis, gl.NewVariable(drv.RandBelow(rng, bigP)))
			}
			l.PWPI.PublicInputs = pis
			variant, base = variant[:i], variant[:i]
		}
		if i := strings.Index(variant, "+pow"); i >= 0 {
			// the transcript does not depend on the grinding difficulty: plonky2 always observes the witness and draws the response
			var pb uint64
			fmt.Sscanf(variant[i+4:], "%d", &pb)
			l.Common.Config.FriConfig.ProofOfWorkBits = pb
			l.Common.FriParams.Config.ProofOfWorkBits = pb
			base = variant[:i]
		}
		if base == "random" {
			for _, lf := range data.Walk(&l.PWPI) {
				if lf.GL {
					lf.Set(drv.RandBelow(rng, bigP))
				} else {
					lf.Set(drv.RandBelow(rng, bigR))
				}
			}
			for _, lf := range data.Walk(&l.VD) {
				lf.Set(drv.RandBelow(rng, bigR))
			}
		}
		m, _ := leafValues(l, o)
		pis := []*big.Int{}
		for _, v := range l.PWPI.PublicInputs {
			pis = append(pis, engine.ToBig(v.Limb))
		}
		pih := o.GlHashNoPad(pis)
		want := expectedChallenges(o, h, m, pih)
		got, err := realChallenges(l)
		resp.Count(fmt.Sprintf("transcript/%s/%d/%s/%v", req.Instance, req.K, variant, got.vals), false)
		if err != nil {
			resp.Violate("c11/transcript/rejected variant="+variant, firstLine(err), map[string]any{"instance": req.Instance, "variant": variant})
			continue
		}
		if len(got.vals) != len(want.vals) {
			resp.Violate("c11/transcript/count variant="+variant, fmt.Sprintf("%d challenges in the code, %d in Transcript.tla", len(got.vals), len(want.vals)), map[string]any{"instance": req.Instance})
			continue
		}
		for i := range want.vals {
			if got.vals[i].Cmp(want.vals[i]) != 0 {
				resp.Violate(fmt.Sprintf("c11/transcript/wrong variant=%s challenge=%s", variant, strings.Split(got.names[i], "[")[0]),
					fmt.Sprintf("%s k=%d: %s = %v in the code, %v by the reference transcript (%s)", req.Instance, req.K, got.names[i], got.vals[i], want.vals[i], want.names[i]),
					map[string]any{"instance": req.Instance, "variant": variant})
				break
			}
		}
		if got.repeatDiff != "" {
			resp.Violate("c11/transcript/second-differs variant="+variant, fmt.Sprintf("%s k=%d: the same verifier chip asked twice for the challenges of the same proof: %s", req.Instance, req.K, got.repeatDiff), map[string]any{"instance": req.Instance, "variant": variant})
		}
		resp.Sample(map[string]any{"instance": req.Instance, "variant": variant, "challenges": len(got.vals), "first": got.names[0] + "=" + got.vals[0].String()})
		if variant != "real" {
			continue
		}
		// binding: perturb observed leaves one at a time; every later challenge must change, every earlier one must not
		syms := []string{}
		for s := range symPos {
			if !strings.HasPrefix(s, "PIHASH") {
				syms = append(syms, s)
			}
		}
		sortStrings(syms)
		for t := 0; t < req.NPerturb; t++ {
			s := syms[rng.Intn(len(syms))]
			path := s
			if i := strings.Index(s, "#chunk@"); i >= 0 {
				path = s[:i]
			}
			l2 := load()
			found := false
			for _, lf := range append(walkPrefixed("PWPI.", &l2.PWPI), walkPrefixed("VD.", &l2.VD)...) {
				if lf.Path == path {
					nv := new(big.Int).Add(lf.Get(), one)
					if lf.GL {
						nv.Mod(nv, bigP)
					} else {
						nv.Mod(nv, bigR)
					}
					lf.Set(nv)
					found = true
				}
			}
			if !found {
				return fmt.Errorf("script symbol %s is not a leaf of the assignment", s)
			}
			g2, err := realChallenges(l2)
			if err != nil {
				continue // e.g. the perturbed value is refused earlier; not a transcript question
			}
			// for a hash leaf the first changed chunk is the low one (+1): position of chunk@0
			p := symPos[s]
			if strings.Contains(s, "#chunk@") {
				p = symPos[path+"#chunk@0"]
			}
			resp.Count(fmt.Sprintf("perturb/%s/%d/%s", req.Instance, req.K, path), false)
			for i := range got.vals {
				same := got.vals[i].Cmp(g2.vals[i]) == 0
				if i < p && !same {
					resp.Violate("c11/binding/early-change", fmt.Sprintf("%s: changing %s changes challenge %s drawn before it is observed", req.Instance, path, got.names[i]), map[string]any{"leaf": path})
					break
				}
				if i >= p && same {
					resp.Violate("c11/binding/unbound leafclass="+classOf(path), fmt.Sprintf("%s k=%d: changing %s leaves challenge %s unchanged", req.Instance, req.K, path, got.names[i]), map[string]any{"leaf": path, "instance": req.Instance})
					break
				}
			}
		}
	}
	return nil
}

func classOf(path string) string {
	out := []byte{}
	skip := false
	for i := 0; i < len(path); i++ {
		if path[i] == '[' {
			skip = true
			out = append(out, '[', ']')
			continue
		}
		if path[i] == ']' {
			skip = false
			continue
		}
		if !skip {
			out = append(out, path[i])
		}
	}
	return string(out)
}

func walkPrefixed(prefix string, root any) []data.Leaf {
	ls := data.Walk(root)
	for i := range ls {
		ls[i].Path = prefix + ls[i].Path
	}
	return ls
}

func sortStrings(xs []string) {
	for i := 1; i < len(xs); i++ {
		for j := i; j > 0 && xs[j] < xs[j-1]; j-- {
			xs[j], xs[j-1] = xs[j-1], xs[j]
		}
	}
}

// ---- hook trace of a whole honest verifier run -----------------------------------------------------------

func c11Trace(req c11Req, resp *drv.Response) error {
	inst := data.ByName(req.Instance)
	l := data.Load(inst, req.K)
	cfg := &engine.Config{Mode: engine.Native, RecordEvts: map[string]bool{"observe": true, "duplex": true, "challenge": true}}
	cfg.Leaves = data.LeafMap([]string{"PWPI", "VD"}, &l.PWPI, &l.VD)
	if err := hc.RunVerifier(cfg, l, l); err != nil {
		return fmt.Errorf("honest run rejected: %s", firstLine(err))
	}
	recs := challengerTrace(cfg)
	resp.Note("records", len(recs))
	resp.Count("trace/"+req.Instance, false)
	resp.Count("trace2/"+req.Instance, false)
	return writeNdjson(req.TraceFile, recs)
}

// challengerTrace folds each duplex event into the observe / challenge event it belongs to (dup = number of
// absorbed inputs, -1 = no duplexing) and names observed elements by leaf provenance.
func challengerTrace(cfg *engine.Config) []map[string]any {
	var recs []map[string]any
	evs := cfg.Events
	pendingDup := -1
	for i := 0; i < len(evs); i++ {
		e := evs[i]
		switch e.Kind {
		case "observe":
			sym := ""
			if p, ok := e.Args[0].(*big.Int); ok {
				sym = cfg.Leaves[p]
			}
			r := map[string]any{"ev": "observe", "sym": sym, "inlen": e.Args[1].(int), "dup": -1, "outlen": 0}
			// a duplexing that directly follows belongs to this ObserveElement only if the buffer just became full
			// (otherwise it is the duplexing of the next GetChallenge)
			if i+1 < len(evs) && evs[i+1].Kind == "duplex" && e.Args[1].(int) == poseidon.SPONGE_RATE {
				r["dup"] = evs[i+1].Args[0].(int)
				i++
			}
			recs = append(recs, r)
		case "duplex":
			pendingDup = e.Args[0].(int)
		case "challenge":
			recs = append(recs, map[string]any{"ev": "challenge", "sym": "", "inlen": 0, "dup": pendingDup, "outlen": e.Args[1].(int)})
			pendingDup = -1
		}
	}
	return recs
}
