package drivers

// Replay on gnark's real builders.  The proxy engine evaluates a circuit on concrete values; gnark's R1CS and SCS builders instead
// manipulate linear expressions and compile-time constants, and some defects exist only there (a builder that writes a result into the
// storage of an operand, host-side arithmetic on constant lanes).  solveOnBuilder compiles a body with the real builder - under the
// bit-decomposition range checker, which needs no minimum circuit size - with its outputs asserted equal to public values, and solves
// the compiled system with the honest hints for (inputs, expected outputs).

import (
	"fmt"
	"math/big"

	"github.com/consensys/gnark-crypto/ecc"
	"github.com/consensys/gnark/frontend"
	"github.com/consensys/gnark/frontend/cs/r1cs"
	"github.com/consensys/gnark/frontend/cs/scs"
)

type realBody struct {
	fn func(api frontend.API, in []frontend.Variable) []frontend.Variable
}

type realCircuit struct {
	In   []frontend.Variable
	Out  []frontend.Variable `gnark:",public"`
	Body *realBody           `gnark:"-"`
}

func (c *realCircuit) Define(api frontend.API) error {
	outs := c.Body.fn(api, c.In)
	if len(outs) != len(c.Out) {
		return fmt.Errorf("body returned %d outputs, %d expected", len(outs), len(c.Out))
	}
	for i := range outs {
		api.AssertIsEqual(outs[i], c.Out[i])
	}
	return nil
}

// solveOnBuilder returns ("", nil) when the compiled system is satisfied by (inputs, expected); ("compile", err) / ("solve", err) otherwise.
func solveOnBuilder(sys string, inputs, expected []*big.Int, fn func(api frontend.API, in []frontend.Variable) []frontend.Variable) (stage string, err error) {
	defer func() {
		if r := recover(); r != nil {
			stage, err = "panic", fmt.Errorf("%v", r)
		}
	}()
	setBitDecompEnv(true)
	defer setBitDecompEnv(false)
	mk := func(in, out []*big.Int) *realCircuit {
		c := &realCircuit{In: make([]frontend.Variable, len(in)), Out: make([]frontend.Variable, len(out)), Body: &realBody{fn}}
		for i := range in {
			c.In[i] = in[i]
		}
		for i := range out {
			c.Out[i] = out[i]
		}
		if len(c.In) == 0 {
			c.In = []frontend.Variable{big.NewInt(0)}
		}
		return c
	}
	zeros := func(n int) []*big.Int {
		z := make([]*big.Int, n)
		for i := range z {
			z[i] = big.NewInt(0)
		}
		return z
	}
	var builder frontend.NewBuilder = r1cs.NewBuilder
	if sys == "scs" {
		builder = scs.NewBuilder
	}
	ccs, err := frontend.Compile(ecc.BN254.ScalarField(), builder, mk(zeros(len(inputs)), zeros(len(expected))))
	if err != nil {
		return "compile", err
	}
	w, err := frontend.NewWitness(mk(inputs, expected), ecc.BN254.ScalarField())
	if err != nil {
		return "witness", err
	}
	if err := ccs.IsSolved(w, commitmentOverrides(ccs)...); err != nil {
		return "solve", err
	}
	return "", nil
}
