module verifharness

go 1.19

require (
	github.com/consensys/gnark v0.9.1
	github.com/consensys/gnark-crypto v0.12.2-0.20231013160410-1f65e75b6dfb
	github.com/gin-gonic/gin v1.9.1
	github.com/wormhole-foundation/example-near-light-client v0.0.0
)

require (
	github.com/bits-and-blooms/bitset v1.10.0 // indirect
	github.com/blang/semver/v4 v4.0.0 // indirect
	github.com/consensys/bavard v0.1.13 // indirect
	github.com/davecgh/go-spew v1.1.1 // indirect
	github.com/ethereum/go-ethereum v1.13.10 // indirect
	github.com/fxamacker/cbor/v2 v2.5.0 // indirect
	github.com/gabriel-vasile/mimetype v1.4.3 // indirect
	github.com/gin-contrib/sse v0.1.0 // indirect
	github.com/go-playground/locales v0.14.1 // indirect
	github.com/go-playground/universal-translator v0.18.1 // indirect
	github.com/go-playground/validator/v10 v10.17.0 // indirect
	github.com/google/pprof v0.0.0-20230817174616-7a8ec2ada47b // indirect
	github.com/holiman/uint256 v1.2.4 // indirect
	github.com/leodido/go-urn v1.3.0 // indirect
	github.com/mattn/go-colorable v0.1.13 // indirect
	github.com/mattn/go-isatty v0.0.20 // indirect
	github.com/mmcloughlin/addchain v0.4.0 // indirect
	github.com/pelletier/go-toml/v2 v2.1.1 // indirect
	github.com/pmezard/go-difflib v1.0.0 // indirect
	github.com/rs/zerolog v1.30.0 // indirect
	github.com/spf13/cobra v1.7.0 // indirect
	github.com/spf13/pflag v1.0.5 // indirect
	github.com/stretchr/testify v1.8.4 // indirect
	github.com/ugorji/go/codec v1.2.12 // indirect
	github.com/x448/float16 v0.8.4 // indirect
	golang.org/x/crypto v0.18.0 // indirect
	golang.org/x/exp v0.0.0-20231110203233-9a3e6036ecaa // indirect
	golang.org/x/net v0.20.0 // indirect
	golang.org/x/sync v0.5.0 // indirect
	golang.org/x/sys v0.16.0 // indirect
	golang.org/x/text v0.14.0 // indirect
	google.golang.org/protobuf v1.32.0 // indirect
	gopkg.in/yaml.v3 v3.0.1 // indirect
	rsc.io/tmplfunc v0.0.3 // indirect
)

replace github.com/wormhole-foundation/example-near-light-client => /repo/gnark-plonky2-verifier
