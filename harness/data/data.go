// Package data loads the valid proof instances available in the repository, restricts them to their first
// k query rounds, and enumerates / rewrites the leaves of the circuit assignment by reflection.
package data

import (
	"fmt"
	"math/big"
	"os"
	"reflect"
	"regexp"
	"strings"

	"github.com/consensys/gnark/frontend"
	"github.com/wormhole-foundation/example-near-light-client/types"
	"github.com/wormhole-foundation/example-near-light-client/variables"
)

func repoRoot() string {
	if r := os.Getenv("VERIF_REPO"); r != "" {
		return r
	}
	return "/repo"
}

// Instance is one valid (proof, verifier key, circuit description) triple on disk.
type Instance struct {
	Name    string
	Circuit string // "A" (16 public inputs) or "B" (97 public inputs)
	Proof   string
	Common  string
	VD      string
}

func Instances() []Instance {
	td := repoRoot() + "/gnark-plonky2-verifier/testdata/test_circuit"
	nb := repoRoot() + "/near_bft_finality/proofs/"
	mk := func(name, d string) Instance {
		return Instance{name, "B", nb + d + "/proof.json", nb + d + "/common_data.json", nb + d + "/verifier_data.json"}
	}
	return []Instance{
		{"testdata", "A", td + "/proof_with_public_inputs.json", td + "/common_circuit_data.json", td + "/verifier_only_circuit_data.json"},
		{"roottest", "A", repoRoot() + "/test.json", td + "/common_circuit_data.json", td + "/verifier_only_circuit_data.json"},
		mk("random", "random/CGZPhFRkL3NvmGaXWBc6N7qJD519EUe6vyNpaEyDe2Ev"),
		mk("epochCb", "epoch/CbAHBGJ8VQot2m6KhH9PLasMgcDtkPJBfp9bjAEMJ8UK"),
		mk("epoch4R", "epoch/4RjXBrNcu39wutFTuFpnRHgNqgHxLMcGBKNEQdtkSBhy"),
	}
}

func ByName(n string) Instance {
	for _, i := range Instances() {
		if i.Name == n {
			return i
		}
	}
	panic("unknown instance " + n)
}

// Loaded holds the deserialized pieces of an instance, restricted to K query rounds.
type Loaded struct {
	Inst   Instance
	K      int
	Common types.CommonCircuitData
	PWPI   variables.ProofWithPublicInputs
	VD     variables.VerifierOnlyCircuitData
	Raw    types.ProofWithPublicInputsRaw
}

var rawCache = map[string]types.ProofWithPublicInputsRaw{}

// Load reads the instance with the repository's own readers and restricts it to its first k query rounds
// (k <= 0: all rounds). Every leaf of the result is a fresh *big.Int, so that leaf identity can be tracked.
func Load(inst Instance, k int) *Loaded {
	raw, ok := rawCache[inst.Proof]
	if !ok {
		raw = types.ReadProofWithPublicInputs(inst.Proof)
		rawCache[inst.Proof] = raw
	}
	cd := types.ReadCommonCircuitData(inst.Common)
	n := len(raw.Proof.OpeningProof.QueryRoundProofs)
	if k <= 0 || k > n {
		k = n
	}
	r := raw
	r.Proof.OpeningProof.QueryRoundProofs = raw.Proof.OpeningProof.QueryRoundProofs[:k]
	cd.Config.FriConfig.NumQueryRounds = uint64(k)
	cd.FriParams.Config.NumQueryRounds = uint64(k)
	p, _ := variables.DeserializeProofWithPublicInputs(r)
	vd := variables.DeserializeVerifierOnlyCircuitData(types.ReadVerifierOnlyCircuitData(inst.VD))
	l := &Loaded{Inst: inst, K: k, Common: cd, PWPI: p, VD: vd, Raw: r}
	Freshen(&l.PWPI)
	Freshen(&l.VD)
	return l
}

// Leaf is one frontend.Variable position inside an assignment structure.
type Leaf struct {
	Path  string
	Class string // path with indices removed
	GL    bool   // Goldilocks-valued (a gl.Variable's Limb) as opposed to a BN254 hash
	v     reflect.Value
}

func (l Leaf) Get() *big.Int {
	x := l.v.Interface()
	switch t := x.(type) {
	case *big.Int:
		return t
	case uint64:
		return new(big.Int).SetUint64(t)
	case int:
		return big.NewInt(int64(t))
	case string:
		b, _ := new(big.Int).SetString(t, 10)
		return b
	}
	panic(fmt.Sprintf("leaf %s has type %T", l.Path, x))
}

func (l Leaf) Set(x *big.Int) { l.v.Set(reflect.ValueOf(x)) }

var idxRe = regexp.MustCompile(`\[\d+\]`)
var varType = reflect.TypeOf((*frontend.Variable)(nil)).Elem()

// Walk enumerates the leaves below root (a pointer to a struct / slice), in structure order.
func Walk(root any) []Leaf {
	var out []Leaf
	var rec func(v reflect.Value, path string, gl bool)
	rec = func(v reflect.Value, path string, gl bool) {
		switch v.Kind() {
		case reflect.Ptr:
			if !v.IsNil() {
				rec(v.Elem(), path, gl)
			}
		case reflect.Interface:
			if v.Type() == varType {
				out = append(out, Leaf{Path: path, Class: idxRe.ReplaceAllString(path, "[]"), GL: gl, v: v})
			}
		case reflect.Struct:
			for i := 0; i < v.NumField(); i++ {
				f := v.Type().Field(i)
				if tag, ok := f.Tag.Lookup("gnark"); ok && strings.HasPrefix(tag, "-") {
					continue
				}
				if !f.IsExported() {
					continue
				}
				name := f.Name
				if name == "Limb" {
					rec(v.Field(i), path, true)
				} else {
					sep := "."
					if path == "" {
						sep = ""
					}
					rec(v.Field(i), path+sep+name, false)
				}
			}
		case reflect.Slice, reflect.Array:
			for i := 0; i < v.Len(); i++ {
				rec(v.Index(i), fmt.Sprintf("%s[%d]", path, i), false)
			}
		}
	}
	rec(reflect.ValueOf(root), "", false)
	return out
}

// Freshen replaces every leaf below root by a fresh *big.Int of the same value.
func Freshen(root any) {
	for _, l := range Walk(root) {
		l.Set(new(big.Int).Set(l.Get()))
	}
}

// LeafMap returns identity -> path for the leaves below the given roots (after Freshen).
func LeafMap(prefixes []string, roots ...any) map[*big.Int]string {
	m := map[*big.Int]string{}
	for i, r := range roots {
		for _, l := range Walk(r) {
			p := l.Path
			if prefixes != nil && prefixes[i] != "" {
				p = prefixes[i] + "." + p
			}
			m[l.Get()] = p
		}
	}
	return m
}

var powSeq int

// LoadWithPowText loads the instance from a copy of its proof document in which the number after "pow_witness" was replaced textually:
// the value reaches the assignment through the repository's own readers (types.ReadProofWithPublicInputs, variables.Deserialize...).
func LoadWithPowText(inst Instance, k int, pow string, tmpdir string) (l *Loaded, err error) {
	defer func() {
		if r := recover(); r != nil {
			l, err = nil, fmt.Errorf("%v", r)
		}
	}()
	b, err := os.ReadFile(inst.Proof)
	if err != nil {
		return nil, err
	}
	re := regexp.MustCompile(`"pow_witness"\s*:\s*\d+`)
	if !re.Match(b) {
		return nil, fmt.Errorf("no pow_witness in %s", inst.Proof)
	}
	nb := re.ReplaceAll(b, []byte(`"pow_witness": `+pow))
	powSeq++
	path := fmt.Sprintf("%s/pow-%s-%s-%d-%d.json", tmpdir, inst.Name, pow, os.Getpid(), powSeq) // (several drivers share the directory)
	if err := os.WriteFile(path, nb, 0644); err != nil {
		return nil, err
	}
	defer os.Remove(path)
	i2 := inst
	i2.Proof = path
	l = Load(i2, k)
	delete(rawCache, path)
	return l, nil
}
