package proto

import (
	"fmt"
	"math/big"
	"reflect"
	"runtime"
	"strings"
	"testing"

	"github.com/consensys/gnark-crypto/ecc"
	"github.com/consensys/gnark/constraint/solver"
	"github.com/consensys/gnark/frontend"
	"github.com/consensys/gnark/test"
	gl "github.com/wormhole-foundation/example-near-light-client/goldilocks"
	"github.com/wormhole-foundation/example-near-light-client/poseidon"
)

type pxCompiler struct {
	frontend.Compiler
	px *px
}
type px struct {
	frontend.API
	nReduce  int
	target   int
	injected bool
}

func (p *px) Compiler() frontend.Compiler { return &pxCompiler{Compiler: p.API.Compiler(), px: p} }
func hintName(f solver.Hint) string {
	return runtime.FuncForPC(reflect.ValueOf(f).Pointer()).Name()
}
func (c *pxCompiler) NewHint(f solver.Hint, n int, in ...frontend.Variable) ([]frontend.Variable, error) {
	name := hintName(f)
	if strings.HasSuffix(name, "ReduceHint") {
		// find caller: is it sBoxMonomial?
		pcs := make([]uintptr, 8)
		m := runtime.Callers(2, pcs)
		fr := runtime.CallersFrames(pcs[:m])
		isSbox := false
		for {
			f, more := fr.Next()
			if strings.Contains(f.Function, "sBoxMonomial") {
				isSbox = true
			}
			if !more {
				break
			}
		}
		if isSbox {
			c.px.nReduce++
			if c.px.nReduce == c.px.target {
				c.px.injected = true
				alt := func(mod *big.Int, inputs []*big.Int, res []*big.Int) error {
					x := new(big.Int).Add(inputs[0], mod) // x + 1*r
					res[0] = new(big.Int).Div(x, gl.MODULUS)
					res[1] = new(big.Int).Rem(x, gl.MODULUS)
					return nil
				}
				return c.Compiler.NewHint(alt, n, in...)
			}
		}
	}
	return c.Compiler.NewHint(f, n, in...)
}

type posC struct {
	In     [12]frontend.Variable
	Out    [12]frontend.Variable
	target int
}

func (c *posC) Define(api frontend.API) error {
	p := &px{API: api, target: c.target}
	var st poseidon.GoldilocksState
	for i := range st {
		st[i] = gl.NewVariable(c.In[i])
	}
	ch := poseidon.NewGoldilocksChip(p)
	out := ch.Poseidon(st)
	diff := 0
	for i := range out {
		o := out[i].Limb.(*big.Int)
		e := c.Out[i].(*big.Int)
		if o.Cmp(e) != 0 {
			diff++
		}
	}
	fmt.Println("target", c.target, "injected", p.injected, "outputs differing from honest:", diff)
	return nil
}

func TestSboxWrap(t *testing.T) {
	var in, out [12]frontend.Variable
	outStr := []string{
		"4330397376401421145", "14124799381142128323", "8742572140681234676",
		"14345658006221440202", "15524073338516903644", "5091405722150716653",
		"15002163819607624508", "2047012902665707362", "16106391063450633726",
		"4680844749859802542", "15019775476387350140", "1698615465718385111",
	}
	for i := range in {
		in[i] = big.NewInt(0)
		o, _ := new(big.Int).SetString(outStr[i], 10)
		out[i] = o
	}
	for _, tg := range []int{0, 1, 5} {
		err := test.IsSolved(&posC{target: tg}, &posC{In: in, Out: out}, ecc.BN254.ScalarField())
		fmt.Println(" => constraints satisfied:", err == nil)
		if err != nil {
			fmt.Println(err.Error()[:200])
		}
	}
}
