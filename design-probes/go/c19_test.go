package proto

import (
	"fmt"
	"math/big"
	"testing"

	"github.com/consensys/gnark-crypto/ecc"
	"github.com/consensys/gnark/frontend"
	"github.com/consensys/gnark/test"
	"github.com/wormhole-foundation/example-near-light-client/variables"
)

type capC struct {
	Cap []frontend.Variable
	S   frontend.Variable
}

func (c *capC) Define(api frontend.API) error {
	s := frontend.Variable(0)
	for _, x := range c.Cap {
		s = api.Add(s, x)
	}
	api.AssertIsEqual(s, c.S)
	return nil
}

func try(name string, strs []string, sum int64) {
	defer func() {
		if r := recover(); r != nil {
			fmt.Println(name, "=> PANIC:", fmt.Sprint(r)[:80])
		}
	}()
	cp := variables.DeserializeMerkleCap(strs)
	for i, v := range cp {
		fmt.Printf("  %s[%d]=%v (%T)\n", name, i, v, v)
	}
	w := &capC{Cap: cp, S: big.NewInt(sum)}
	_, err := frontend.NewWitness(w, ecc.BN254.ScalarField())
	fmt.Println(name, "NewWitness err:", err)
	err = test.IsSolved(&capC{Cap: make([]frontend.Variable, len(cp))}, w, ecc.BN254.ScalarField())
	fmt.Println(name, "IsSolved err:", err != nil)
}

func TestC19(t *testing.T) {
	try("ok", []string{"5", "7"}, 12)
	try("hex", []string{"0x10", "7"}, 7)
	try("alpha", []string{"abc", "7"}, 7)
	try("neg", []string{"-5", "7"}, 2)
	try("plus", []string{"+5", "7"}, 12)
	try("space", []string{" 5", "7"}, 7)
	try("empty", []string{"", "7"}, 7)
	try("under", []string{"1_0", "7"}, 17)
	try("big", []string{"21888242871839275222246405745257275088548364400416034343698204186575808495622", "7"}, 12)
}
