package proto

import (
	"fmt"
	"testing"
	"time"

	"github.com/consensys/gnark-crypto/ecc"
	"github.com/consensys/gnark/frontend"
	"github.com/consensys/gnark/test"
	gl "github.com/wormhole-foundation/example-near-light-client/goldilocks"
	"github.com/wormhole-foundation/example-near-light-client/types"
	"github.com/wormhole-foundation/example-near-light-client/variables"
	"github.com/wormhole-foundation/example-near-light-client/verifier"
)

type nat2 struct {
	frontend.API
	n int
}

func (n *nat2) Check(v frontend.Variable, bits int) { n.n++ }

type wrapC struct {
	PublicInputs      []gl.Variable `gnark:",public"`
	Proof             variables.Proof
	VerifierData      variables.VerifierOnlyCircuitData
	CommonCircuitData types.CommonCircuitData `gnark:"-"`
}

func (c *wrapC) Define(api frontend.API) error {
	p := &nat2{API: api}
	vc := verifier.NewVerifierChip(p, c.CommonCircuitData)
	vc.Verify(c.Proof, c.PublicInputs, c.VerifierData)
	fmt.Println("native checks:", p.n)
	return nil
}

func TestNativeSpeed(t *testing.T) {
	dir := "/repo/gnark-plonky2-verifier/testdata/test_circuit"
	cd := types.ReadCommonCircuitData(dir + "/common_circuit_data.json")
	raw := types.ReadProofWithPublicInputs(dir + "/proof_with_public_inputs.json")
	vd := variables.DeserializeVerifierOnlyCircuitData(types.ReadVerifierOnlyCircuitData(dir + "/verifier_only_circuit_data.json"))
	for _, k := range []int{1, 28} {
		r := raw
		r.Proof.OpeningProof.QueryRoundProofs = raw.Proof.OpeningProof.QueryRoundProofs[:k]
		p, _ := variables.DeserializeProofWithPublicInputs(r)
		c := cd
		c.Config.FriConfig.NumQueryRounds = uint64(k)
		c.FriParams.Config.NumQueryRounds = uint64(k)
		circ := wrapC{Proof: p.Proof, PublicInputs: p.PublicInputs, VerifierData: vd, CommonCircuitData: c}
		w := wrapC{Proof: p.Proof, PublicInputs: p.PublicInputs, VerifierData: vd, CommonCircuitData: c}
		t0 := time.Now()
		err := test.IsSolved(&circ, &w, ecc.BN254.ScalarField())
		fmt.Println("native k=", k, "ok=", err == nil, time.Since(t0))
	}
}
