package proto

import (
	"fmt"
	"reflect"
	"sort"
	"strings"
	"testing"

	"github.com/consensys/gnark-crypto/ecc"
	"github.com/consensys/gnark/frontend"
	"github.com/consensys/gnark/test"
	gl "github.com/wormhole-foundation/example-near-light-client/goldilocks"
	"github.com/wormhole-foundation/example-near-light-client/types"
	"github.com/wormhole-foundation/example-near-light-client/variables"
	"github.com/wormhole-foundation/example-near-light-client/verifier"
)

// collect slice paths (first instance of each kind)
func slicePaths(v reflect.Value, path string, out map[string]bool) {
	switch v.Kind() {
	case reflect.Struct:
		for i := 0; i < v.NumField(); i++ {
			slicePaths(v.Field(i), path+"."+v.Type().Field(i).Name, out)
		}
	case reflect.Slice:
		out[path] = true
		if v.Len() > 0 {
			slicePaths(v.Index(0), path+"[0]", out)
		}
	case reflect.Array:
		// QE [2]Variable : not a list kind
	}
}

func getPath(v reflect.Value, path string) reflect.Value {
	parts := strings.Split(strings.TrimPrefix(path, "."), ".")
	for _, p := range parts {
		name := p
		idx := []int{}
		for strings.HasSuffix(name, "]") {
			i := strings.LastIndex(name, "[")
			var n int
			fmt.Sscanf(name[i:], "[%d]", &n)
			idx = append([]int{n}, idx...)
			name = name[:i]
		}
		v = v.FieldByName(name)
		for _, i := range idx {
			v = v.Index(i)
		}
	}
	return v
}

func zeroLike(e reflect.Value) reflect.Value {
	n := reflect.New(e.Type()).Elem()
	var fill func(x reflect.Value)
	fill = func(x reflect.Value) {
		switch x.Kind() {
		case reflect.Interface:
			x.Set(reflect.ValueOf(frontend.Variable(0)))
		case reflect.Struct:
			for i := 0; i < x.NumField(); i++ {
				fill(x.Field(i))
			}
		case reflect.Array:
			for i := 0; i < x.Len(); i++ {
				fill(x.Index(i))
			}
		case reflect.Slice:
			// copy shape of e
		}
	}
	fill(n)
	return n
}

func mutate(p *variables.ProofWithPublicInputs, path, kind string) bool {
	s := getPath(reflect.ValueOf(p).Elem(), path)
	if s.Len() == 0 {
		return false
	}
	switch kind {
	case "droplast":
		s.Set(s.Slice(0, s.Len()-1))
	case "dropfirst":
		s.Set(s.Slice(1, s.Len()))
	case "duplast":
		s.Set(reflect.Append(s, s.Index(s.Len()-1)))
	case "appendzero":
		e := s.Index(s.Len() - 1)
		if e.Kind() == reflect.Interface || e.Kind() == reflect.Array || (e.Kind() == reflect.Struct && e.Type() == reflect.TypeOf(gl.Variable{})) {
			s.Set(reflect.Append(s, zeroLike(e)))
		} else {
			return false
		}
	case "empty":
		s.Set(s.Slice(0, 0))
	}
	return true
}

type wrapN struct {
	PublicInputs      []gl.Variable `gnark:",public"`
	Proof             variables.Proof
	VerifierData      variables.VerifierOnlyCircuitData
	CommonCircuitData types.CommonCircuitData `gnark:"-"`
}

func (c *wrapN) Define(api frontend.API) error {
	vc := verifier.NewVerifierChip(&nat2{API: api}, c.CommonCircuitData)
	vc.Verify(c.Proof, c.PublicInputs, c.VerifierData)
	return nil
}

func TestC20(t *testing.T) {
	dir := "/repo/gnark-plonky2-verifier/testdata/test_circuit"
	cd := types.ReadCommonCircuitData(dir + "/common_circuit_data.json")
	raw := types.ReadProofWithPublicInputs(dir + "/proof_with_public_inputs.json")
	vdraw := types.ReadVerifierOnlyCircuitData(dir + "/verifier_only_circuit_data.json")
	k := 2
	raw.Proof.OpeningProof.QueryRoundProofs = raw.Proof.OpeningProof.QueryRoundProofs[:k]
	cd.Config.FriConfig.NumQueryRounds = uint64(k)
	cd.FriParams.Config.NumQueryRounds = uint64(k)
	p0, _ := variables.DeserializeProofWithPublicInputs(raw)
	paths := map[string]bool{}
	slicePaths(reflect.ValueOf(&p0).Elem(), "", paths)
	var ps []string
	for p := range paths {
		ps = append(ps, p)
	}
	sort.Strings(ps)
	for _, path := range ps {
		for _, kind := range []string{"droplast", "dropfirst", "duplast", "appendzero", "empty"} {
			mk := func() *wrapN {
				p, _ := variables.DeserializeProofWithPublicInputs(raw)
				if !mutate(&p, path, kind) {
					return nil
				}
				return &wrapN{Proof: p.Proof, PublicInputs: p.PublicInputs, VerifierData: variables.DeserializeVerifierOnlyCircuitData(vdraw), CommonCircuitData: cd}
			}
			c, w := mk(), mk()
			if c == nil {
				continue
			}
			res := func() (s string) {
				defer func() {
					if r := recover(); r != nil {
						s = "PANIC-outer " + fmt.Sprint(r)
					}
				}()
				err := test.IsSolved(c, w, ecc.BN254.ScalarField())
				if err == nil {
					return "ACCEPTED !!!"
				}
				return "err: " + err.Error()
			}()
			if len(res) > 90 {
				res = res[:90]
			}
			res = strings.ReplaceAll(res, "\n", " ")
			fmt.Printf("%-75s %-10s %s\n", path, kind, res)
		}
	}
}
