package proto

import (
	"fmt"
	"math/big"
	"os"
	"testing"

	"github.com/consensys/gnark-crypto/ecc"
	"github.com/consensys/gnark/frontend"
	"github.com/consensys/gnark/test"
	gl "github.com/wormhole-foundation/example-near-light-client/goldilocks"
	"github.com/wormhole-foundation/example-near-light-client/types"
	"github.com/wormhole-foundation/example-near-light-client/variables"
	"github.com/wormhole-foundation/example-near-light-client/verifier"
)

func pack(pis []*big.Int) [4]frontend.Variable {
	var out [4]frontend.Variable
	for j := 0; j < 4; j++ {
		acc := big.NewInt(0)
		for i := 0; i < 4; i++ {
			acc.Lsh(acc, 32)
			acc.Add(acc, pis[j*4+i])
		}
		acc.Mod(acc, ecc.BN254.ScalarField())
		out[j] = acc
	}
	return out
}

func TestC03C04(t *testing.T) {
	os.Setenv("USE_BIT_DECOMPOSITION_RANGE_CHECK", "true")
	dir := "/repo/gnark-plonky2-verifier/testdata/test_circuit"
	cd := types.ReadCommonCircuitData(dir + "/common_circuit_data.json")
	raw := types.ReadProofWithPublicInputs(dir + "/proof_with_public_inputs.json")
	vdraw := types.ReadVerifierOnlyCircuitData(dir + "/verifier_only_circuit_data.json")
	k := 1
	raw.Proof.OpeningProof.QueryRoundProofs = raw.Proof.OpeningProof.QueryRoundProofs[:k]
	cd.Config.FriConfig.NumQueryRounds = uint64(k)
	cd.FriParams.Config.NumQueryRounds = uint64(k)
	mk := func(limbDelta map[int]*big.Int, vdr types.VerifierOnlyCircuitDataRaw) *verifier.CircuitFixed {
		p, pis := variables.DeserializeProofWithPublicInputs(raw)
		b := make([]*big.Int, 16)
		for i := range b {
			b[i] = new(big.Int).SetUint64(pis[i])
			if d, ok := limbDelta[i]; ok {
				b[i].Add(b[i], d)
				p.PublicInputs[i] = gl.NewVariable(new(big.Int).Set(b[i]))
			}
		}
		return &verifier.CircuitFixed{ProofWithPis: p, VerifierData: variables.DeserializeVerifierOnlyCircuitData(vdr), PublicInputs: pack(b), CommonCircuitData: cd}
	}
	run := func(name string, tmpl, w *verifier.CircuitFixed) {
		err := test.IsSolved(tmpl, w, ecc.BN254.ScalarField())
		s := ""
		if err != nil {
			s = err.Error()
			if len(s) > 160 {
				s = s[:160]
			}
		}
		fmt.Println(name, "accepted=", err == nil, s)
	}
	honest := mk(nil, vdraw)
	run("honest", mk(nil, vdraw), honest)
	w := mk(map[int]*big.Int{3: gl.MODULUS}, vdraw)
	fmt.Println("  packed[0] honest:", honest.PublicInputs[0], " alt:", w.PublicInputs[0])
	run("limb3+p", mk(nil, vdraw), w)
	// C04: alter each cap entry in turn; see which are accepted
	for j := 0; j < 16; j++ {
		v2 := vdraw
		v2.ConstantsSigmasCap = append([]string{}, vdraw.ConstantsSigmasCap...)
		v2.ConstantsSigmasCap[j] = "12345"
		run(fmt.Sprintf("vd cap[%d] altered", j), mk(nil, vdraw), mk(nil, v2))
	}
}
