package proto

import (
	"fmt"
	"math/big"
	"testing"

	"github.com/wormhole-foundation/example-near-light-client/poseidon"
)

var pGL, _ = new(big.Int).SetString("18446744069414584321", 10)

func naivePerm(st [12]*big.Int) [12]*big.Int {
	sbox := func(x *big.Int) *big.Int { return new(big.Int).Exp(x, big.NewInt(7), pGL) }
	mds := func(v [12]*big.Int) [12]*big.Int {
		var out [12]*big.Int
		for r := 0; r < 12; r++ {
			acc := new(big.Int)
			for i := 0; i < 12; i++ {
				acc.Add(acc, new(big.Int).Mul(v[(i+r)%12], new(big.Int).SetUint64(poseidon.MDS_MATRIX_CIRC[i].(uint64))))
			}
			acc.Add(acc, new(big.Int).Mul(v[r], new(big.Int).SetUint64(poseidon.MDS_MATRIX_DIAG[r].(uint64))))
			out[r] = acc.Mod(acc, pGL)
		}
		return out
	}
	for round := 0; round < 30; round++ {
		for i := 0; i < 12; i++ {
			st[i] = new(big.Int).Add(st[i], new(big.Int).SetUint64(poseidon.ALL_ROUND_CONSTANTS[i+12*round].(uint64)))
			st[i].Mod(st[i], pGL)
		}
		if round < 4 || round >= 26 {
			for i := 0; i < 12; i++ {
				st[i] = sbox(st[i])
			}
		} else {
			st[0] = sbox(st[0])
		}
		st = mds(st)
	}
	return st
}

func TestNaive(t *testing.T) {
	var st [12]*big.Int
	for i := range st {
		st[i] = big.NewInt(0)
	}
	out := naivePerm(st)
	fmt.Println("zero vector:", out[0], out[11], "expected 4330397376401421145 1698615465718385111")
	// hash_no_pad([0,1,3736710860384812976]) -> 8416658900775745054 ...
	for i := range st {
		st[i] = big.NewInt(0)
	}
	st[1] = big.NewInt(1)
	st[2], _ = new(big.Int).SetString("3736710860384812976", 10)
	out = naivePerm(st)
	fmt.Println("pi hash:", out[0], out[3], "expected 8416658900775745054 3119289788404190010")
}
