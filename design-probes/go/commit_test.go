package proto

import (
	"fmt"
	"testing"
	"time"

	"github.com/consensys/gnark-crypto/ecc"
	"github.com/consensys/gnark/constraint/solver"
	"github.com/consensys/gnark/frontend"
	"github.com/consensys/gnark/test"
	"github.com/wormhole-foundation/example-near-light-client/types"
	"github.com/wormhole-foundation/example-near-light-client/variables"
	"github.com/wormhole-foundation/example-near-light-client/verifier"
)

type kv interface {
	SetKeyValue(key, value any)
	GetKeyValue(key any) any
}
type cmCompiler struct {
	frontend.Compiler
	a     *cmAPI
	hints map[string]int
}

func (c *cmCompiler) SetKeyValue(k, v any)  { c.Compiler.(kv).SetKeyValue(k, v) }
func (c *cmCompiler) GetKeyValue(k any) any { return c.Compiler.(kv).GetKeyValue(k) }
func (c *cmCompiler) NewHint(f solver.Hint, n int, in ...frontend.Variable) ([]frontend.Variable, error) {
	c.hints[hintName(f)]++
	return c.Compiler.NewHint(f, n, in...)
}
func (c *cmCompiler) Defer(cb func(frontend.API) error) {
	c.a.deferred++
	c.Compiler.Defer(func(_ frontend.API) error { return cb(c.a) })
}

type cmAPI struct {
	frontend.API
	cc       *cmCompiler
	commits  int
	deferred int
}

func (a *cmAPI) Compiler() frontend.Compiler { return a.cc }
func (a *cmAPI) Commit(v ...frontend.Variable) (frontend.Variable, error) {
	a.commits++
	return a.API.(frontend.Committer).Commit(v...)
}

type wrapCm struct{ wrapN }

func (c *wrapCm) Define(api frontend.API) error {
	a := &cmAPI{API: api}
	a.cc = &cmCompiler{Compiler: api.Compiler(), a: a, hints: map[string]int{}}
	vc := verifier.NewVerifierChip(a, c.CommonCircuitData)
	vc.Verify(c.Proof, c.PublicInputs, c.VerifierData)
	api.Compiler().Defer(func(frontend.API) error {
		fmt.Println("commit-mode proxy: commits", a.commits, "deferred", a.deferred, "hints", a.cc.hints)
		return nil
	})
	return nil
}

func TestCommitProxy(t *testing.T) {
	dir := "/repo/gnark-plonky2-verifier/testdata/test_circuit"
	cd := types.ReadCommonCircuitData(dir + "/common_circuit_data.json")
	raw := types.ReadProofWithPublicInputs(dir + "/proof_with_public_inputs.json")
	vd := variables.DeserializeVerifierOnlyCircuitData(types.ReadVerifierOnlyCircuitData(dir + "/verifier_only_circuit_data.json"))
	k := 1
	raw.Proof.OpeningProof.QueryRoundProofs = raw.Proof.OpeningProof.QueryRoundProofs[:k]
	p, _ := variables.DeserializeProofWithPublicInputs(raw)
	cd.Config.FriConfig.NumQueryRounds = uint64(k)
	cd.FriParams.Config.NumQueryRounds = uint64(k)
	mk := func() *wrapCm {
		return &wrapCm{wrapN{Proof: p.Proof, PublicInputs: p.PublicInputs, VerifierData: vd, CommonCircuitData: cd}}
	}
	t0 := time.Now()
	err := test.IsSolved(mk(), mk(), ecc.BN254.ScalarField())
	fmt.Println("accepted:", err == nil, time.Since(t0))
	if err != nil {
		fmt.Println(err.Error())
	}
}

func (a *cmAPI) SetKeyValue(k, v any)  { a.API.(kv).SetKeyValue(k, v) }
func (a *cmAPI) GetKeyValue(k any) any { return a.API.(kv).GetKeyValue(k) }

func (c *cmCompiler) Commit(v ...frontend.Variable) (frontend.Variable, error) {
	c.a.commits++
	return c.Compiler.(frontend.Committer).Commit(v...)
}
