package proto

import (
	"fmt"
	"os"
	"testing"
	"time"

	"github.com/consensys/gnark-crypto/ecc"
	"github.com/consensys/gnark/test"
	"github.com/wormhole-foundation/example-near-light-client/types"
	"github.com/wormhole-foundation/example-near-light-client/variables"
	"github.com/wormhole-foundation/example-near-light-client/verifier"
)

func runSet(name, proof, common, vdp string, k int) {
	defer func() {
		if r := recover(); r != nil {
			fmt.Println(name, "PANIC", r)
		}
	}()
	cd := types.ReadCommonCircuitData(common)
	raw := types.ReadProofWithPublicInputs(proof)
	vd := variables.DeserializeVerifierOnlyCircuitData(types.ReadVerifierOnlyCircuitData(vdp))
	raw.Proof.OpeningProof.QueryRoundProofs = raw.Proof.OpeningProof.QueryRoundProofs[:k]
	p, _ := variables.DeserializeProofWithPublicInputs(raw)
	cd.Config.FriConfig.NumQueryRounds = uint64(k)
	cd.FriParams.Config.NumQueryRounds = uint64(k)
	circ := verifier.VerifierCircuit{Proof: p.Proof, PublicInputs: p.PublicInputs, VerifierData: vd, CommonCircuitData: cd}
	w := verifier.VerifierCircuit{Proof: p.Proof, PublicInputs: p.PublicInputs, VerifierData: vd, CommonCircuitData: cd}
	t0 := time.Now()
	err := test.IsSolved(&circ, &w, ecc.BN254.ScalarField())
	s := ""
	if err != nil {
		s = err.Error()
		if len(s) > 200 {
			s = s[:200]
		}
	}
	fmt.Println(name, "k=", k, "accepted=", err == nil, time.Since(t0), s)
}

func TestSets(t *testing.T) {
	os.Setenv("USE_BIT_DECOMPOSITION_RANGE_CHECK", "true")
	td := "/repo/gnark-plonky2-verifier/testdata/test_circuit"
	nb := "/repo/near_bft_finality/proofs/"
	runSet("testdata", td+"/proof_with_public_inputs.json", td+"/common_circuit_data.json", td+"/verifier_only_circuit_data.json", 2)
	runSet("root-test.json+testdataVD", "/repo/test.json", td+"/common_circuit_data.json", td+"/verifier_only_circuit_data.json", 2)
	for _, d := range []string{"random/CGZPhFRkL3NvmGaXWBc6N7qJD519EUe6vyNpaEyDe2Ev", "epoch/CbAHBGJ8VQot2m6KhH9PLasMgcDtkPJBfp9bjAEMJ8UK", "epoch/4RjXBrNcu39wutFTuFpnRHgNqgHxLMcGBKNEQdtkSBhy"} {
		runSet(d[:12], nb+d+"/proof.json", nb+d+"/common_data.json", nb+d+"/verifier_data.json", 2)
	}
	runSet("root-test.json+BVD", "/repo/test.json", nb+"random/CGZPhFRkL3NvmGaXWBc6N7qJD519EUe6vyNpaEyDe2Ev/common_data.json", nb+"random/CGZPhFRkL3NvmGaXWBc6N7qJD519EUe6vyNpaEyDe2Ev/verifier_data.json", 2)
}
