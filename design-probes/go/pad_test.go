package proto

import (
	"fmt"
	"math/big"
	"os"
	"testing"
	"time"

	"github.com/consensys/gnark-crypto/ecc"
	"github.com/consensys/gnark/frontend"
	"github.com/consensys/gnark/frontend/cs/r1cs"
	"github.com/consensys/gnark/frontend/cs/scs"
	gl "github.com/wormhole-foundation/example-near-light-client/goldilocks"
)

type padC struct {
	X   frontend.Variable
	Pad []frontend.Variable
	n   int
}

func (c *padC) Define(api frontend.API) error {
	g := gl.New(api)
	g.RangeCheck(gl.NewVariable(c.X))
	for _, p := range c.Pad {
		g.RangeCheckWithMaxBits(gl.NewVariable(p), 32)
	}
	return nil
}

func TestPad(t *testing.T) {
	os.Unsetenv("USE_BIT_DECOMPOSITION_RANGE_CHECK")
	for _, sys := range []string{"r1cs", "scs"} {
		for _, n := range []int{1000, 70000} {
			func() {
				defer func() {
					if r := recover(); r != nil {
						fmt.Println(sys, n, "PANIC:", fmt.Sprint(r)[:60])
					}
				}()
				c := &padC{Pad: make([]frontend.Variable, n)}
				t0 := time.Now()
				var b frontend.NewBuilder = r1cs.NewBuilder
				if sys == "scs" {
					b = scs.NewBuilder
				}
				ccs, err := frontend.Compile(ecc.BN254.ScalarField(), b, c)
				if err != nil {
					fmt.Println(sys, n, "compile err", err)
					return
				}
				fmt.Println(sys, n, "compiled", ccs.GetNbConstraints(), time.Since(t0))
				for _, x := range []*big.Int{big.NewInt(5), new(big.Int).Sub(gl.MODULUS, big.NewInt(1)), gl.MODULUS} {
					w := &padC{X: x, Pad: make([]frontend.Variable, n)}
					for i := range w.Pad {
						w.Pad[i] = i
					}
					wit, _ := frontend.NewWitness(w, ecc.BN254.ScalarField())
					t1 := time.Now()
					_, err := ccs.Solve(wit)
					s := ""
					if err != nil {
						s = err.Error()
						if len(s) > 70 {
							s = s[:70]
						}
					}
					fmt.Println("   x=", x, "solved:", err == nil, time.Since(t1), s)
				}
			}()
		}
	}
}
