package proto

import (
	"fmt"
	"math/big"
	"os"
	"testing"
	"time"

	"github.com/consensys/gnark-crypto/ecc"
	"github.com/consensys/gnark/backend"
	"github.com/consensys/gnark/backend/groth16"
	"github.com/consensys/gnark/constraint/solver"
	"github.com/consensys/gnark/frontend"
	"github.com/consensys/gnark/frontend/cs/r1cs"
	"github.com/consensys/gnark/test"
	gl "github.com/wormhole-foundation/example-near-light-client/goldilocks"
	"github.com/wormhole-foundation/example-near-light-client/poseidon"
)

// capture: run on engine with injection at sbox site #1, capture x at that site and the alt outputs
type capQ struct {
	In  [12]frontend.Variable
	out *[12]*big.Int
	x   **big.Int
}

type capCompiler struct {
	frontend.Compiler
	c   *capQ
	n   int
}
type capAPI struct {
	frontend.API
	cc *capCompiler
}

func (a *capAPI) Compiler() frontend.Compiler { return a.cc }
func (c *capCompiler) NewHint(f solver.Hint, n int, in ...frontend.Variable) ([]frontend.Variable, error) {
	if hintName(f) == "github.com/wormhole-foundation/example-near-light-client/goldilocks.ReduceHint" {
		c.n++
		if c.n == 1 { // first reduce in Poseidon = first sbox x^3 (after constant layer adds via MulAdd)
			x := in[0].(*big.Int)
			*c.c.x = new(big.Int).Set(x)
			alt := func(mod *big.Int, inputs []*big.Int, res []*big.Int) error {
				y := new(big.Int).Add(inputs[0], mod)
				res[0] = new(big.Int).Div(y, gl.MODULUS)
				res[1] = new(big.Int).Rem(y, gl.MODULUS)
				return nil
			}
			return c.Compiler.NewHint(alt, n, in...)
		}
	}
	return c.Compiler.NewHint(f, n, in...)
}
func (c *capQ) Define(api frontend.API) error {
	a := &capAPI{API: api}
	a.cc = &capCompiler{Compiler: api.Compiler(), c: c}
	var st poseidon.GoldilocksState
	for i := range st {
		st[i] = gl.NewVariable(c.In[i])
	}
	out := poseidon.NewGoldilocksChip(a).Poseidon(st)
	for i := range out {
		c.out[i] = new(big.Int).Set(out[i].Limb.(*big.Int))
	}
	return nil
}

type posPub struct {
	In  [12]frontend.Variable
	Out [12]frontend.Variable `gnark:",public"`
}

func (c *posPub) Define(api frontend.API) error {
	var st poseidon.GoldilocksState
	for i := range st {
		st[i] = gl.NewVariable(c.In[i])
	}
	out := poseidon.NewGoldilocksChip(api).Poseidon(st)
	for i := range out {
		api.AssertIsEqual(out[i].Limb, c.Out[i])
	}
	return nil
}

func TestR1CSWrap(t *testing.T) {
	os.Setenv("USE_BIT_DECOMPOSITION_RANGE_CHECK", "true")
	var in [12]frontend.Variable
	for i := range in {
		in[i] = big.NewInt(int64(i * 7))
	}
	var altOut [12]*big.Int
	var xT *big.Int
	err := test.IsSolved(&capQ{out: &altOut, x: &xT}, &capQ{In: in}, ecc.BN254.ScalarField())
	fmt.Println("engine run with injected quotient ok:", err == nil, "x at site:", xT)
	t0 := time.Now()
	ccs, err := frontend.Compile(ecc.BN254.ScalarField(), r1cs.NewBuilder, &posPub{})
	fmt.Println("compiled R1CS constraints:", ccs.GetNbConstraints(), err, time.Since(t0))
	var w posPub
	w.In = in
	for i := range altOut {
		w.Out[i] = altOut[i]
	}
	wit, _ := frontend.NewWitness(&w, ecc.BN254.ScalarField())
	// honest solver on the false statement
	_, err = ccs.Solve(wit)
	fmt.Println("honest solver on FALSE Poseidon output: solved =", err == nil)
	altHint := func(mod *big.Int, inputs []*big.Int, res []*big.Int) error {
		y := new(big.Int).Set(inputs[0])
		if inputs[0].Cmp(xT) == 0 {
			y.Add(y, mod)
		}
		res[0] = new(big.Int).Div(y, gl.MODULUS)
		res[1] = new(big.Int).Rem(y, gl.MODULUS)
		return nil
	}
	_, err = ccs.Solve(wit, solver.OverrideHint(solver.GetHintID(gl.ReduceHint), altHint))
	fmt.Println("dishonest-hint solver on FALSE Poseidon output: solved =", err == nil, err)
	pk, vk, _ := groth16.Setup(ccs)
	proof, err := groth16.Prove(ccs, pk, wit, backend.WithSolverOptions(solver.OverrideHint(solver.GetHintID(gl.ReduceHint), altHint)))
	if err == nil {
		pw, _ := wit.Public()
		fmt.Println("groth16 proof of a FALSE Poseidon evaluation verifies:", groth16.Verify(proof, vk, pw) == nil)
	} else {
		fmt.Println("prove err", err)
	}
}
