package proto

import (
	"fmt"
	"math/big"
	"os"
	"testing"
	"time"

	"github.com/consensys/gnark-crypto/ecc"
	"github.com/consensys/gnark/frontend"
	"github.com/consensys/gnark/test"
	gl "github.com/wormhole-foundation/example-near-light-client/goldilocks"
	"github.com/wormhole-foundation/example-near-light-client/poseidon"
	"github.com/wormhole-foundation/example-near-light-client/types"
	"github.com/wormhole-foundation/example-near-light-client/variables"
	"github.com/wormhole-foundation/example-near-light-client/verifier"
)

// native rangechecker proxy
type nativeAPI struct {
	frontend.API
	checks int
}

func (n *nativeAPI) Check(v frontend.Variable, bits int) { n.checks++; panic("native check called") }

type rcCircuit struct {
	X frontend.Variable
}

func (c *rcCircuit) Define(api frontend.API) error {
	p := &nativeAPI{API: api}
	g := gl.New(p)
	g.RangeCheck(gl.NewVariable(c.X))
	fmt.Println("native checks delivered:", p.checks)
	return nil
}

func TestNativeNoop(t *testing.T) {
	bad := new(big.Int).Lsh(big.NewInt(1), 100)
	err := test.IsSolved(&rcCircuit{}, &rcCircuit{X: bad}, ecc.BN254.ScalarField())
	fmt.Println("native mode, X=2^100, err=", err)
}

type sboxCircuit struct {
	In [12]frontend.Variable
}

func (c *sboxCircuit) Define(api frontend.API) error {
	var st poseidon.GoldilocksState
	for i := range st {
		st[i] = gl.NewVariable(c.In[i])
	}
	ch := poseidon.NewGoldilocksChip(api)
	out := ch.Poseidon(st)
	_ = out
	return nil
}

func TestFull(t *testing.T) {
	os.Setenv("USE_BIT_DECOMPOSITION_RANGE_CHECK", os.Getenv("BD"))
	dir := "/repo/gnark-plonky2-verifier/testdata/test_circuit"
	cd := types.ReadCommonCircuitData(dir + "/common_circuit_data.json")
	raw := types.ReadProofWithPublicInputs(dir + "/proof_with_public_inputs.json")
	vd := variables.DeserializeVerifierOnlyCircuitData(types.ReadVerifierOnlyCircuitData(dir + "/verifier_only_circuit_data.json"))
	for _, k := range []int{1, 2, 28} {
		r := raw
		r.Proof.OpeningProof.QueryRoundProofs = raw.Proof.OpeningProof.QueryRoundProofs[:k]
		p, _ := variables.DeserializeProofWithPublicInputs(r)
		c := cd
		c.Config.FriConfig.NumQueryRounds = uint64(k)
		c.FriParams.Config.NumQueryRounds = uint64(k)
		circ := verifier.VerifierCircuit{Proof: p.Proof, PublicInputs: p.PublicInputs, VerifierData: vd, CommonCircuitData: c}
		w := verifier.VerifierCircuit{Proof: p.Proof, PublicInputs: p.PublicInputs, VerifierData: vd, CommonCircuitData: c}
		t0 := time.Now()
		err := test.IsSolved(&circ, &w, ecc.BN254.ScalarField())
		fmt.Println("k=", k, "err=", err == nil, time.Since(t0))
		if err != nil {
			s := err.Error()
			if len(s) > 300 {
				s = s[:300]
			}
			fmt.Println(s)
		}
	}
}
