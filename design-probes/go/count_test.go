package proto

import (
	"fmt"
	"testing"

	"github.com/consensys/gnark-crypto/ecc"
	"github.com/consensys/gnark/constraint/solver"
	"github.com/consensys/gnark/frontend"
	"github.com/consensys/gnark/test"
	"github.com/wormhole-foundation/example-near-light-client/types"
	"github.com/wormhole-foundation/example-near-light-client/variables"
	"github.com/wormhole-foundation/example-near-light-client/verifier"
)

type cnt struct {
	frontend.API
	ops, hints, asserts int
	byHint              map[string]int
}
type cntC struct {
	frontend.Compiler
	c *cnt
}

func (c *cnt) Compiler() frontend.Compiler { return &cntC{c.API.Compiler(), c} }
func (c *cntC) NewHint(f solver.Hint, n int, in ...frontend.Variable) ([]frontend.Variable, error) {
	c.c.hints++
	c.c.byHint[hintName(f)]++
	return c.Compiler.NewHint(f, n, in...)
}
func (c *cnt) Add(a, b frontend.Variable, in ...frontend.Variable) frontend.Variable {
	c.ops++
	return c.API.Add(a, b, in...)
}
func (c *cnt) Mul(a, b frontend.Variable, in ...frontend.Variable) frontend.Variable {
	c.ops++
	return c.API.Mul(a, b, in...)
}
func (c *cnt) MulAcc(a, b, d frontend.Variable) frontend.Variable { c.ops++; return c.API.MulAcc(a, b, d) }
func (c *cnt) Sub(a, b frontend.Variable, in ...frontend.Variable) frontend.Variable {
	c.ops++
	return c.API.Sub(a, b, in...)
}
func (c *cnt) Select(a, b, d frontend.Variable) frontend.Variable { c.ops++; return c.API.Select(a, b, d) }
func (c *cnt) AssertIsEqual(a, b frontend.Variable)              { c.asserts++; c.API.AssertIsEqual(a, b) }
func (c *cnt) Check(v frontend.Variable, bits int)               {}

type wrapCnt struct {
	wrapN
	k int
}

func (c *wrapCnt) Define(api frontend.API) error {
	p := &cnt{API: api, byHint: map[string]int{}}
	vc := verifier.NewVerifierChip(p, c.CommonCircuitData)
	vc.Verify(c.Proof, c.PublicInputs, c.VerifierData)
	fmt.Println("k", c.k, "arith ops", p.ops, "hints", p.hints, "asserts", p.asserts, p.byHint)
	return nil
}

func TestCount(t *testing.T) {
	dir := "/repo/gnark-plonky2-verifier/testdata/test_circuit"
	cd := types.ReadCommonCircuitData(dir + "/common_circuit_data.json")
	raw := types.ReadProofWithPublicInputs(dir + "/proof_with_public_inputs.json")
	vd := variables.DeserializeVerifierOnlyCircuitData(types.ReadVerifierOnlyCircuitData(dir + "/verifier_only_circuit_data.json"))
	for _, k := range []int{1, 28} {
		r := raw
		r.Proof.OpeningProof.QueryRoundProofs = raw.Proof.OpeningProof.QueryRoundProofs[:k]
		p, _ := variables.DeserializeProofWithPublicInputs(r)
		c := cd
		c.Config.FriConfig.NumQueryRounds = uint64(k)
		c.FriParams.Config.NumQueryRounds = uint64(k)
		mk := func() *wrapCnt {
			return &wrapCnt{wrapN{Proof: p.Proof, PublicInputs: p.PublicInputs, VerifierData: vd, CommonCircuitData: c}, k}
		}
		err := test.IsSolved(mk(), mk(), ecc.BN254.ScalarField())
		fmt.Println(err == nil)
	}
}
