---- MODULE RangeGame ----
EXTENDS Integers, TLC
CONSTANTS K, R
P == 2^(2*K) - 2^K + 1
Lim == 2^K
VARIABLES phase, x, hi, lo, verdict
vars == <<phase, x, hi, lo, verdict>>
Init == phase = "start" /\ x \in 0..(R-1) /\ hi = 0 /\ lo = 0 /\ verdict = "none"
\* prover picks limbs; each limb passes an exact K-bit check or the run is rejected, so only K-bit limbs matter
Prover == /\ phase = "start" /\ \E h \in 0..(Lim-1), l \in 0..(Lim-1) : hi' = h /\ lo' = l
          /\ phase' = "limbed" /\ UNCHANGED <<x, verdict>>
Verify == /\ phase = "limbed"
          /\ verdict' = IF (hi * Lim + lo) % R = x /\ (hi = Lim - 1 => lo = 0) THEN "accept" ELSE "reject"
          /\ phase' = "done" /\ UNCHANGED <<x, hi, lo>>
Next == Prover \/ Verify \/ (phase = "done" /\ UNCHANGED vars)
Spec == Init /\ [][Next]_vars
Sound == (phase = "done" /\ verdict = "accept") => x < P
\* completeness: the honest limbs are accepted
Complete == \A v \in 0..(P-1) : LET h == v \div Lim  l == v % Lim IN (h = Lim - 1 => l = 0)
ASSUME Complete
====
