---- MODULE S ----
EXTENDS Integers, Sequences, TLC
Contains(s, t) == \E i \in 1..(Len(s) - Len(t) + 1) : SubSeq(s, i, i + Len(t) - 1) = t
ASSUME PrintT(<<Len("abc"), "ab" \o "cd", ToString(12), SubSeq("hello", 2, 3)>>)
ASSUME PrintT(<<Contains("U32ArithmeticGate { num_ops: 3 }", "ArithmeticGate { num_ops: "), Contains("PoseidonMdsGate", "PoseidonGate")>>)
====
