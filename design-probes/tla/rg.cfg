CONSTANTS K = 2  R = 49547
SPECIFICATION Spec
INVARIANT Sound
CHECK_DEADLOCK FALSE
