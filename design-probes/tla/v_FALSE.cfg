CONSTANTS NQ = 2 NSTEPS = 2 CAP = 4 KeyPinned = FALSE
SPECIFICATION Spec
INVARIANTS Sound Completeness
PROPERTY Monotone
CHECK_DEADLOCK FALSE
