---- MODULE Gates ----
EXTENDS Integers, Sequences, FiniteSets, TLC, Json
CONSTANTS P, W7
\* ---- terms
Wr(i) == [op |-> "w", i |-> i]
Cn(i) == [op |-> "c", i |-> i]
Kc(n) == [op |-> "k", v |-> ToString(n)]        \* base-field constant (decimal string) embedded in the extension
Add(a,b) == [op |-> "add", a |-> a, b |-> b]
Sub(a,b) == [op |-> "sub", a |-> a, b |-> b]
Mul(a,b) == [op |-> "mul", a |-> a, b |-> b]
\* ---- mini-field evaluation over GF(P^2), X^2 = W7; elements are <<c0,c1>>
EAdd(x,y) == <<(x[1]+y[1]) % P, (x[2]+y[2]) % P>>
ESub(x,y) == <<(x[1]-y[1]) % P, (x[2]-y[2]) % P>>
EMul(x,y) == <<(x[1]*y[1] + W7*x[2]*y[2]) % P, (x[1]*y[2] + x[2]*y[1]) % P>>
RECURSIVE Ev(_,_,_)
Ev(t, w, c) == CASE t.op = "w" -> w[t.i + 1]
                 [] t.op = "c" -> c[t.i + 1]
                 [] t.op = "k" -> <<CHOOSE n \in 0..(P-1) : ToString(n) = t.v, 0>>
                 [] t.op = "add" -> EAdd(Ev(t.a,w,c), Ev(t.b,w,c))
                 [] t.op = "sub" -> ESub(Ev(t.a,w,c), Ev(t.b,w,c))
                 [] t.op = "mul" -> EMul(Ev(t.a,w,c), Ev(t.b,w,c))
\* ---- gate polynomials (plonky2 definitions)
ArithmeticGate(numOps) ==
  [i \in 1..numOps |-> LET b == 4*(i-1) IN
     Sub(Wr(b+3), Add(Mul(Mul(Wr(b), Wr(b+1)), Cn(0)), Mul(Wr(b+2), Cn(1))))]
RECURSIVE Horner(_,_,_)
Horner(limbs, base, k) == IF k = 0 THEN Kc(0) ELSE Add(Mul(Horner(limbs, base, k-1), base), limbs[Len(limbs) - k + 1])
RECURSIVE ProdDiff(_,_)
ProdDiff(l, b) == IF b = 0 THEN Kc(1) ELSE Mul(ProdDiff(l, b-1), Sub(l, Kc(b-1)))
BaseSumGate(numLimbs, base) ==
  LET limbs == [j \in 1..numLimbs |-> Wr(j)]
      \* reduce_with_powers: sum limbs[j] * base^j  == Horner from the last limb
      rev == [j \in 1..numLimbs |-> limbs[numLimbs - j + 1]]
      sum == Horner(rev, Kc(base), numLimbs)
  IN <<Sub(sum, Wr(0))>> \o [j \in 1..numLimbs |-> ProdDiff(limbs[j], base)]
\* ---- checks on the mini field
E2 == {<<a,b>> : a \in 0..(P-1), b \in 0..(P-1)}
Zero == <<0,0>>
\* honest arithmetic rows: outputs computed from the inputs; every constraint vanishes; and a changed output does not
ArithHonest == \A m0 \in {<<2,3>>,<<0,1>>}, m1 \in {<<5,7>>,<<12,12>>}, ad \in {<<1,0>>,<<4,9>>}, c0 \in {<<3,0>>,<<11,0>>}, c1 \in {<<1,0>>,<<6,0>>} :
   LET out == EAdd(EMul(EMul(m0,m1),c0), EMul(ad,c1))
       w == <<m0,m1,ad,out>>
       bad == <<m0,m1,ad,EAdd(out,<<1,0>>)>>
   IN /\ Ev(ArithmeticGate(1)[1], w, <<c0,c1>>) = Zero
      /\ Ev(ArithmeticGate(1)[1], bad, <<c0,c1>>) # Zero
\* base-sum: for every limb vector in base B (embedded), constraints vanish iff limbs are digits and sum matches
BaseSumOK == \A l1 \in 0..3, l2 \in 0..3, l3 \in 0..3 :
   LET B == 2
       s == (l1 + B*l2 + B*B*l3) % P
       w == << <<s,0>>, <<l1,0>>, <<l2,0>>, <<l3,0>> >>
       cs == BaseSumGate(3, B)
       allz == \A k \in 1..Len(cs) : Ev(cs[k], w, <<>>) = Zero
   IN allz <=> (l1 < B /\ l2 < B /\ l3 < B)
ASSUME PrintT(<<"arith", ArithHonest, "basesum", BaseSumOK>>)
ASSUME JsonSerialize("/tmp/tlat/gt/arith20.json", ArithmeticGate(20))
ASSUME JsonSerialize("/tmp/tlat/gt/basesum63.json", BaseSumGate(63, 2))
====
