---- MODULE LeavesT ----
EXTENDS Integers, Sequences, TLC, Json, FiniteSets
CONSTANTS NQ
Trace == ndJsonDeserialize("/tmp/tlat/lv/trace.ndjson")
S(n) == ToString(n)
QE(name, n) == { name \o "[" \o S(i) \o "][" \o S(c) \o "]" : i \in 0..(n-1), c \in 0..1 }
OpeningLeaves == QE("Openings.Constants",5) \cup QE("Openings.PlonkSigmas",80) \cup QE("Openings.Wires",135)
   \cup QE("Openings.PlonkZs",2) \cup QE("Openings.PlonkZsNext",2) \cup QE("Openings.PartialProducts",18) \cup QE("Openings.QuotientPolys",16)
TreeW == <<85,135,20,16>>
RoundLeaves(r) == UNION { { "QR[" \o S(r) \o "].Init[" \o S(t) \o "].Elem[" \o S(i) \o "]" : i \in 0..(TreeW[t+1]-1) } : t \in 0..3 }
                  \cup UNION { QE("QR[" \o S(r) \o "].Step[" \o S(s) \o "].Eval", 16) : s \in 0..1 }
Expected == OpeningLeaves \cup UNION { RoundLeaves(r) : r \in 0..(NQ-1) } \cup QE("FinalPoly",16) \cup {"PowWitness"}
Seen == { Trace[i].leaf : i \in 1..Len(Trace) }
ASSUME PrintT(<<Cardinality(Expected), Cardinality(Seen), Len(Trace)>>)
ASSUME Seen = Expected
====
