---- MODULE Tm ----
EXTENDS Integers, Sequences, TLC, Json
W(i) == [op |-> "w", i |-> i]
K(s) == [op |-> "k", v |-> s]
Add(a,b) == [op |-> "add", a |-> a, b |-> b]
Mul(a,b) == [op |-> "mul", a |-> a, b |-> b]
RECURSIVE Horner(_,_,_)
Horner(n, x, acc) == IF n = 0 THEN acc ELSE Horner(n-1, x, Add(Mul(acc, x), W(n)))
RECURSIVE Tree(_)
Tree(d) == IF d = 0 THEN W(0) ELSE LET t == Tree(d-1) IN Add(Mul(t, t), K("18446744069414584320"))
\* mini-field evaluation
P == 13
RECURSIVE Ev(_,_)
Ev(t, env) == CASE t.op = "w" -> env[t.i]
                [] t.op = "k" -> 5
                [] t.op = "add" -> (Ev(t.a, env) + Ev(t.b, env)) % P
                [] t.op = "mul" -> (Ev(t.a, env) * Ev(t.b, env)) % P
ASSUME JsonSerialize("/tmp/tlat/horner.json", Horner(300, W(0), K("0")))
ASSUME JsonSerialize("/tmp/tlat/tree.json", Tree(14))
ASSUME PrintT(Ev(Horner(300, W(0), K("0")), [i \in 0..300 |-> i % P]))
ASSUME PrintT(Ev(Tree(14), [i \in 0..0 |-> 3]))
====
