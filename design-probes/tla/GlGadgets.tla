---- MODULE GlGadgets ----
EXTENDS Integers, TLC
CONSTANTS K, R, QBITS, XMAX, PINV
P == 2^(2*K) - 2^K + 1
Lim == 2^K
ASSUME (PINV * P) % R = 1

VARIABLES phase, x, q, rem, verdict
vars == <<phase, x, q, rem, verdict>>

\* exact canonical check (established separately by RangeGame below)
Canon(v) == v < P

Init == /\ phase = "start" /\ x \in 0..XMAX /\ q = 0 /\ rem = 0 /\ verdict = "none"

\* prover chooses any remainder that can pass a 2-limb decomposition, and the quotient solving the field equation
ProverMove == /\ phase = "start"
              /\ \E r \in 0..(Lim*Lim-1) :
                    /\ rem' = r
                    /\ q' = (((x - r) % R) * PINV) % R
              /\ phase' = "hinted"
              /\ UNCHANGED <<x, verdict>>

Verify == /\ phase = "hinted"
          /\ verdict' = IF /\ (q * P + rem) % R = x % R
                           /\ q < 2^QBITS
                           /\ Canon(rem)
                        THEN "accept" ELSE "reject"
          /\ phase' = "done"
          /\ UNCHANGED <<x, q, rem>>

Next == ProverMove \/ Verify \/ (phase = "done" /\ UNCHANGED vars)
Spec == Init /\ [][Next]_vars

Unique == (phase = "done" /\ verdict = "accept") => rem = x % P
Complete == \A v \in 0..XMAX : (v \div P) < 2^QBITS
ASSUME Complete
====
