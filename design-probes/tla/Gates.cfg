CONSTANTS P = 13 W7 = 7
