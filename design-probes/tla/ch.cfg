CONSTANTS RATE = 3 WIDTH = 4 MAXOPS = 9 Syms = {"a","b"}
SPECIFICATION Spec
INVARIANTS Binding BufBounds Discard
CHECK_DEADLOCK FALSE
