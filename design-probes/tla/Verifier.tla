---- MODULE Verifier ----
EXTENDS Integers, Sequences, FiniteSets, TLC
CONSTANTS NQ,        \* query rounds
          NSTEPS,    \* fold steps
          CAP,       \* cap size
          KeyPinned  \* TRUE iff the verifier key is a build-time constant / public
Rounds == 0..(NQ-1)
Steps  == 0..(NSTEPS-1)
Trees  == 0..3
CapIx  == 0..(CAP-1)
OpeningKinds == {"Constants","PlonkSigmas","Wires","PlonkZs","PlonkZsNext","PartialProducts","QuotientPolys"}

\* a leaf = record; r,t,s,i are 0 where not applicable
Leaf(c, r, t, i) == [cls |-> c, r |-> r, t |-> t, i |-> i]
Leaves ==
     {Leaf("PI",0,0,0), Leaf("VD.digest",0,0,0), Leaf("FinalPoly",0,0,0), Leaf("Pow",0,0,0)}
  \cup {Leaf("VD.cap",0,0,i) : i \in CapIx}
  \cup {Leaf(c,0,0,i) : c \in {"WiresCap","ZsCap","QuotCap"}, i \in CapIx}
  \cup {Leaf(k,0,0,0) : k \in OpeningKinds}
  \cup {Leaf("CommitCap",0,s,i) : s \in Steps, i \in CapIx}
  \cup {Leaf(c,r,t,0) : c \in {"Init.Elem","Init.Sib"}, r \in Rounds, t \in Trees}
  \cup {Leaf(c,r,s,0) : c \in {"Step.Eval","Step.Sib"}, r \in Rounds, s \in Steps}
GlValued(l) == l.cls \in OpeningKinds \cup {"Init.Elem","Step.Eval","FinalPoly","Pow"}
Kinds == {"value","noncanon"}

VARIABLES pc, pert, capIdx, fresh, tainted, powLuck, verdict, blame
vars == <<pc, pert, capIdx, fresh, tainted, powLuck, verdict, blame>>

None == [cls |-> "none", r |-> 0, t |-> 0, i |-> 0]
Changed(l) == pert.leaf = l /\ pert.kind = "value"
ChangedCls(c) == pert.kind = "value" /\ pert.leaf.cls = c

\* transcript: sequence of items; an item is <<"obs", set of classes>> or <<"sq", challenge name>>
Transcript ==
  << <<"obs", {"VD.digest"}>>, <<"obs", {"PI"}>>, <<"obs", {"WiresCap"}>>, <<"sq","beta">>, <<"sq","gamma">>,
     <<"obs", {"ZsCap"}>>, <<"sq","alpha">>, <<"obs", {"QuotCap"}>>, <<"sq","zeta">>,
     <<"obs", OpeningKinds>>, <<"sq","fri_alpha">> >>
  \o [k \in 1..(2*NSTEPS) |-> IF k % 2 = 1 THEN <<"obs", {"CommitCap"}, (k-1) \div 2>> ELSE <<"sq", "fri_beta", (k-2) \div 2>>]
  \o << <<"obs", {"FinalPoly"}>>, <<"obs", {"Pow"}>>, <<"sq","pow_resp">>, <<"sq","query_idx">> >>

\* challenges drawn after a changed observation are fresh
FreshAfter ==
  LET firstChanged == { k \in 1..Len(Transcript) :
                          /\ Transcript[k][1] = "obs"
                          /\ pert.kind = "value" /\ pert.leaf.cls \in Transcript[k][2]
                          /\ (pert.leaf.cls = "CommitCap" => Transcript[k][3] = pert.leaf.t) }
  IN { IF Len(Transcript[k]) = 3 THEN <<Transcript[k][2], Transcript[k][3]>> ELSE <<Transcript[k][2], 0>> :
         k \in { j \in 1..Len(Transcript) : Transcript[j][1] = "sq" /\ \E f \in firstChanged : f < j } }
IsFresh(c) == \E p \in fresh : p[1] = c

Phases == << <<"sweep">>, <<"transcript">>, <<"plonk">>, <<"pow">> >>
          \o [k \in 1..(NQ*(4 + 2*NSTEPS + 1)) |->
                LET r == (k-1) \div (4 + 2*NSTEPS + 1)  o == (k-1) % (4 + 2*NSTEPS + 1) IN
                IF o < 4 THEN <<"merkle_init", r, o>>
                ELSE IF o < 4 + 2*NSTEPS THEN (IF (o-4) % 2 = 0 THEN <<"consistency", r, (o-4) \div 2>> ELSE <<"merkle_step", r, (o-4) \div 2>>)
                ELSE <<"final", r, 0>>]
          \o << <<"done">> >>

CapOfTree(t) == CASE t = 0 -> "VD.cap" [] t = 1 -> "WiresCap" [] t = 2 -> "ZsCap" [] t = 3 -> "QuotCap"

Init == /\ pc = 1
        /\ pert \in [leaf : Leaves, kind : Kinds] \cup {[leaf |-> None, kind |-> "none"]}
        /\ (pert.kind = "noncanon" => GlValued(pert.leaf))
        /\ capIdx \in [Rounds -> CapIx]
        /\ fresh = {} /\ tainted = {} /\ powLuck \in BOOLEAN /\ verdict = "accept" /\ blame = {}

Fail(name) == verdict' = "reject" /\ blame' = blame \cup {name}
Pass == UNCHANGED <<verdict, blame>>
Check(cond, name) == IF cond THEN Fail(name) ELSE Pass

PinApplies == KeyPinned /\ pert.kind = "value" /\ pert.leaf.cls \in {"VD.cap","VD.digest"}
Step ==
  /\ pc < Len(Phases) /\ ~(pc = 1 /\ PinApplies)
  /\ pc' = pc + 1
  /\ UNCHANGED <<pert, capIdx, powLuck>>
  /\ LET ph == Phases[pc] IN
     CASE ph[1] = "sweep" ->
            /\ Check(pert.kind = "noncanon" /\ GlValued(pert.leaf), <<"sweep">>) /\ UNCHANGED <<fresh, tainted>>
       [] ph[1] = "transcript" ->
            /\ fresh' = FreshAfter /\ UNCHANGED tainted /\ Pass
       [] ph[1] = "plonk" ->
            /\ Check( (\E k \in OpeningKinds : ChangedCls(k)) \/ ChangedCls("PI")
                      \/ IsFresh("beta") \/ IsFresh("gamma") \/ IsFresh("alpha") \/ IsFresh("zeta"), <<"plonk">>)
            /\ UNCHANGED <<fresh, tainted>>
       [] ph[1] = "pow" ->
            /\ Check(IsFresh("pow_resp") /\ ~powLuck, <<"pow">>) /\ UNCHANGED <<fresh, tainted>>
       [] ph[1] = "merkle_init" ->
            LET r == ph[2]  t == ph[3] IN
            /\ Check( Changed(Leaf("Init.Elem",r,t,0)) \/ Changed(Leaf("Init.Sib",r,t,0)) \/ IsFresh("query_idx")
                      \/ (Changed(Leaf(CapOfTree(t),0,0,capIdx[r])) /\ ~(t = 0 /\ KeyPinned /\ FALSE)), <<"merkle_init",r,t>>)
            \* running evaluation is tainted by changed evals, changed openings, fresh alpha/zeta/index
            /\ tainted' = tainted \cup (IF Changed(Leaf("Init.Elem",r,t,0)) \/ (\E k \in OpeningKinds : ChangedCls(k))
                                          \/ IsFresh("fri_alpha") \/ IsFresh("zeta") \/ IsFresh("query_idx")
                                        THEN {r} ELSE {})
            /\ UNCHANGED fresh
       [] ph[1] = "consistency" ->
            LET r == ph[2]  s == ph[3] IN
            \* the claimed evaluation at the query's own position must equal the running value; a changed
            \* Step.Eval may or may not be the selected one: the model does not rely on this check for it
            /\ Check(r \in tainted, <<"consistency",r,s>>)
            /\ tainted' = IF Changed(Leaf("Step.Eval",r,s,0)) \/ (\E p \in fresh : p = <<"fri_beta", s>>) THEN tainted \cup {r} ELSE tainted \ {r}
            /\ UNCHANGED fresh
       [] ph[1] = "merkle_step" ->
            LET r == ph[2]  s == ph[3] IN
            /\ Check( Changed(Leaf("Step.Eval",r,s,0)) \/ Changed(Leaf("Step.Sib",r,s,0)) \/ IsFresh("query_idx")
                      \/ Changed(Leaf("CommitCap",0,s,capIdx[r])), <<"merkle_step",r,s>>)
            /\ UNCHANGED <<fresh, tainted>>
       [] ph[1] = "final" ->
            LET r == ph[2] IN
            /\ Check(r \in tainted \/ ChangedCls("FinalPoly"), <<"final",r>>) /\ UNCHANGED <<fresh, tainted>>

\* the pinned key: a changed key element is rejected when the wrapper is instantiated
Pin == /\ pc = 1 /\ KeyPinned /\ pert.kind = "value" /\ pert.leaf.cls \in {"VD.cap","VD.digest"}
       /\ pc' = Len(Phases) /\ verdict' = "reject" /\ blame' = {<<"key_pinned">>}
       /\ UNCHANGED <<pert, capIdx, fresh, tainted, powLuck>>

Next == Step \/ Pin \/ (pc = Len(Phases) /\ UNCHANGED vars)
Spec == Init /\ [][Next]_vars

Done == pc = Len(Phases)
Sound == (Done /\ pert.kind # "none") => verdict = "reject"
Completeness == (Done /\ pert.kind = "none") => verdict = "accept"
Monotone == [][verdict = "reject" => verdict' = "reject"]_vars
====
