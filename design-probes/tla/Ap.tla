---- MODULE Ap ----
EXTENDS Integers
P == 18446744069414584321
R == 21888242871839275222246405745257275088548364400416034343698204186575808495617
T144 == 22300745198530623141535718272648361505980416
T192 == 6277101735386680763835789423207666416102355444464034512896
VARIABLES
  \* @type: Int;
  x,
  \* @type: Int;
  q,
  \* @type: Int;
  rem,
  \* @type: Int;
  k

Init ==
  /\ x \in Nat /\ x < R
  /\ q \in Nat /\ q < T144
  /\ rem \in Nat /\ rem < P
  /\ k \in Nat
  /\ q * P + rem = x + k * R
Init192 ==
  /\ x \in Nat /\ x < R
  /\ q \in Nat /\ q < T192
  /\ rem \in Nat /\ rem < P
  /\ k \in Nat
  /\ q * P + rem = x + k * R
Next == UNCHANGED <<x,q,rem,k>>
Inv == k = 0
====
