CONSTANTS K = 2  R = 49547  QBITS = 9  XMAX = 2196 PINV = 11434
SPECIFICATION Spec
INVARIANT Unique
CHECK_DEADLOCK FALSE
