---- MODULE Challenger ----
EXTENDS Integers, Sequences, FiniteSets, TLC
CONSTANTS RATE, WIDTH, MAXOPS, Syms
\* sponge state is a term: <<"init">> or <<"perm", prevState, absorbedSeq>> ; element i of a state: <<"el", state, i>>
VARIABLES sponge, inBuf, outBuf, nops, observed, lastOut
vars == <<sponge, inBuf, outBuf, nops, observed, lastOut>>

Init == /\ sponge = <<"init">> /\ inBuf = <<>> /\ outBuf = <<>> /\ nops = 0 /\ observed = {} /\ lastOut = <<"none">>

Duplexed(s, ib) == <<"perm", s, ib>>          \* overwrite first Len(ib) elements, then permute
OutOf(s) == [i \in 1..RATE |-> <<"el", s, i>>]

Observe(e) == /\ nops < MAXOPS /\ nops' = nops + 1
              /\ observed' = observed \cup {e}
              /\ lastOut' = <<"none">>
              /\ LET ib == Append(inBuf, e) IN
                   IF Len(ib) = RATE
                     THEN /\ sponge' = Duplexed(sponge, ib) /\ inBuf' = <<>> /\ outBuf' = OutOf(Duplexed(sponge, ib))
                     ELSE /\ sponge' = sponge /\ inBuf' = ib /\ outBuf' = <<>>

Squeeze == /\ nops < MAXOPS /\ nops' = nops + 1
           /\ LET need == (Len(inBuf) # 0 \/ Len(outBuf) = 0)
                  s2 == IF need THEN Duplexed(sponge, inBuf) ELSE sponge
                  ob == IF need THEN OutOf(s2) ELSE outBuf
              IN /\ sponge' = s2 /\ inBuf' = IF need THEN <<>> ELSE inBuf
                 /\ lastOut' = ob[Len(ob)]
                 /\ outBuf' = SubSeq(ob, 1, Len(ob) - 1)
           /\ UNCHANGED observed

Next == (\E e \in Syms : Observe(e)) \/ Squeeze
Spec == Init /\ [][Next]_vars

RECURSIVE SymsOf(_)
SymsOf(t) == IF t[1] = "init" THEN {}
             ELSE IF t[1] = "perm" THEN SymsOf(t[2]) \cup {t[3][i] : i \in 1..Len(t[3])}
             ELSE IF t[1] = "el" THEN SymsOf(t[2]) ELSE {}
Binding == lastOut[1] = "el" => observed \subseteq SymsOf(lastOut)
BufBounds == Len(inBuf) < RATE /\ Len(outBuf) <= RATE
\* Discard: outputs in outBuf always belong to the current sponge state
Discard == \A i \in 1..Len(outBuf) : outBuf[i][2] = sponge
====
