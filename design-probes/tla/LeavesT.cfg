CONSTANTS NQ = 28
